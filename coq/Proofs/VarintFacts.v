(* VarintFacts.v: the bit-level varint loops of the implementation equal the arithmetic
   specification: writer = canonical spec_varint, reader = spec_vread (accepts exactly the
   permitted encodings), and the round trip.  Generic in the width through `vfacts`. *)
From Coq Require Import Lia ZifyBool ZifyNat ZifyN.
From PV Require Import Base MachineInt VarintParams GenArith GenLoops Varint WireFormat BaseFacts BitFacts.
Open Scope N_scope.
Arguments N.add : simpl never. Arguments N.mul : simpl never. Arguments N.pow : simpl never.
Arguments N.modulo : simpl never. Arguments N.div : simpl never. Arguments N.sub : simpl never.
Arguments N.ltb : simpl never. Arguments N.leb : simpl never. Arguments N.eqb : simpl never.
Arguments N.land : simpl never. Arguments N.lor : simpl never.
Arguments N.shiftl : simpl never. Arguments N.shiftr : simpl never.

(* ---------------- writer ---------------- *)

Lemma venc_loop_std t fuel v :
  venc_loop (std_writer t) fuel v = spec_varint_fuel fuel v.
Proof.
  revert v; induction fuel as [|f IH]; intro v; [reflexivity|].
  cbn [venc_loop spec_varint_fuel std_writer w_cmp w_thresh w_flag w_shift cmp_eval].
  destruct (N.ltb_spec v 128) as [Hv|Hv].
  - f_equal. apply N.mod_small. lia.
  - rewrite byte_lor_128 by (apply N.mod_lt; discriminate).
    rewrite mod256_mod128, shiftr7, IH. reflexivity.
Qed.

(* fuel beyond the number of groups changes nothing *)
Lemma spec_varint_fuel_enough f1 f2 v :
  v < 128 ^ N.of_nat f1 -> (f1 <= f2)%nat -> (1 <= f1)%nat ->
  spec_varint_fuel f2 v = spec_varint_fuel f1 v.
Proof.
  revert f2 v; induction f1 as [|f1 IH]; intros f2 v Hv Hle H1; [lia|].
  destruct f2 as [|f2]; [lia|]. cbn [spec_varint_fuel].
  destruct (N.ltb_spec v 128) as [Hs|Hs]; [reflexivity|].
  f_equal. destruct f1 as [|f1'].
  - simpl in Hv. lia.
  - apply IH; try lia.
    replace (N.of_nat (S (S f1'))) with (N.succ (N.of_nat (S f1'))) in Hv by lia.
    rewrite N.pow_succ_r' in Hv.
    apply N.div_lt_upper_bound; [discriminate|assumption].
Qed.

Lemma size_bound v : v < 128 ^ N.of_nat (S (N.to_nat (N.size v))).
Proof.
  replace (N.of_nat (S (N.to_nat (N.size v)))) with (N.succ (N.size v)) by lia.
  rewrite pow128.
  eapply N.lt_le_trans; [apply N.size_gt|].
  apply N.pow_le_mono_r; lia.
Qed.

Lemma spec_varint_unfold v :
  spec_varint v = if v <? 128 then [v] else (v mod 128 + 128) :: spec_varint (v / 128).
Proof.
  unfold spec_varint at 1. cbn [spec_varint_fuel].
  destruct (N.ltb_spec v 128) as [Hs|Hs]; [reflexivity|]. f_equal.
  unfold spec_varint.
  assert (Hsz : N.size (v / 128) + 1 <= N.size v).
  { assert (Hq : 1 <= v / 128) by (apply N.div_le_lower_bound; lia).
    rewrite !N.size_log2 by lia.
    rewrite <- shiftr7, N.log2_shiftr.
    assert (H7 : N.log2 128 <= N.log2 v) by (apply N.log2_le_mono; assumption).
    change (N.log2 128) with 7 in H7. lia. }
  apply spec_varint_fuel_enough; try lia.
  eapply N.lt_le_trans; [apply size_bound|]. apply N.pow_le_mono_r; lia.
Qed.

Lemma spec_varint_fuel_canon f v :
  v < 128 ^ N.of_nat f -> (1 <= f)%nat -> spec_varint_fuel f v = spec_varint v.
Proof.
  intros Hv H1. unfold spec_varint.
  destruct (Nat.le_ge_cases f (S (N.to_nat (N.size v)))) as [Hle|Hge].
  - symmetry. apply spec_varint_fuel_enough; assumption.
  - apply spec_varint_fuel_enough; try lia. apply size_bound.
Qed.

(* ---------------- the width-dependent constants ---------------- *)

Record vfacts (w vmax molb : N) : Prop := {
  vf_pos : 1 <= vmax;
  vf_lo : 7 * (vmax - 1) < w;
  vf_hi : w <= 7 * vmax;
  vf_molb : molb + 1 = 2 ^ (w - 7 * (vmax - 1))
}.

Definition tvmax (t : ity) : N := Z.to_N (Core.varint_max t).
Definition tmolb (t : ity) : N := Z.to_N (Core.max_of_last_byte t).
Definition is_vty (t : ity) : Prop := t = u16 \/ t = u32 \/ t = u64 \/ t = u128.

(* the generated varint_max / max_of_last_byte have the right values at the four widths *)
Lemma vfacts_of t : is_vty t -> vfacts (wbits t) (tvmax t) (tmolb t).
Proof.
  intros [E|[E|[E|E]]]; subst t; split; vm_compute; try reflexivity; discriminate.
Qed.
Lemma tvmax_len t : is_vty t -> tvmax t = varint_max_len (wbits t).
Proof. intros [E|[E|[E|E]]]; subst t; vm_compute; reflexivity. Qed.

Lemma venc_std t v :
  is_vty t -> v < 2 ^ wbits t -> venc (std_writer t) v = spec_varint v.
Proof.
  intros Ht Hv. unfold venc, venc_with. cbn [std_writer w_ty]. rewrite venc_loop_std.
  destruct (vfacts_of t Ht) as [H1 H2 H3 H4].
  apply spec_varint_fuel_canon.
  - eapply N.lt_le_trans; [exact Hv|]. rewrite pow128. apply N.pow_le_mono_r; [lia|].
    unfold tvmax in *. lia.
  - unfold tvmax in *. lia.
Qed.

(* ---------------- reader ---------------- *)

Definition lpop {X} (x0 : X) (l : list byte) : (byte * list byte) + X :=
  match l with [] => inr x0 | b :: r => inl (b, r) end.

Definition vnorm {X} (o : vout (list byte) X) : option vspec :=
  match o with
  | VOk n r => Some (VsOk n r)
  | VStop _ => Some VsEnd
  | VErrLast | VErrLong => Some VsBad
  | VPanic => None
  end.

Section ReaderStd.
  Context {X E : Type} (x0 : X) (e : E) (t : ity) (w vmax molb : N).
  Hypothesis F : vfacts w vmax molb.
  Hypothesis Hw : wbits t = w.
  Let p : rparams E := std_reader t e.

  Lemma pow_split a b : b <= a -> 2 ^ a = 2 ^ (a - b) * 2 ^ b.
  Proof. intro H. rewrite <- N.pow_add_r. f_equal. lia. Qed.

  Lemma vdec_loop_spec fuel i acc l :
    N.of_nat fuel + i = vmax -> acc < 128 ^ i -> bytes_ok l ->
    vnorm (vdec_loop p vmax molb (lpop x0) fuel i acc l) = Some (spec_vread_loop w fuel i acc l).
  Proof.
    destruct F as [F1 F2 F3 F4].
    revert i acc l; induction fuel as [|f IH]; intros i acc l Hi Hacc Hl; [reflexivity|].
    cbn [vdec_loop spec_vread_loop].
    destruct l as [|b r]; [reflexivity|]. cbn [lpop].
    apply Forall_cons_iff in Hl as [Hb Hr]. unfold byte_ok in Hb.
    cbn [p std_reader r_mask r_mul r_flag r_lastoff r_cmp r_ty cmp_eval]. rewrite Hw.
    rewrite byte_land_127, byte_land_128 by assumption.
    assert (Hsh : 7 * i < w) by nia.
    destruct (N.leb_spec w (7 * i)) as [Hc|_]; [lia|].
    assert (Hg : b mod 128 < 128) by (apply N.mod_lt; discriminate).
    rewrite pow128 in Hacc.
    assert (Hpw : 0 < 2 ^ (7 * i)) by (apply N.neq_0_lt_0, N.pow_nonzero; discriminate).
    destruct (N.ltb_spec b 128) as [Hlt|Hge].
    - (* last group *)
      rewrite (N.mod_small b 128) by assumption.
      destruct (N.ltb_spec vmax 1) as [Hc|_]; [lia|].
      rewrite (pow128 i).
      assert (Hsplit : 2 ^ w = 2 ^ (w - 7 * i) * 2 ^ (7 * i)) by (apply pow_split; lia).
      destruct (N.eqb_spec i (vmax - 1)) as [Hlast|Hnl]; cbn [andb].
      + subst i. destruct (N.ltb_spec molb b) as [Hbig|Hsmall]; cbn [vnorm].
        * (* over range *)
          destruct (N.ltb_spec (acc + b * 2 ^ (7 * (vmax - 1))) (2 ^ w)) as [Hc|_]; [|reflexivity].
          exfalso. rewrite Hsplit in Hc. nia.
        * assert (Hbb : b < 2 ^ (w - 7 * (vmax - 1))) by lia.
          assert (Hfit : b * 2 ^ (7 * (vmax - 1)) < 2 ^ w) by (rewrite Hsplit; nia).
          rewrite (N.mod_small (N.shiftl _ _) (2 ^ w)) by (rewrite N.shiftl_mul_pow2; assumption).
          rewrite lor_low_high by assumption.
          destruct (N.ltb_spec (acc + b * 2 ^ (7 * (vmax - 1))) (2 ^ w)) as [_|Hc]; [reflexivity|].
          exfalso. rewrite Hsplit in Hc. nia.
      + assert (Hi2 : 7 * i + 7 <= w) by nia.
        assert (Hfit : b * 2 ^ (7 * i) < 2 ^ w).
        { eapply N.lt_le_trans with (m := 2 ^ (7 * i + 7)).
          - rewrite N.pow_add_r. change (2 ^ 7) with 128. nia.
          - apply N.pow_le_mono_r; lia. }
        cbn [vnorm].
        rewrite (N.mod_small (N.shiftl _ _) (2 ^ w)) by (rewrite N.shiftl_mul_pow2; assumption).
        rewrite lor_low_high by assumption.
        destruct (N.ltb_spec (acc + b * 2 ^ (7 * i)) (2 ^ w)) as [_|Hc]; [reflexivity|].
        exfalso.
        assert (2 ^ (7 * i + 7) <= 2 ^ w) by (apply N.pow_le_mono_r; lia).
        rewrite N.pow_add_r in H. change (2 ^ 7) with 128 in H. nia.
    - (* continuation *)
      destruct f as [|f'].
      + reflexivity.
      + assert (Hi2 : 7 * i + 7 <= w) by nia.
        assert (Hfit : b mod 128 * 2 ^ (7 * i) < 2 ^ w).
        { eapply N.lt_le_trans with (m := 2 ^ (7 * i + 7)).
          - rewrite N.pow_add_r. change (2 ^ 7) with 128. nia.
          - apply N.pow_le_mono_r; lia. }
        rewrite (N.mod_small (N.shiftl _ _) (2 ^ w)) by (rewrite N.shiftl_mul_pow2; assumption).
        rewrite lor_low_high by assumption.
        rewrite (pow128 i). apply IH; try assumption; try lia.
        rewrite pow128. replace (7 * (i + 1)) with (7 * i + 7) by lia.
        rewrite N.pow_add_r. change (2 ^ 7) with 128. nia.
  Qed.

  Lemma vdec_spec l :
    bytes_ok l ->
    vnorm (vdec p vmax molb (lpop x0) l) = Some (spec_vread_loop w (N.to_nat vmax) 0 0 l).
  Proof.
    intro Hl. unfold vdec. apply vdec_loop_spec; try assumption; try lia.
  Qed.
End ReaderStd.

(* ---------------- the reference reader against the declarative definition -------------- *)

Lemma varint_shape_nonempty bs : varint_shape bs = true -> bs <> [].
Proof. destruct bs; simpl; congruence. Qed.

Lemma varint_shape_cons b bs :
  bs <> [] -> varint_shape (b :: bs) = (128 <=? b) && (b <? 256) && varint_shape bs.
Proof. destruct bs; [congruence|reflexivity]. Qed.

Lemma spec_vread_loop_sound w fuel i acc l n rest :
  bytes_ok l ->
  spec_vread_loop w fuel i acc l = VsOk n rest ->
  exists bs, l = bs ++ rest /\ varint_shape bs = true /\ (length bs <= fuel)%nat /\
             n = acc + varint_value bs * 128 ^ i /\ n < 2 ^ w.
Proof.
  revert i acc l; induction fuel as [|f IH]; intros i acc l Hl H; [discriminate|].
  cbn [spec_vread_loop] in H. destruct l as [|b r]; [discriminate|].
  apply Forall_cons_iff in Hl as [Hb Hr]. unfold byte_ok in Hb.
  destruct (N.ltb_spec b 128) as [Hlt|Hge].
  - destruct (N.ltb_spec (acc + b mod 128 * 128 ^ i) (2 ^ w)) as [Hin|]; [|discriminate].
    inversion H; subst. exists [b]. cbn [app varint_shape varint_value length].
    repeat split; try lia.
  - apply IH in H; [|assumption]. destruct H as (bs & -> & Hs & Hlen & -> & Hn).
    exists (b :: bs). repeat split; try (simpl; lia).
    + rewrite varint_shape_cons by (apply varint_shape_nonempty; assumption). lia.
    + cbn [varint_value]. replace (i + 1) with (N.succ i) by lia. rewrite N.pow_succ_r'. lia.
Qed.

Lemma spec_vread_loop_complete w fuel i acc bs rest :
  varint_shape bs = true -> (length bs <= fuel)%nat ->
  acc + varint_value bs * 128 ^ i < 2 ^ w ->
  spec_vread_loop w fuel i acc (bs ++ rest) = VsOk (acc + varint_value bs * 128 ^ i) rest.
Proof.
  revert fuel i acc; induction bs as [|b bs IH]; intros fuel i acc Hs Hlen Hn; [discriminate|].
  destruct fuel as [|f]; [simpl in Hlen; lia|]. cbn [app spec_vread_loop].
  destruct bs as [|b2 bs'].
  - cbn [varint_shape] in Hs. rewrite Hs. cbn [varint_value] in *.
    replace (b mod 128 + 128 * 0) with (b mod 128) in * by lia.
    destruct (N.ltb_spec (acc + b mod 128 * 128 ^ i) (2 ^ w)); [reflexivity|lia].
  - rewrite varint_shape_cons in Hs by discriminate.
    destruct (N.ltb_spec b 128) as [Hc|_]; [lia|].
    cbn [varint_value] in Hn |- *.
    assert (E : acc + (b mod 128 + 128 * varint_value (b2 :: bs')) * 128 ^ i
                = acc + b mod 128 * 128 ^ i + varint_value (b2 :: bs') * 128 ^ (i + 1)).
    { replace (i + 1) with (N.succ i) by lia. rewrite N.pow_succ_r'. lia. }
    cbn [varint_value] in E. rewrite E in *.
    apply IH; [lia|simpl in *; lia|assumption].
Qed.

Theorem spec_vread_iff w l n rest :
  bytes_ok l ->
  (spec_vread w l = VsOk n rest <-> exists bs, l = bs ++ rest /\ valid_varint w bs n).
Proof.
  intro Hl. unfold spec_vread, valid_varint. split.
  - intro H. apply spec_vread_loop_sound in H; [|assumption].
    destruct H as (bs & -> & Hs & Hlen & -> & Hn). exists bs. repeat split; try assumption; try lia; change (128 ^ 0) with 1; lia.
  - intros (bs & -> & Hs & Hlen & <- & Hn).
    replace (varint_value bs) with (0 + varint_value bs * 128 ^ 0) by (change (128 ^ 0) with 1; lia).
    apply spec_vread_loop_complete; try assumption; try lia; change (128 ^ 0) with 1; lia.
Qed.

(* the canonical encoding is a permitted one, and no permitted one is shorter *)
Lemma spec_varint_value_shape v :
  varint_shape (spec_varint v) = true /\ varint_value (spec_varint v) = v.
Proof.
  induction v as [v IH] using (well_founded_induction N.lt_wf_0).
  rewrite spec_varint_unfold. destruct (N.ltb_spec v 128) as [Hs|Hs].
  - cbn [varint_shape varint_value]. split; [lia|]. rewrite N.mod_small by assumption. lia.
  - assert (Hq : v / 128 < v) by (apply N.div_lt; lia).
    destruct (IH _ Hq) as [IH1 IH2].
    rewrite varint_shape_cons by (apply varint_shape_nonempty; assumption).
    cbn [varint_value]. rewrite IH1, IH2.
    assert (Hm : v mod 128 < 128) by (apply N.mod_lt; discriminate).
    split; [lia|].
    replace ((v mod 128 + 128) mod 128) with (v mod 128).
    + pose proof (N.div_mod v 128 ltac:(discriminate)). lia.
    + replace (v mod 128 + 128) with (v mod 128 + 1 * 128) by lia.
      rewrite N.mod_add by discriminate. symmetry. apply N.mod_small. assumption.
Qed.

Lemma spec_varint_length_bound v k :
  v < 128 ^ N.of_nat k -> (1 <= k)%nat -> (length (spec_varint v) <= k)%nat.
Proof.
  revert v; induction k as [|k IH]; intros v Hv Hk; [lia|].
  rewrite spec_varint_unfold. destruct (N.ltb_spec v 128) as [Hs|Hs]; [simpl; lia|].
  cbn [length]. apply le_n_S. destruct k as [|k'].
  - simpl in Hv. lia.
  - apply IH; [|lia].
    replace (N.of_nat (S (S k'))) with (N.succ (N.of_nat (S k'))) in Hv by lia.
    rewrite N.pow_succ_r' in Hv. apply N.div_lt_upper_bound; [discriminate|assumption].
Qed.

Lemma varint_value_bound bs :
  bytes_ok bs -> varint_value bs < 128 ^ N.of_nat (length bs).
Proof.
  induction 1 as [|b bs Hb Hbs IH]; cbn [varint_value length].
  - simpl. lia.
  - replace (N.of_nat (S (length bs))) with (N.succ (N.of_nat (length bs))) by lia.
    rewrite N.pow_succ_r'. assert (b mod 128 < 128) by (apply N.mod_lt; discriminate). nia.
Qed.

Theorem spec_varint_valid w v :
  v < 2 ^ w -> 1 <= w -> valid_varint w (spec_varint v) v.
Proof.
  intros Hv Hw. destruct (spec_varint_value_shape v) as [H1 H2].
  unfold valid_varint. repeat split; try assumption.
  unfold varint_max_len.
  assert (Hk : (length (spec_varint v) <= N.to_nat ((w + 6) / 7))%nat).
  { apply spec_varint_length_bound.
    - eapply N.lt_le_trans; [exact Hv|]. rewrite pow128. apply N.pow_le_mono_r; [lia|].
      rewrite N2Nat.id.
      pose proof (N.div_mod (w + 6) 7 ltac:(discriminate)).
      pose proof (N.mod_lt (w + 6) 7 ltac:(discriminate)). lia.
    - assert (1 <= (w + 6) / 7) by (apply N.div_le_lower_bound; lia). lia. }
  lia.
Qed.

Theorem spec_varint_minimal bs v :
  bytes_ok bs -> varint_shape bs = true -> varint_value bs = v ->
  (length (spec_varint v) <= length bs)%nat.
Proof.
  intros Hb Hs <-. apply spec_varint_length_bound.
  - apply varint_value_bound; assumption.
  - destruct bs; [discriminate|simpl; lia].
Qed.
