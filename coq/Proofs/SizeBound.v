(* SizeBound.v: what a successful decode builds is bounded by a multiple of the bytes it
   consumed, the multiple depending on the shape only - whatever lengths the input claims -
   provided no sequence or map has elements that occupy no bytes (C04, allocation clause:
   the size of the decoded value is what the collection visitors allocate). *)
From PV Require Import Base MachineInt Utf8 DataModel WireFormat.
From PV Require Import De DeFlavors BaseFacts ValueInd Locality Simulation PtrSlice.
From Coq Require Import Lia.
Open Scope N_scope.

(* size of a decoded value: one unit per node, one per byte of string / byte-buffer content *)
Fixpoint vsize (v : value) : N :=
  let sum := fix sum (vs : list value) : N := match vs with [] => 0 | x :: r => vsize x + sum r end in
  match v with
  | VStr bs | VBytes bs => 1 + N.of_nat (length bs)
  | VSome x | VNewtype x | VVariant _ x => 1 + vsize x
  | VSeq vs | VTuple vs | VTupleStruct vs | VStruct vs | VSeqNoLen vs => 1 + sum vs
  | VMap kvs | VMapNoLen kvs =>
    1 + (fix sumkv (kvs : list (value * value)) : N :=
           match kvs with [] => 0 | kv :: r => vsize (fst kv) + vsize (snd kv) + sumkv r end) kvs
  | _ => 1
  end.
Fixpoint vsum (vs : list value) : N := match vs with [] => 0 | x :: r => vsize x + vsum r end.
Fixpoint vsumkv (kvs : list (value * value)) : N :=
  match kvs with [] => 0 | kv :: r => vsize (fst kv) + vsize (snd kv) + vsumkv r end.
Lemma vsize_seq vs : vsize (VSeq vs) = 1 + vsum vs. Proof. reflexivity. Qed.
Lemma vsize_tuple vs : vsize (VTuple vs) = 1 + vsum vs. Proof. reflexivity. Qed.
Lemma vsize_tuple_struct vs : vsize (VTupleStruct vs) = 1 + vsum vs. Proof. reflexivity. Qed.
Lemma vsize_struct vs : vsize (VStruct vs) = 1 + vsum vs. Proof. reflexivity. Qed.
Lemma vsize_map kvs : vsize (VMap kvs) = 1 + vsumkv kvs. Proof. reflexivity. Qed.
Lemma vsum_rev vs : vsum (rev vs) = vsum vs.
Proof.
  induction vs as [|x r IH]; [reflexivity|]. cbn [rev vsum].
  assert (H : forall a b, vsum (a ++ b) = vsum a + vsum b) by (induction a as [|y a IHa]; intros b; cbn [app vsum]; [reflexivity|rewrite IHa; lia]).
  rewrite H, IH. cbn [vsum]. lia.
Qed.
Lemma vsumkv_rev kvs : vsumkv (rev kvs) = vsumkv kvs.
Proof.
  induction kvs as [|x r IH]; [reflexivity|]. cbn [rev vsumkv].
  assert (H : forall a b, vsumkv (a ++ b) = vsumkv a + vsumkv b) by (induction a as [|y a IHa]; intros b; cbn [app vsumkv]; [reflexivity|rewrite IHa; lia]).
  rewrite H, IH. cbn [vsumkv]. lia.
Qed.

(* the least number of bytes any encoding of the shape occupies *)
Fixpoint min_width (t : ty) : N :=
  match t with
  | TBool | TInt _ | TStr | TBytes | TOption _ | TSeq _ | TMap _ _ | TEnum _ => 1
  | TF32 => 4 | TF64 => 8 | TChar => 1
  | TUnit | TUnitStruct => 0
  | TNewtype t' => min_width t'
  | TTuple ts | TTupleStruct ts | TStruct ts => (fix sum (ts : list ty) : N := match ts with [] => 0 | x :: r => min_width x + sum r end) ts
  end.
Fixpoint mw_sum (ts : list ty) : N := match ts with [] => 0 | x :: r => min_width x + mw_sum r end.
(* no sequence of zero-width elements, no map of zero-width entries, anywhere in the shape *)
Fixpoint no_zero_width (t : ty) : bool :=
  match t with
  | TOption t' | TNewtype t' => no_zero_width t'
  | TSeq t' => no_zero_width t' && (1 <=? min_width t')
  | TTuple ts | TTupleStruct ts | TStruct ts | TEnum ts => forallb no_zero_width ts
  | TMap k v => no_zero_width k && no_zero_width v && (1 <=? min_width k + min_width v)
  | _ => true
  end.
(* the multiple and the additive constant, by shape *)
Fixpoint offset (t : ty) : N :=
  match t with
  | TOption t' | TNewtype t' => 1 + offset t'
  | TTuple ts | TTupleStruct ts | TStruct ts | TEnum ts =>
    (fix sum (ts : list ty) : N := match ts with [] => 1 | x :: r => offset x + sum r end) ts
  | _ => 1
  end.
Fixpoint slope (t : ty) : N :=
  match t with
  | TOption t' | TNewtype t' => slope t'
  | TSeq t' => slope t' + offset t'
  | TTuple ts | TTupleStruct ts | TStruct ts | TEnum ts =>
    (fix sum (ts : list ty) : N := match ts with [] => 1 | x :: r => slope x + sum r end) ts
  | TMap k v => slope k + slope v + offset k + offset v
  | _ => 1
  end.
Fixpoint slope_sum (ts : list ty) : N := match ts with [] => 1 | x :: r => slope x + slope_sum r end.
Fixpoint offset_sum (ts : list ty) : N := match ts with [] => 1 | x :: r => offset x + offset_sum r end.

(* ---- parsers whose result is bounded by what they consume ---- *)
Definition bounded {A} (w : A -> N) (a b m : N) (f : list byte -> res (A * list byte)) : Prop :=
  forall l x rest, f l = Ok (x, rest) ->
  exists p, l = p ++ rest /\ m <= N.of_nat (length p) /\ w x <= a * N.of_nat (length p) + b.

Lemma bounded_weaken {A} (w : A -> N) a b m a' b' m' f :
  a <= a' -> b <= b' -> m' <= m -> bounded w a b m f -> bounded w a' b' m' f.
Proof.
  intros Ha Hb Hm H l x rest E. destruct (H l x rest E) as (p & -> & Hp & Hw). exists p. split; [reflexivity|]. split; [lia|nia].
Qed.
Lemma bounded_ret {A} (w : A -> N) (x : A) a : bounded w a (w x) 0 (fun l => Ok (x, l)).
Proof. intros l y rest [= <- <-]. exists []. split; [reflexivity|]. cbn [length]. split; lia. Qed.
Lemma bounded_fail {A} (w : A -> N) a b m e : bounded w a b m (fun _ : list byte => @Err (A * list byte) e).
Proof. intros l x rest H. discriminate H. Qed.
Lemma bounded_byte (w : byte -> N) c : (forall b, w b <= c) -> bounded w 0 c 1 sd_byte.
Proof.
  intros Hw [|b r] x rest H; [discriminate H|]. injection H as <- <-. exists [b]. split; [reflexivity|]. cbn [length]. split; [lia|].
  specialize (Hw b). lia.
Qed.
Lemma bounded_take n : bounded (fun bs : list byte => N.of_nat (length bs)) 1 0 n (sd_take n).
Proof.
  intros l x rest H. unfold sd_take in H. destruct (N.ltb_spec (N.of_nat (length l)) n) as [L|L]; [discriminate H|].
  injection H as <- <-. exists (firstn (N.to_nat n) l). split; [symmetry; apply firstn_skipn|].
  rewrite firstn_length_le by lia. split; lia.
Qed.
Lemma bounded_varint wd c : bounded (fun _ : N => c) 0 c 1 (sd_varint wd).
Proof.
  intros l x rest H. destruct (local_varint wd l x rest H) as (p & -> & L & _). exists p. split; [reflexivity|]. split; [|lia].
  destruct p as [|b p]; [|cbn [length]; lia]. exfalso. specialize (L []). cbn [app] in L.
  unfold sd_varint, spec_vread in L. destruct (N.to_nat (varint_max_len wd)); cbn [spec_vread_loop vspec_res] in L; discriminate L.
Qed.
Lemma bounded_bind {A B} (wA : A -> N) (wB : B -> N) a b1 b2 m1 m2
      (f : list byte -> res (A * list byte)) (g : A -> list byte -> res (B * list byte)) :
  bounded wA a b1 m1 f -> (forall x, bounded wB a (b2 + wA x) m2 (g x)) ->
  bounded wB a (b1 + b2) (m1 + m2) (fun l => let* '(x, r) := f l in g x r).
Proof.
  intros Hf Hg l y rest H. destruct (f l) as [[x r]| | | |] eqn:Ef; try discriminate H. cbn [bind] in H.
  destruct (Hf _ _ _ Ef) as (p1 & -> & M1 & W1). destruct (Hg x _ _ _ H) as (p2 & -> & M2 & W2).
  exists (p1 ++ p2). split; [rewrite app_assoc; reflexivity|]. rewrite app_length. split; [lia|nia].
Qed.
(* a loop whose every round consumes at least one byte: the per-round constant is absorbed *)
Lemma bounded_iter {S} (wS : S -> N) a b (step : S * list byte -> res (S * list byte)) :
  (forall acc, bounded wS a (b + wS acc) 1 (fun l => step (acc, l))) ->
  forall n acc, bounded wS (a + b) (wS acc) 0 (fun l => iter_nat step n (acc, l)).
Proof.
  intros Hs. induction n as [|n IH]; intros acc l x rest H; cbn [iter_nat] in H.
  - injection H as <- <-. exists []. split; [reflexivity|]. cbn [length]. split; lia.
  - destruct (step (acc, l)) as [[acc1 r]| | | |] eqn:E; try discriminate H. cbn [bind] in H.
    destruct (Hs acc _ _ _ E) as (p1 & -> & M1 & W1). destruct (IH acc1 _ _ _ H) as (p2 & -> & _ & W2).
    exists (p1 ++ p2). split; [rewrite app_assoc; reflexivity|]. rewrite app_length. split; [lia|nia].
Qed.

Lemma bounded_ret' {A} (w : A -> N) (x : A) a b : w x <= b -> bounded w a b 0 (fun l => Ok (x, l)).
Proof. intros H. eapply bounded_weaken; [apply N.le_refl|exact H|apply N.le_refl|apply bounded_ret]. Qed.
Lemma bounded_ext {A} (w : A -> N) a b m (f g : list byte -> res (A * list byte)) :
  (forall l, f l = g l) -> bounded w a b m f -> bounded w a b m g.
Proof. intros E H l x rest Hg. rewrite <- E in Hg. exact (H l x rest Hg). Qed.

Lemma offset_tuple ts : offset (TTuple ts) = offset_sum ts. Proof. reflexivity. Qed.
Lemma offset_sum_pos ts : 1 <= offset_sum ts.
Proof. induction ts as [|x r IH]; cbn [offset_sum]; lia. Qed.
Lemma slope_sum_pos ts : 1 <= slope_sum ts.
Proof. induction ts as [|x r IH]; cbn [slope_sum]; lia. Qed.
Lemma offset_pos t : 1 <= offset t.
Proof.
  destruct t; cbn [offset]; try lia; match goal with |- 1 <= _ ?l => fold (offset_sum l); apply offset_sum_pos end.
Qed.
Lemma slope_pos t : 1 <= slope t.
Proof.
  induction t as [| k | | | | | | t IH | | | t IH | t IH | ts IH | ts IH | k v IHk IHv | ts IH | vs IH] using ty_ind'; cbn [slope]; try lia;
    match goal with |- 1 <= _ ?l => fold (slope_sum l); apply slope_sum_pos end.
Qed.

Definition sized (t : ty) : Prop :=
  no_zero_width t = true -> bounded vsize (slope t) (offset t) (min_width t) (spec_de t).

(* fields of a tuple / struct: weight 1 (the node) + the fields *)
Lemma sized_fields ts : Forall sized ts -> forallb no_zero_width ts = true ->
  bounded (fun vs => 1 + vsum vs) (slope_sum ts) (offset_sum ts) (mw_sum ts) (sd_fields spec_de ts).
Proof.
  induction 1 as [|t r Ht _ IH]; intros Hok; cbn [sd_fields slope_sum offset_sum mw_sum].
  - apply bounded_ret'. cbn [vsum]. lia.
  - cbn [forallb] in Hok. apply andb_prop in Hok as [Hk1 Hk2].
    eapply bounded_weaken; cycle 3.
    + eapply (bounded_bind vsize (fun vs => 1 + vsum vs) (slope t + slope_sum r) (offset t) (offset_sum r)).
      * eapply bounded_weaken; [| | |exact (Ht Hk1)]; [lia|apply N.le_refl|apply N.le_refl].
      * intros v. eapply bounded_weaken; cycle 3.
        -- eapply (bounded_bind (fun vs => 1 + vsum vs) (fun vs => 1 + vsum vs) (slope t + slope_sum r) (offset_sum r) (vsize v)).
           ++ eapply bounded_weaken; [| | |exact (IH Hk2)]; [lia|apply N.le_refl|apply N.le_refl].
           ++ intros vs. apply bounded_ret'. cbn [vsum]. lia.
        -- apply N.le_refl.
        -- lia.
        -- apply N.le_refl.
    + apply N.le_refl.
    + apply N.le_refl.
    + lia.
Qed.

Theorem spec_de_sized : forall t, sized t.
Proof.
  induction t as [| k | | | | | | t IH | | | t IH | t IH | ts IH | ts IH | k v IHk IHv | ts IH | vs IH] using ty_ind'; unfold sized; intros Hok;
    cbn [spec_de slope offset min_width].
  - (* bool *)
    eapply bounded_weaken; cycle 3.
    + eapply (bounded_bind (fun _ : byte => 0) vsize 1 0 1 1 0 sd_byte).
      * eapply bounded_weaken; [| | |apply (bounded_byte (fun _ => 0) 0)]; try lia.
      * intros b. destruct (b =? 0); [apply bounded_ret'; cbn; lia|]. destruct (b =? 1); [apply bounded_ret'; cbn; lia|apply bounded_fail].
    + lia.
    + lia.
    + lia.
  - (* int *)
    destruct k; cbn [sd_int];
      (eapply bounded_weaken; cycle 3;
       [eapply (bounded_bind (fun _ => 0) vsize 1 0 1 1 0);
        [first [eapply bounded_weaken; [| | |apply (bounded_byte (fun _ => 0) 0); intros; lia]; lia
               |eapply bounded_weaken; [| | |apply (bounded_varint _ 0)]; lia]
        |intros n; apply bounded_ret'; cbn; lia]
       |lia|lia|lia]).
  - (* f32 *)
    eapply bounded_weaken; cycle 3.
    + eapply (bounded_bind (fun bs : list byte => N.of_nat (length bs)) vsize 1 0 1 4 0); [apply bounded_take|].
      intros bs. apply bounded_ret'. cbn. lia.
    + lia.
    + lia.
    + lia.
  - (* f64 *)
    eapply bounded_weaken; cycle 3.
    + eapply (bounded_bind (fun bs : list byte => N.of_nat (length bs)) vsize 1 0 1 8 0); [apply bounded_take|].
      intros bs. apply bounded_ret'. cbn. lia.
    + lia.
    + lia.
    + lia.
  - (* char *)
    eapply bounded_weaken; cycle 3.
    + eapply (bounded_bind (fun _ : N => 0) vsize 1 0 1 1 0); [eapply bounded_weaken; [| | |apply (bounded_varint _ 0)]; lia|].
      intros n. destruct (4 <? n); [apply bounded_fail|].
      eapply bounded_weaken; cycle 3.
      * eapply (bounded_bind (fun bs : list byte => N.of_nat (length bs)) vsize 1 0 1 n 0); [apply bounded_take|].
        intros bs. destruct (utf8_chars bs) as [[|c [|? ?]]|]; try apply bounded_fail. apply bounded_ret'. cbn. lia.
      * lia.
      * lia.
      * lia.
    + lia.
    + lia.
    + lia.
  - (* str *)
    eapply bounded_weaken; cycle 3.
    + eapply (bounded_bind (fun _ : N => 0) vsize 1 0 1 1 0); [eapply bounded_weaken; [| | |apply (bounded_varint _ 0)]; lia|].
      intros n. eapply bounded_weaken; cycle 3.
      * eapply (bounded_bind (fun bs : list byte => N.of_nat (length bs)) vsize 1 0 1 n 0); [apply bounded_take|].
        intros bs. destruct (utf8_valid bs); [|apply bounded_fail]. apply bounded_ret'. cbn. lia.
      * lia.
      * lia.
      * lia.
    + lia.
    + lia.
    + lia.
  - (* bytes *)
    eapply bounded_weaken; cycle 3.
    + eapply (bounded_bind (fun _ : N => 0) vsize 1 0 1 1 0); [eapply bounded_weaken; [| | |apply (bounded_varint _ 0)]; lia|].
      intros n. eapply bounded_weaken; cycle 3.
      * eapply (bounded_bind (fun bs : list byte => N.of_nat (length bs)) vsize 1 0 1 n 0); [apply bounded_take|].
        intros bs. apply bounded_ret'. cbn. lia.
      * lia.
      * lia.
      * lia.
    + lia.
    + lia.
    + lia.
  - (* option *)
    cbn [no_zero_width] in Hok. specialize (IH Hok). pose proof (slope_pos t) as Hs.
    eapply bounded_weaken; cycle 3.
    + eapply (bounded_bind (fun _ : byte => 0) vsize (slope t) 0 (1 + offset t) 1 0 sd_byte).
      * eapply bounded_weaken; [| | |apply (bounded_byte (fun _ => 0) 0); intros; lia]; lia.
      * intros b. destruct (b =? 0); [apply bounded_ret'; cbn; lia|]. destruct (b =? 1); [|apply bounded_fail].
        eapply bounded_weaken; cycle 3.
        -- eapply (bounded_bind vsize vsize (slope t) (offset t) 1 (min_width t) 0 (spec_de t)); [exact IH|].
           intros v. apply bounded_ret'. cbn [vsize]. lia.
        -- lia.
        -- lia.
        -- lia.
    + lia.
    + lia.
    + lia.
  - (* unit *) apply bounded_ret'. cbn. lia.
  - (* unit struct *) apply bounded_ret'. cbn. lia.
  - (* newtype *)
    cbn [no_zero_width] in Hok. specialize (IH Hok).
    eapply bounded_weaken; cycle 3.
    + eapply (bounded_bind vsize vsize (slope t) (offset t) 1 (min_width t) 0 (spec_de t)); [exact IH|].
      intros v. apply bounded_ret'. cbn [vsize]. lia.
    + lia.
    + lia.
    + lia.
  - (* seq *)
    cbn [no_zero_width] in Hok. apply andb_prop in Hok as [Hok Hm]. apply N.leb_le in Hm. specialize (IH Hok).
    eapply bounded_weaken; cycle 3.
    + eapply (bounded_bind (fun _ : N => 0) vsize (slope t + offset t) 0 1 1 0); [eapply bounded_weaken; [| | |apply (bounded_varint _ 0)]; lia|].
      intros n.
      eapply bounded_weaken; cycle 3.
      * eapply (bounded_bind vsum vsize (slope t + offset t) 0 1 0 0
                  (fun r => iter_N (fun st => let* '(v, s') := spec_de t (snd st) in Ok (v :: fst st, s')) n ([], r))
                  (fun racc r2 => Ok (VSeq (rev racc), r2))).
        -- eapply bounded_ext; [intros l; symmetry; apply iter_N_nat|].
           eapply bounded_weaken; cycle 3.
           ++ apply (bounded_iter vsum (slope t) (offset t)). intros acc. cbn [fst snd].
              eapply bounded_weaken; cycle 3.
              ** eapply (bounded_bind vsize vsum (slope t) (offset t) (vsum acc) (min_width t) 0 (spec_de t)); [exact IH|].
                 intros v. apply bounded_ret'. cbn [vsum]. lia.
              ** lia.
              ** lia.
              ** lia.
           ++ lia.
           ++ cbn [vsum]. lia.
           ++ lia.
        -- intros racc. apply bounded_ret'. rewrite vsize_seq, vsum_rev. lia.
      * lia.
      * lia.
      * lia.
    + lia.
    + lia.
    + lia.
  - (* tuple *)
    cbn [no_zero_width] in Hok. fold (slope_sum ts) (offset_sum ts) (mw_sum ts).
    eapply bounded_weaken; cycle 3.
    + eapply (bounded_bind (fun vs => 1 + vsum vs) vsize (slope_sum ts) (offset_sum ts) 0 (mw_sum ts) 0 (sd_fields spec_de ts)); [apply sized_fields; assumption|].
      intros vs0. apply bounded_ret'. rewrite vsize_tuple. lia.
    + lia.
    + lia.
    + lia.
  - (* tuple struct *)
    cbn [no_zero_width] in Hok. fold (slope_sum ts) (offset_sum ts) (mw_sum ts).
    eapply bounded_weaken; cycle 3.
    + eapply (bounded_bind (fun vs => 1 + vsum vs) vsize (slope_sum ts) (offset_sum ts) 0 (mw_sum ts) 0 (sd_fields spec_de ts)); [apply sized_fields; assumption|].
      intros vs0. apply bounded_ret'. rewrite vsize_tuple_struct. lia.
    + lia.
    + lia.
    + lia.
  - (* map *)
    cbn [no_zero_width] in Hok. apply andb_prop in Hok as [Hok Hm]. apply andb_prop in Hok as [Hokk Hokv]. apply N.leb_le in Hm.
    specialize (IHk Hokk). specialize (IHv Hokv).
    eapply bounded_weaken; cycle 3.
    + eapply (bounded_bind (fun _ : N => 0) vsize (slope k + slope v + offset k + offset v) 0 1 1 0); [eapply bounded_weaken; [| | |apply (bounded_varint _ 0)]; lia|].
      intros n.
      eapply bounded_weaken; cycle 3.
      * eapply (bounded_bind vsumkv vsize (slope k + slope v + offset k + offset v) 0 1 0 0
                  (fun r => iter_N (fun st => let* '(k0, s') := spec_de k (snd st) in
                                              let* '(v0, s'') := spec_de v s' in Ok ((k0, v0) :: fst st, s'')) n ([], r))
                  (fun racc r2 => Ok (VMap (rev racc), r2))).
        -- eapply bounded_ext; [intros l; symmetry; apply iter_N_nat|].
           eapply bounded_weaken; cycle 3.
           ++ apply (bounded_iter vsumkv (slope k + slope v) (offset k + offset v)). intros acc. cbn [fst snd].
              eapply bounded_weaken; cycle 3.
              ** eapply (bounded_bind vsize vsumkv (slope k + slope v) (offset k) (offset v + vsumkv acc) (min_width k) (min_width v) (spec_de k)).
                 --- eapply bounded_weaken; [| | |exact IHk]; lia.
                 --- intros k0. eapply bounded_weaken; cycle 3.
                     +++ eapply (bounded_bind vsize vsumkv (slope k + slope v) (offset v) (vsize k0 + vsumkv acc) (min_width v) 0 (spec_de v)).
                         *** eapply bounded_weaken; [| | |exact IHv]; lia.
                         *** intros v0. apply bounded_ret'. cbn [vsumkv fst snd]. lia.
                     +++ lia.
                     +++ lia.
                     +++ lia.
              ** lia.
              ** lia.
              ** lia.
           ++ lia.
           ++ cbn [vsumkv]. lia.
           ++ lia.
        -- intros racc. apply bounded_ret'. rewrite vsize_map, vsumkv_rev. lia.
      * lia.
      * lia.
      * lia.
    + lia.
    + lia.
    + lia.
  - (* struct *)
    cbn [no_zero_width] in Hok. fold (slope_sum ts) (offset_sum ts) (mw_sum ts).
    eapply bounded_weaken; cycle 3.
    + eapply (bounded_bind (fun vs => 1 + vsum vs) vsize (slope_sum ts) (offset_sum ts) 0 (mw_sum ts) 0 (sd_fields spec_de ts)); [apply sized_fields; assumption|].
      intros vs0. apply bounded_ret'. rewrite vsize_struct. lia.
    + lia.
    + lia.
    + lia.
  - (* enum *)
    cbn [no_zero_width] in Hok. fold (slope_sum vs) (offset_sum vs).
    eapply bounded_weaken; cycle 3.
    + eapply (bounded_bind (fun _ : N => 0) vsize (slope_sum vs) 0 (offset_sum vs) 1 0); [eapply bounded_weaken; [| | |apply (bounded_varint _ 0)]; try lia|].
      intros idx. destruct (N.of_nat (length vs) <=? idx); [apply bounded_fail|].
        generalize (N.to_nat idx) as i.
        assert (X : forall A B, slope_sum vs <= A -> offset_sum vs <= B -> forall i,
                   bounded vsize A (B + 0) 0
                     (fun r => (fix pick (vs : list ty) (i : nat) : res (value * list byte) :=
                         match vs, i with
                         | [], _ => Err SerdeDeCustom
                         | t' :: _, 0%nat => let* '(v, r2) := spec_de t' r in Ok (VVariant idx v, r2)
                         | _ :: vs', S i' => pick vs' i'
                         end) vs i)).
        { clear -IH Hok. induction IH as [|t r Ht _ IHr]; intros A B HA HB i l x rest H; [destruct i; discriminate H|].
          cbn [forallb] in Hok. apply andb_prop in Hok as [Hk1 Hk2]. cbn [slope_sum offset_sum] in HA, HB.
          destruct i as [|i]; [|exact (IHr Hk2 A B ltac:(lia) ltac:(pose proof (offset_pos t); lia) i l x rest H)].
          assert (Hb : bounded vsize A (B + 0) 0 (fun r0 => let* '(v, r2) := spec_de t r0 in Ok (VVariant idx v, r2))).
          { eapply bounded_weaken; cycle 3.
            - eapply (bounded_bind vsize vsize A (offset t) 1 (min_width t) 0 (spec_de t)).
              + eapply bounded_weaken; [| | |exact (Ht Hk1)]; lia.
              + intros v. apply bounded_ret'. cbn [vsize]. lia.
            - lia.
            - pose proof (offset_sum_pos r). lia.
            - lia. }
          exact (Hb l x rest H). }
        apply X; apply N.le_refl.
    + lia.
    + lia.
    + lia.
Qed.

(* the statement, unfolded: for every shape without zero-width collection elements and every
   input, what a successful decode returns has size at most slope * consumed + offset *)
Theorem decoded_size_linear t l v rest :
  no_zero_width t = true -> spec_de t l = Ok (v, rest) ->
  exists p, l = p ++ rest /\ vsize v <= slope t * N.of_nat (length p) + offset t.
Proof.
  intros Hok H. destruct (spec_de_sized t Hok l v rest H) as (p & E & _ & W). exists p. split; assumption.
Qed.

(* the same, for the pointer-level decoder of the implementation model *)
Theorem ptr_decoded_size_linear (t : ty) (input : list byte) (v : value) (rest : list byte) :
  bytes_ok input -> no_zero_width t = true ->
  take_from_bytes_ptr t input = Ok (v, rest) ->
  exists consumed, input = consumed ++ rest /\ vsize v <= slope t * N.of_nat (length consumed) + offset t.
Proof.
  intros Hb Hok H. destruct (decode_total t input Hb) as [E _]. rewrite E in H.
  exact (decoded_size_linear t input v rest Hok H).
Qed.
