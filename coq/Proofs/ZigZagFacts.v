(* ZigZagFacts.v: the translated zig-zag expressions (GenArith.v) are the arithmetic
   zig-zag of the specification, at every width. *)
From Coq Require Import Lia ZifyBool.
From PV Require Import Base MachineInt GenArith DataModel WireFormat Ser De.
Open Scope Z_scope.

Definition sty (W : Z) : ity := {| signed := true; bits := W |}.
Definition uty (W : Z) : ity := {| signed := false; bits := W |}.

Lemma wrap_u_mod W z : wrap (uty W) z = z mod 2 ^ W.
Proof. reflexivity. Qed.

Lemma pow_half W : 1 <= W -> 2 ^ W = 2 * 2 ^ (W - 1).
Proof. intro H. rewrite <- Z.pow_succ_r by lia. f_equal. lia. Qed.

Lemma wrap_s_id W z : 1 <= W -> - 2 ^ (W - 1) <= z < 2 ^ (W - 1) -> wrap (sty W) z = z.
Proof.
  intros HW Hz. unfold wrap. cbn [sty bits signed].
  pose proof (pow_half W HW) as Hp.
  assert (0 < 2 ^ (W - 1)) by (apply Z.pow_pos_nonneg; lia).
  destruct (Z_lt_le_dec z 0) as [Hn|Hp0].
  - replace (z mod 2 ^ W) with (z + 2 ^ W).
    + destruct (Z.ltb_spec (z + 2 ^ W) (2 ^ (W - 1))); lia.
    + apply (Z.mod_unique _ _ (-1)); [left; lia|lia].
  - rewrite Z.mod_small by lia. destruct (Z.ltb_spec z (2 ^ (W - 1))); lia.
Qed.

Lemma wrap_u_of_s W x : 1 <= W -> wrap (uty W) (wrap (sty W) x) = x mod 2 ^ W.
Proof.
  intro HW. unfold wrap. cbn [sty uty bits signed].
  assert (0 < 2 ^ W) by (apply Z.pow_pos_nonneg; lia).
  destruct (Z.ltb_spec (x mod 2 ^ W) (2 ^ (W - 1))).
  - apply Z.mod_mod. lia.
  - pose proof (Z.mod_pos_bound x (2 ^ W) ltac:(lia)).
    symmetry. apply (Z.mod_unique _ _ (-1)); [left; lia|lia].
Qed.

Lemma sign_shift W z : 2 <= W -> - 2 ^ (W - 1) <= z < 2 ^ (W - 1) ->
  shr (sty W) z (W - 1) = if 0 <=? z then 0 else -1.
Proof.
  intros HW Hz. unfold shr. cbn [sty bits]. rewrite Z.mod_small by lia.
  assert (0 < 2 ^ (W - 1)) by (apply Z.pow_pos_nonneg; lia).
  destruct (Z.leb_spec 0 z).
  - apply Z.div_small. lia.
  - symmetry. apply Z.div_unique with (r := z + 2 ^ (W - 1)); lia.
Qed.

Lemma wrap_s_mod W x : 1 <= W -> (wrap (sty W) x) mod 2 ^ W = x mod 2 ^ W.
Proof. intro HW. rewrite <- (wrap_u_of_s W x) by assumption. reflexivity. Qed.

Lemma mod_eq_shift a b m : 0 < m -> a mod m = b mod m -> exists k, a = b + k * m.
Proof.
  intros Hm H. exists (a / m - b / m).
  pose proof (Z.div_mod a m ltac:(lia)). pose proof (Z.div_mod b m ltac:(lia)). nia.
Qed.

Theorem zig_zag_generic W z : 2 <= W -> - 2 ^ (W - 1) <= z < 2 ^ (W - 1) ->
  cast (uty W) (bxor (sty W) (shl (sty W) z 1) (shr (sty W) z (W - 1)))
  = if 0 <=? z then 2 * z else - 2 * z - 1.
Proof.
  intros HW Hz. rewrite sign_shift by assumption.
  unfold cast, bxor, shl. cbn [sty bits]. rewrite (Z.mod_small 1 W) by lia.
  change (2 ^ 1) with 2.
  pose proof (pow_half W ltac:(lia)) as Hp.
  assert (H0 : 0 < 2 ^ (W - 1)) by (apply Z.pow_pos_nonneg; lia).
  rewrite wrap_u_of_s by lia.
  set (y := wrap (sty W) (z * 2)).
  assert (Hy : y mod 2 ^ W = (z * 2) mod 2 ^ W) by (apply wrap_s_mod; lia).
  assert (HW0 : 0 < 2 ^ W) by lia.
  destruct (mod_eq_shift y (z * 2) (2 ^ W) HW0 Hy) as [k Hk].
  destruct (Z.leb_spec 0 z) as [Hpos|Hneg].
  - rewrite Z.lxor_0_r, Hy. replace (z * 2) with (2 * z) by lia. apply Z.mod_small. lia.
  - rewrite Z.lxor_m1_r. unfold Z.lnot.
    replace (Z.pred (- y)) with ((- 2 * z - 1) + (- k) * 2 ^ W) by lia.
    rewrite Z.mod_add by lia. apply Z.mod_small. lia.
Qed.

Theorem de_zig_zag_generic W n : 2 <= W -> 0 <= n < 2 ^ W ->
  bxor (sty W) (cast (sty W) (shr (uty W) n 1)) (neg (sty W) (cast (sty W) (band (uty W) n 1)))
  = if n mod 2 =? 0 then n / 2 else - (n / 2) - 1.
Proof.
  intros HW Hn. unfold cast, shr, band, neg, bxor. cbn [sty uty bits].
  rewrite (Z.mod_small 1 W) by lia. change (2 ^ 1) with 2.
  pose proof (pow_half W ltac:(lia)) as Hp.
  assert (0 < 2 ^ (W - 1)) by (apply Z.pow_pos_nonneg; lia).
  assert (Hh : 0 <= n / 2 < 2 ^ (W - 1)).
  { split; [apply Z.div_pos; lia|apply Z.div_lt_upper_bound; lia]. }
  rewrite (wrap_s_id W (n / 2)) by lia.
  change 1 with (Z.ones 1) at 1. rewrite Z.land_ones by lia. change (2 ^ 1) with 2.
  assert (Hm : 0 <= n mod 2 < 2) by (apply Z.mod_pos_bound; lia).
  rewrite wrap_u_mod, (Z.mod_small (n mod 2)) by lia.
  assert (H2 : 2 ^ 1 <= 2 ^ (W - 1)) by (apply Z.pow_le_mono_r; lia). change (2 ^ 1) with 2 in H2.
  rewrite (wrap_s_id W (n mod 2)) by lia.
  destruct (Z.eqb_spec (n mod 2) 0) as [E|E].
  - rewrite E. cbn [Z.opp]. rewrite (wrap_s_id W 0) by lia. rewrite Z.lxor_0_r. apply wrap_s_id; lia.
  - replace (n mod 2) with 1 by lia. cbn [Z.opp]. rewrite (wrap_s_id W (-1)) by lia.
    rewrite Z.lxor_m1_r. unfold Z.lnot. apply wrap_s_id; lia.
Qed.

Lemma spec_unzigzag_zigzag z : spec_unzigzag (spec_zigzag z) = z.
Proof.
  unfold spec_unzigzag, spec_zigzag. destruct (Z.leb_spec 0 z).
  - rewrite Z2N.id by lia. replace (2 * z) with (z * 2) by lia.
    rewrite Z.mod_mul, Z.div_mul by lia. reflexivity.
  - rewrite Z2N.id by lia.
    replace (- 2 * z - 1) with (1 + (- z - 1) * 2) by lia.
    rewrite Z.mod_add, Z.div_add by lia. cbn. lia.
Qed.

Lemma spec_zigzag_bound W z : 1 <= W -> - 2 ^ (W - 1) <= z < 2 ^ (W - 1) ->
  (0 <= Z.of_N (spec_zigzag z) < 2 ^ W).
Proof.
  intros HW Hz. pose proof (pow_half W HW). unfold spec_zigzag.
  destruct (Z.leb_spec 0 z); rewrite Z2N.id; lia.
Qed.

(* the four translated instances *)
Definition signed_width (k : ikind) : option Z :=
  match k with I16 => Some 16 | I32 => Some 32 | I64 => Some 64 | I128 => Some 128 | _ => None end.

Theorem zig_zag_spec k W z : signed_width k = Some W -> in_range (ik_ity k) z ->
  zig_zag k z = Z.of_N (spec_zigzag z).
Proof.
  intros Hk Hz. unfold spec_zigzag.
  assert (E : forall W, 2 <= W -> - 2 ^ (W - 1) <= z < 2 ^ (W - 1) ->
              cast (uty W) (bxor (sty W) (shl (sty W) z 1) (shr (sty W) z (W - 1)))
              = Z.of_N (Z.to_N (if 0 <=? z then 2 * z else - 2 * z - 1))).
  { intros W' H1 H2. rewrite zig_zag_generic by assumption.
    destruct (Z.leb_spec 0 z); rewrite Z2N.id; lia. }
  destruct k; inversion Hk; subst W; unfold in_range in Hz; cbn in Hz; cbn [zig_zag].
  - apply (E 16); lia.
  - apply (E 32); lia.
  - apply (E 64); lia.
  - apply (E 128); lia.
Qed.

Theorem de_zig_zag_spec k W n : signed_width k = Some W -> (0 <= n < 2 ^ W) ->
  de_zig_zag k n = spec_unzigzag (Z.to_N n).
Proof.
  intros Hk Hn. unfold spec_unzigzag. rewrite Z2N.id by lia.
  destruct k; inversion Hk; subst W; cbn [de_zig_zag].
  - apply (de_zig_zag_generic 16); lia.
  - apply (de_zig_zag_generic 32); lia.
  - apply (de_zig_zag_generic 64); lia.
  - apply (de_zig_zag_generic 128); lia.
Qed.
