(* DynAgree.v: the dynamic encoder agrees with the static one on the serde_json form of every
   conforming, unambiguous value (C17, encoding direction). *)
From PV Require Import Base MachineInt VarintParams GenArith GenLoops GenPanicArms Varint Utf8 DataModel Schema SchemaDecl SchemaFmt SchemaConv SchemaOps Conform Dyn JsonOf WireFormat Ser.
From PV Require Import BaseFacts VarintFacts VarintCore ZigZagFacts Utf8Facts SerFacts SchemaFacts ConformFacts DynFacts.
From Coq Require Import Lia.
Open Scope N_scope.

(* ---- the private writers produce the canonical varint ---- *)
Lemma uvar_std t z : is_vty t -> (0 <= z < 2 ^ bits t)%Z -> uvar (std_writer t) z = spec_varint (Z.to_N z).
Proof.
  intros Ht Hz. unfold uvar. cbn [std_writer w_ty]. destruct dyn_arith_same as (E & _). rewrite E.
  change (venc_with (Core.varint_max t) (std_writer t) (Z.to_N z)) with (venc (std_writer t) (Z.to_N z)).
  apply venc_std; [exact Ht|]. unfold wbits.
  destruct Ht as [-> | [-> | [-> | ->]]]; cbn in Hz |- *; lia.
Qed.
Lemma len_prefix_spec n : N.of_nat n < 2 ^ 64 -> len_prefix n = spec_len n.
Proof.
  intros H. unfold len_prefix, spec_len. change dyn_writer_usize with (std_writer u64).
  rewrite uvar_std; [f_equal; lia|right; right; left; reflexivity|].
  cbn. lia.
Qed.

(* the integer arms: the dyn copies of the writers and zig-zag expressions are the core's *)
Lemma dyn_int_bytes k z : in_range (ik_ity k) z ->
  match k with
  | I8 => [Z.to_N (z mod 256)] | U8 => [Z.to_N z]
  | I16 => uvar dyn_writer_u16 (Dyn.zig_zag_i16 z) | I32 => uvar dyn_writer_u32 (Dyn.zig_zag_i32 z)
  | I64 => uvar dyn_writer_u64 (Dyn.zig_zag_i64 z) | I128 => uvar dyn_writer_u128 (Dyn.zig_zag_i128 z)
  | U16 => uvar dyn_writer_u16 z | U32 => uvar dyn_writer_u32 z
  | U64 => uvar dyn_writer_u64 z | U128 => uvar dyn_writer_u128 z
  end = spec_int k z.
Proof.
  intros H. rewrite <- (ser_int_spec k z H).
  destruct k; cbn [ser_int flatten_ops flat_map op_bytes app writer_of zig_zag]; rewrite ?app_nil_r; reflexivity.
Qed.

(* ---- byte strings as keys: bytes_cmp is a strict total order, list_N_eqb is equality ---- *)
Lemma list_N_eqb_eq a b : list_N_eqb a b = true <-> a = b.
Proof.
  revert b; induction a as [|x a IH]; intros [|y b]; cbn [list_N_eqb]; split; try discriminate; try reflexivity.
  - intros H. apply andb_prop in H as [H1 H2]. apply N.eqb_eq in H1. apply IH in H2. subst. reflexivity.
  - intros [= -> ->]. rewrite N.eqb_refl. apply IH. reflexivity.
Qed.
Lemma list_N_eqb_refl a : list_N_eqb a a = true.
Proof. apply list_N_eqb_eq. reflexivity. Qed.
Lemma bytes_cmp_eq a b : bytes_cmp a b = Eq <-> a = b.
Proof.
  revert b; induction a as [|x a IH]; intros [|y b]; cbn [bytes_cmp]; split; try discriminate; try reflexivity.
  - destruct (N.compare_spec x y) as [->|H|H]; try discriminate. intros E. apply IH in E. subst. reflexivity.
  - intros [= -> ->]. rewrite N.compare_refl. apply IH. reflexivity.
Qed.
Lemma bytes_cmp_antisym a b : bytes_cmp a b = Lt -> bytes_cmp b a = Gt.
Proof.
  revert b; induction a as [|x a IH]; intros [|y b]; cbn [bytes_cmp]; try discriminate; try reflexivity.
  rewrite (N.compare_antisym x y). destruct (N.compare_spec x y); cbn [CompOpp]; try discriminate; auto.
Qed.
Lemma bytes_cmp_trans a b c : bytes_cmp a b = Lt -> bytes_cmp b c = Lt -> bytes_cmp a c = Lt.
Proof.
  revert b c; induction a as [|x a IH]; intros [|y b] [|z c]; cbn [bytes_cmp]; try discriminate; try reflexivity.
  destruct (N.compare_spec x y) as [->|H1|H1]; try discriminate.
  - destruct (N.compare_spec y z) as [->|H2|H2]; try discriminate; [apply IH|reflexivity].
  - intros _. destruct (N.compare_spec y z) as [->|H2|H2]; try discriminate.
    + intros _. destruct (N.compare_spec x z); try lia. reflexivity.
    + intros _. destruct (N.compare_spec x z); try lia. reflexivity.
Qed.

Lemma obj_get_insert_eq k v l : obj_get k (obj_insert k v l) = Some v.
Proof.
  induction l as [|[k' v'] r IH]; cbn [obj_insert obj_get]; [rewrite list_N_eqb_refl; reflexivity|].
  destruct (bytes_cmp k k') eqn:E; cbn [obj_get]; try (rewrite list_N_eqb_refl; reflexivity).
  destruct (list_N_eqb k k') eqn:E'; [apply list_N_eqb_eq in E'; subst k'; rewrite (proj2 (bytes_cmp_eq k k) eq_refl) in E; discriminate E|exact IH].
Qed.
Lemma obj_get_insert_neq k k' v l : k <> k' -> obj_get k' (obj_insert k v l) = obj_get k' l.
Proof.
  intros Hne. assert (Hf : list_N_eqb k' k = false).
  { destruct (list_N_eqb k' k) eqn:E; [apply list_N_eqb_eq in E; congruence|reflexivity]. }
  induction l as [|[k2 v2] r IH]; cbn [obj_insert obj_get]; [rewrite Hf; reflexivity|].
  destruct (bytes_cmp k k2) eqn:E; cbn [obj_get].
  - apply bytes_cmp_eq in E. subst k2. rewrite Hf. reflexivity.
  - rewrite Hf. reflexivity.
  - rewrite IH. reflexivity.
Qed.
Lemma obj_insert_length_new k v l : obj_get k l = None -> length (obj_insert k v l) = S (length l).
Proof.
  induction l as [|[k2 v2] r IH]; cbn [obj_insert obj_get length]; [reflexivity|].
  destruct (list_N_eqb k k2) eqn:E'; [discriminate|]. intros Hn.
  destruct (bytes_cmp k k2) eqn:E; cbn [length]; try reflexivity.
  - apply bytes_cmp_eq in E. subst k2. rewrite list_N_eqb_refl in E'. discriminate E'.
  - rewrite (IH Hn). reflexivity.
Qed.
(* a key greater than every key present goes to the end *)
Lemma obj_insert_last k v l :
  Forall (fun kv => bytes_cmp (fst kv) k = Lt) l -> obj_insert k v l = l ++ [(k, v)].
Proof.
  induction 1 as [|[k2 v2] r H _ IH]; cbn [obj_insert app]; [reflexivity|].
  cbn [fst] in H. rewrite (bytes_cmp_antisym _ _ H), IH. reflexivity.
Qed.

Section Agree.
  Variable int_to_f64 : Z -> N.
  Variable narrow widen : N -> N.
  (* the one fact about the host's float unit that the encoding direction needs: widening an
     f32 to f64 and narrowing it back is the identity *)
  Hypothesis narrow_widen : forall b, b < 2 ^ 32 -> f32_finite b = true -> narrow (widen b) = b.
  Variable d : nat.
  Let SER := dyn_ser int_to_f64 narrow.
  Let J := json_of widen.

  Lemma in_range_b t z : in_rangeb t z = true -> in_range t z.
  Proof. unfold in_range, in_rangeb. destruct (signed t); lia. Qed.

  Lemma bytes_loop_spec : forall (bs acc : list byte), bytes_ok bs ->
    (fix go (l : list json) (acc : list byte) : ser_res :=
       match l with
       | [] => DOk (len_prefix (length acc) ++ rev acc)
       | x :: r => match as_u64 x with
                   | Some z => if fits u8 z then go r (Z.to_N z :: acc) else mismatch
                   | None => mismatch
                   end
       end) (map (fun b => JInt (Z.of_N b)) bs) acc
    = DOk (len_prefix (length acc + length bs) ++ rev acc ++ bs).
  Proof.
    induction bs as [|b r IH]; intros acc Hok; cbn [map].
    - rewrite Nat.add_0_r, app_nil_r. reflexivity.
    - apply Forall_cons_iff in Hok as [Hb Hr]. unfold byte_ok in Hb. cbn [as_u64].
      replace (0 <=? Z.of_N b)%Z with true by (symmetry; apply Z.leb_le; lia).
      replace (fits u8 (Z.of_N b)) with true.
      2:{ symmetry. unfold fits, in_rangeb. cbn [signed bits u8]. apply andb_true_intro. split; [apply Z.leb_le|apply Z.ltb_lt]; lia. }
      rewrite N2Z.id, (IH (b :: acc) Hr). cbn [length rev]. rewrite <- app_assoc. cbn [app].
      replace (S (length acc) + length r)%nat with (length acc + S (length r))%nat by lia. reflexivity.
  Qed.

  Ltac int_case is_signed KK TT :=
    match goal with
    | Hc : (ikind_eqb ?k _ && in_rangeb _ ?z)%bool = true, Hu : unamb (NInt ?k ?z) = true |- _ =>
      let Hk := fresh "Hk" in let Hr := fresh "Hr" in let Hi := fresh "Hi" in
      let Hlo := fresh "Hlo" in let Hhi := fresh "Hhi" in let F := fresh "F" in
      apply andb_prop in Hc as [Hk Hr]; destruct k; try discriminate Hk; cbv zeta; cbn [as_i64 as_u64];
      pose proof (in_range_b _ _ Hr) as Hi; cbn [unamb ik_signed ik_ity signed] in Hu;
      apply andb_prop in Hu as [Hlo Hhi]; apply Z.leb_le in Hlo; apply Z.ltb_lt in Hhi;
      match is_signed with
      | true => replace (z <? 2 ^ 63)%Z with true by (symmetry; apply Z.ltb_lt; lia)
      | false => replace (0 <=? z)%Z with true by (symmetry; apply Z.leb_le; lia)
      end;
      assert (F : fits TT z = true)
        by (unfold fits, in_rangeb, in_range in *;
            cbn [signed bits ik_ity i8 i16 i32 i64 i128 u8 u16 u32 u64 u128 usize] in *;
            apply andb_true_intro; split; [apply Z.leb_le|apply Z.ltb_lt]; lia);
      rewrite F; f_equal; exact (dyn_int_bytes KK z Hi)
    end.

  (* scalars *)
  Lemma prim_agree v p :
    prim_conforms d v p = true -> unamb v = true -> p <> PSchema ->
    ser_prim int_to_f64 narrow p (J v) = DOk (spec_enc (erase v)).
  Proof.
    intros Hc Hu Hp.
    destruct p; try (exfalso; apply Hp; reflexivity);
      destruct v; cbn [prim_conforms] in Hc; try discriminate Hc; cbn [erase prim_ty has_type] in Hc;
      unfold J; cbn [json_of ser_prim spec_enc erase].
    - (* bool *) reflexivity.
    - int_case true I8 i8.
    - int_case false U8 u8.
    - int_case true I16 i16.
    - int_case true I32 i32.
    - int_case true I64 i64.
    - int_case true I128 i64.
    - int_case false U16 u16.
    - int_case false U32 u32.
    - int_case false U64 u64.
    - int_case false U128 u64.
    - int_case false U64 usize.
    - int_case true I64 i64.
    - (* f32 *) cbn [as_f64]. apply N.ltb_lt in Hc. cbn [unamb] in Hu. rewrite narrow_widen by assumption. rewrite Hu. reflexivity.
    - (* f64 *) reflexivity.
    - (* char *) rewrite (utf8_chars_encode c Hc). f_equal. f_equal. apply len_prefix_spec.
      pose proof (utf8_encode_len c). lia.
    - (* string *) apply andb_prop in Hc as [_ Hl]. apply N.ltb_lt in Hl. rewrite len_prefix_spec by exact Hl. reflexivity.
    - (* byte array *) apply andb_prop in Hc as [Hb Hl]. apply N.ltb_lt in Hl. apply bytes_okb_spec in Hb.
      rewrite (bytes_loop_spec bs [] Hb). cbn [length rev app Nat.add]. rewrite len_prefix_spec by exact Hl. reflexivity.
    - (* unit *) reflexivity.
  Qed.

  Definition agree_at (v : nvalue) : Prop :=
    forall s, conforms d v s = true -> unamb v = true -> in_scope s = true ->
              SER s (J v) = DOk (spec_enc (erase v)).

  (* a value under a non-nullable schema is never JSON null *)
  Fixpoint null_like (v : nvalue) : bool :=
    match v with
    | NNone | NUnit | NUnitStruct _ | NSome _ => true
    | NNewtypeStruct _ x => null_like x
    | _ => false
    end.
  Lemma null_is_null_like : forall v, J v = JNull -> null_like v = true.
  Proof.
    unfold J. apply (nvalue_ind' (fun v => json_of widen v = JNull -> null_like v = true)).
    - intros v. destruct v; try exact I; cbn [json_of null_like]; try discriminate; reflexivity.
    - reflexivity.
    - intros n x IH. cbn [json_of null_like]. exact IH.
    - discriminate.
    - discriminate.
    - discriminate.
    - discriminate.
    - discriminate.
    - intros e i vn p _. cbn [json_of]. destruct p; discriminate.
  Qed.
  Lemma schema_not_typed (v : value) : (forall i p, v <> VVariant i p) -> has_type v (oty d) = false.
  Proof. intros H. destruct d; destruct v; try reflexivity; exfalso; eapply H; reflexivity. Qed.
  Lemma null_like_nullable : forall v s, conforms d v s = true -> null_like v = true -> nullable s = true.
  Proof.
    assert (PS : forall v, null_like v = true -> prim_conforms d v PSchema = false).
    { intros v Hv. cbn [prim_conforms]. apply schema_not_typed. intros idx p. destruct v; cbn [erase]; try discriminate. }
    apply (nvalue_ind' (fun v => forall s, conforms d v s = true -> null_like v = true -> nullable s = true)).
    - intros v. destruct v; try exact I; intros s Hc Hn; cbn [null_like] in Hn; try discriminate Hn;
        (destruct s as [p| | | | |nm kd fs|]; cbn [conforms nullable] in *; try discriminate Hc; try reflexivity;
         [destruct p; try reflexivity; try (cbn [prim_conforms] in Hc; discriminate Hc); rewrite PS in Hc by reflexivity; discriminate Hc
         |destruct kd; try discriminate Hc; reflexivity]).
    - intros x IHv s Hc Hn. destruct s as [p| | | | |nm kd fs|]; cbn [conforms nullable] in *; try discriminate Hc; try reflexivity.
      + destruct p; try reflexivity; try (cbn [prim_conforms] in Hc; discriminate Hc); rewrite PS in Hc by reflexivity; discriminate Hc.
      + destruct kd; discriminate Hc.
    - intros n x IHv s Hc Hn. cbn [null_like] in Hn. destruct s as [p| | | | |nm kd fs|]; cbn [conforms nullable] in *; try discriminate Hc.
      + destruct p; try reflexivity; try (cbn [prim_conforms] in Hc; discriminate Hc); rewrite PS in Hc by (cbn [null_like]; exact Hn); discriminate Hc.
      + destruct kd; try discriminate Hc. destruct fs as [|f [|? ?]]; try discriminate Hc. apply (IHv (snd f) Hc Hn).
    - intros xs _ s _ Hn. discriminate Hn.
    - intros xs _ s _ Hn. discriminate Hn.
    - intros n xs _ s _ Hn. discriminate Hn.
    - intros kvs _ s _ Hn. discriminate Hn.
    - intros n fs _ s _ Hn. discriminate Hn.
    - intros e i vn p _ s _ Hn. discriminate Hn.
  Qed.
  Lemma non_null v s : conforms d v s = true -> nullable s = false -> J v <> JNull.
  Proof.
    intros Hc Hn E. apply null_is_null_like in E. rewrite (null_like_nullable v s Hc E) in Hn. discriminate Hn.
  Qed.

  Lemma ser_each_agree t xs :
    Forall agree_at xs -> forallb (fun x => conforms d x t) xs = true -> forallb unamb xs = true -> in_scope t = true ->
    ser_each (SER t) (map J xs) = DOk (flat_map spec_enc (map erase xs)).
  Proof.
    intros HF. induction HF as [|x r Hx _ IH]; intros Hc Hu Hs; [reflexivity|].
    cbn [forallb] in Hc, Hu. apply andb_prop in Hc as [Hc1 Hc2]. apply andb_prop in Hu as [Hu1 Hu2].
    cbn [map ser_each flat_map]. rewrite (Hx t Hc1 Hu1 Hs). cbn [dbind]. rewrite (IH Hc2 Hu2 Hs). reflexivity.
  Qed.
  Lemma ser_zip_agree xs : Forall agree_at xs -> forall ts,
    conforms_list (conforms d) xs ts = true -> forallb unamb xs = true -> forallb in_scope ts = true ->
    ser_zip SER ts (map J xs) = DOk (flat_map spec_enc (map erase xs)) /\ length xs = length ts.
  Proof.
    induction 1 as [|x r Hx _ IH]; intros [|t ts] Hc Hu Hs; try discriminate Hc; [split; reflexivity|].
    cbn [conforms_list forallb] in *. apply andb_prop in Hc as [Hc1 Hc2]. apply andb_prop in Hu as [Hu1 Hu2].
    apply andb_prop in Hs as [Hs1 Hs2]. destruct (IH ts Hc2 Hu2 Hs2) as [E L].
    cbn [map ser_zip flat_map length]. rewrite (Hx t Hc1 Hu1 Hs1). cbn [dbind]. rewrite E. split; [reflexivity|congruence].
  Qed.
  Lemma ser_snd_zip_agree xs : Forall agree_at xs -> forall fs : list (str * schema),
    conforms_unnamed (conforms d) xs fs = true -> forallb unamb xs = true -> forallb (fun f => in_scope (snd f)) fs = true ->
    ser_snd_zip SER fs (map J xs) = DOk (flat_map spec_enc (map erase xs)) /\ length xs = length fs.
  Proof.
    induction 1 as [|x r Hx _ IH]; intros [|t ts] Hc Hu Hs; try discriminate Hc; [split; reflexivity|].
    cbn [conforms_unnamed forallb] in *. apply andb_prop in Hc as [Hc1 Hc2]. apply andb_prop in Hu as [Hu1 Hu2].
    apply andb_prop in Hs as [Hs1 Hs2]. destruct (IH ts Hc2 Hu2 Hs2) as [E L].
    cbn [map ser_snd_zip flat_map length]. rewrite (Hx (snd t) Hc1 Hu1 Hs1). cbn [dbind]. rewrite E. split; [reflexivity|congruence].
  Qed.

  (* ---- named fields: the object serde_json builds, and looking each field up in it ---- *)
  Definition ins_field (acc : list (list byte * json)) (f : list N * nvalue) := obj_insert (fst f) (J (snd f)) acc.
  Lemma names_distinct_cons n (r : list (list N)) :
    names_distinct (n :: r) = true -> (forall m, In m r -> n <> m) /\ names_distinct r = true.
  Proof.
    cbn [names_distinct]. intros H. apply andb_prop in H as [H1 H2]. split; [|exact H2].
    intros m Hm E. subst m. apply negb_true_iff in H1.
    assert (existsb (list_N_eqb n) r = true); [|congruence].
    apply existsb_exists. exists n. split; [exact Hm|apply list_N_eqb_refl].
  Qed.
  Lemma fold_insert_fields (xs : list (list N * nvalue)) :
    names_distinct (map fst xs) = true -> forall acc,
    (forall f, In f xs -> obj_get (fst f) acc = None) ->
    length (fold_left ins_field xs acc) = (length acc + length xs)%nat /\
    (forall f, In f xs -> obj_get (fst f) (fold_left ins_field xs acc) = Some (J (snd f))) /\
    (forall k, (forall f, In f xs -> fst f <> k) -> obj_get k (fold_left ins_field xs acc) = obj_get k acc).
  Proof.
    induction xs as [|x r IH]; intros Hd acc Hnone; cbn [fold_left length].
    - split; [lia|]. split; [intros f []|reflexivity].
    - cbn [map] in Hd. apply names_distinct_cons in Hd as [Hne Hd].
      assert (Hnone' : forall f, In f r -> obj_get (fst f) (ins_field acc x) = None).
      { intros f Hf. unfold ins_field. rewrite obj_get_insert_neq; [apply Hnone; right; exact Hf|].
        apply Hne. apply in_map. exact Hf. }
      destruct (IH Hd (ins_field acc x) Hnone') as (L & G & O). split; [|split].
      + rewrite L. unfold ins_field. rewrite obj_insert_length_new by (apply Hnone; left; reflexivity). lia.
      + intros f [<-|Hf]; [|apply G; exact Hf].
        rewrite O; [unfold ins_field; apply obj_get_insert_eq|].
        intros g Hg E. apply (Hne (fst g)); [apply in_map; exact Hg|symmetry; exact E].
      + intros k Hk. rewrite O by (intros f Hf; apply Hk; right; exact Hf).
        unfold ins_field. apply obj_get_insert_neq. apply Hk. left. reflexivity.
  Qed.

  Lemma ser_fields_agree (xs : list (list N * nvalue)) obj :
    Forall (fun f => agree_at (snd f)) xs -> forall fs : list (str * schema),
    conforms_named (conforms d) xs fs = true -> forallb (fun f => unamb (snd f)) xs = true ->
    forallb (fun f => in_scope (snd f)) fs = true ->
    (forall f, In f xs -> obj_get (fst f) obj = Some (J (snd f))) ->
    ser_fields SER fs obj = DOk (flat_map spec_enc (map (fun f => erase (snd f)) xs)) /\ length xs = length fs.
  Proof.
    induction 1 as [|x r Hx _ IH]; intros [|f fs] Hc Hu Hs Hg; try discriminate Hc; [split; reflexivity|].
    cbn [conforms_named forallb] in *. apply andb_prop in Hc as [Hc1 Hc3]. apply andb_prop in Hc1 as [Hn Hc1].
    apply andb_prop in Hu as [Hu1 Hu2]. apply andb_prop in Hs as [Hs1 Hs2]. apply list_N_eqb_eq in Hn.
    destruct (IH fs Hc3 Hu2 Hs2 (fun g Hgin => Hg g (or_intror Hgin))) as [E L].
    cbn [ser_fields map flat_map length]. rewrite <- Hn, (Hg x (or_introl eq_refl)).
    rewrite (Hx (snd f) Hc1 Hu1 Hs1). cbn [dbind]. rewrite E. split; [reflexivity|congruence].
  Qed.

  (* ---- string-keyed maps with ascending keys: the object is the list itself ---- *)
  Definition key_of (kv : nvalue * nvalue) : list byte := match fst kv with NStr k => k | _ => [] end.
  Definition ins_entry (acc : list (list byte * json)) (kv : nvalue * nvalue) :=
    match fst kv with NStr k => obj_insert k (J (snd kv)) acc | _ => acc end.
  Lemma fold_insert_entries (kvs : list (nvalue * nvalue)) :
    forallb (fun kv => match fst kv with NStr _ => true | _ => false end) kvs = true ->
    keys_ascending (map key_of kvs) = true -> forall acc,
    (forall e kv, In e acc -> In kv kvs -> bytes_cmp (fst e) (key_of kv) = Lt) ->
    fold_left ins_entry kvs acc = acc ++ map (fun kv => (key_of kv, J (snd kv))) kvs.
  Proof.
    induction kvs as [|kv r IH]; intros Hk Ha acc Hlt; cbn [fold_left map]; [rewrite app_nil_r; reflexivity|].
    cbn [forallb] in Hk. apply andb_prop in Hk as [Hk1 Hk2].
    assert (Ha' : keys_ascending (map key_of r) = true /\ forall kv', In kv' r -> bytes_cmp (key_of kv) (key_of kv') = Lt).
    { clear IH Hlt. revert kv Ha Hk1. induction r as [|b r' IHr]; intros kv Ha Hk1; [split; [reflexivity|intros ? []]|].
      cbn [map keys_ascending] in Ha. destruct (bytes_cmp (key_of kv) (key_of b)) eqn:E; try discriminate Ha.
      cbn [forallb] in Hk2. apply andb_prop in Hk2 as [Hb Hk2].
      split; [exact Ha|]. intros kv' [<-|Hin]; [exact E|].
      destruct (IHr Hk2 b Ha Hb) as [_ Hall]. eapply bytes_cmp_trans; [exact E|apply Hall; exact Hin]. }
    destruct Ha' as [Ha' Hfirst].
    unfold ins_entry at 2. destruct (fst kv) as [| | | | |k| | | | | | | | | | | |] eqn:Ek; try discriminate Hk1.
    rewrite obj_insert_last.
    2:{ apply Forall_forall. intros e He. specialize (Hlt e kv He (or_introl eq_refl)). unfold key_of in Hlt. rewrite Ek in Hlt. exact Hlt. }
    rewrite IH; [| exact Hk2 | exact Ha' |].
    - rewrite <- app_assoc. cbn [app]. unfold key_of at 2. rewrite Ek. reflexivity.
    - intros e kv' He Hin. apply in_app_or in He as [He|[<-|[]]].
      + apply Hlt; [exact He|right; exact Hin].
      + cbn [fst]. specialize (Hfirst kv' Hin). unfold key_of in Hfirst at 1. rewrite Ek in Hfirst. exact Hfirst.
  Qed.

  Lemma ser_entries_agree t (kvs : list (nvalue * nvalue)) :
    Forall (fun kv => agree_at (fst kv) /\ agree_at (snd kv)) kvs ->
    forallb (fun kv => conforms d (fst kv) (SPrim PString) && conforms d (snd kv) t) kvs = true ->
    forallb (fun kv => match fst kv with NStr _ => unamb (snd kv) | _ => false end) kvs = true ->
    in_scope t = true ->
    ser_entries (SER t) (map (fun kv => (key_of kv, J (snd kv))) kvs)
    = DOk (flat_map (fun kv => spec_enc (fst kv) ++ spec_enc (snd kv)) (map (fun kv => (erase (fst kv), erase (snd kv))) kvs)).
  Proof.
    intros HF. induction HF as [|kv r [_ Hv] _ IH]; intros Hc Hu Hs; [reflexivity|].
    cbn [forallb] in Hc, Hu. apply andb_prop in Hc as [Hc1 Hc2]. apply andb_prop in Hu as [Hu1 Hu2].
    apply andb_prop in Hc1 as [Hck Hcv].
    destruct (fst kv) as [| | | | |k| | | | | | | | | | | |] eqn:Ek; try discriminate Hu1.
    assert (Ekk : key_of kv = k) by (unfold key_of; rewrite Ek; reflexivity).
    cbn [map ser_entries flat_map fst snd]. rewrite Ekk, Ek.
    rewrite (Hv t Hcv Hu1 Hs). cbn [dbind]. rewrite (IH Hc2 Hu2 Hs). cbn [dbind erase spec_enc].
    cbn [conforms prim_conforms erase prim_ty has_type] in Hck. apply andb_prop in Hck as [_ Hl]. apply N.ltb_lt in Hl.
    rewrite len_prefix_spec by exact Hl. rewrite <- !app_assoc. reflexivity.
  Qed.

  Lemma conforms_named_names (xs : list (list N * nvalue)) : forall fs : list (str * schema),
    conforms_named (conforms d) xs fs = true -> map fst xs = map fst fs.
  Proof.
    induction xs as [|x r IH]; intros [|f fs] H; try discriminate H; [reflexivity|].
    cbn [conforms_named] in H. apply andb_prop in H as [H1 H2]. apply andb_prop in H1 as [Hn _].
    apply list_N_eqb_eq in Hn. cbn [map]. rewrite Hn, (IH fs H2). reflexivity.
  Qed.

  Lemma find_variant_nth (vs : list (str * dkind * list (str * schema))) :
    names_distinct (map (fun v => fst (fst v)) vs) = true ->
    forall i n k fs, nth_error vs i = Some (n, k, fs) -> find_variant n vs = Some (i, k, fs).
  Proof.
    unfold find_variant. intros Hd i n k fs Hn.
    assert (X : forall base, (fix go (vs : list (str * dkind * list (str * schema))) (i : nat) :=
                                match vs with
                                | [] => None
                                | v :: r => if list_N_eqb (fst (fst v)) n then Some (i, snd (fst v), snd v) else go r (S i)
                                end) vs base = Some (base + i, k, fs)%nat).
    { revert i Hn Hd. induction vs as [|v r IH]; intros i Hn Hd base; [destruct i; discriminate Hn|].
      cbn [map] in Hd. apply names_distinct_cons in Hd as [Hne Hd]. destruct i as [|i].
      - injection Hn as ->. cbn [fst snd]. rewrite list_N_eqb_refl, Nat.add_0_r. reflexivity.
      - cbn [nth_error] in Hn. destruct (list_N_eqb (fst (fst v)) n) eqn:E.
        + apply list_N_eqb_eq in E. exfalso. apply (Hne n); [|exact E].
          apply nth_error_In in Hn. apply (in_map (fun v => fst (fst v))) in Hn. exact Hn.
        + rewrite (IH i Hn Hd (S base)). do 3 f_equal. lia. }
    rewrite (X 0%nat). reflexivity.
  Qed.

  Lemma body_scope_fields k (fs : list (str * schema)) :
    body_in_scope in_scope k fs = true -> forallb (fun f => in_scope (snd f)) fs = true.
  Proof. unfold body_in_scope. intros H. apply andb_prop in H as [H _]. exact H. Qed.
  Lemma body_scope_names (fs : list (str * schema)) :
    body_in_scope in_scope DStruct fs = true -> names_distinct (map fst fs) = true.
  Proof. unfold body_in_scope. intros H. apply andb_prop in H as [_ H]. exact H. Qed.

  Lemma ser_arm_struct n k fs j : SER (SStruct n k fs) j = ser_data SER k fs j.
  Proof. unfold SER. cbn [dyn_ser]. rewrite ser_no_panic_arm. reflexivity. Qed.

  Theorem ser_agree : forall v, agree_at v.
  Proof.
    apply (nvalue_ind' agree_at); unfold agree_at.
    - (* leaves *)
      intros v. destruct v; try exact I; intros s Hc Hu Hs; destruct s; cbn [conforms] in Hc; try discriminate Hc;
        try (unfold SER; cbn [dyn_ser]; rewrite ser_no_panic_arm; apply prim_agree; [exact Hc|exact Hu|intros ->; discriminate Hs]).
      all: try (match type of Hc with match ?kk with _ => _ end = true => destruct kk; try discriminate Hc end).
      + (* none under an option *) reflexivity.
      + (* unit struct under a unit struct body *) rewrite ser_arm_struct. reflexivity.
    - (* some *)
      intros x IH s Hc Hu Hs. destruct s; cbn [conforms] in Hc; try discriminate Hc.
      + exfalso. destruct p; cbn [prim_conforms] in Hc; try discriminate Hc. discriminate Hs.
      + cbn [in_scope] in Hs. apply andb_prop in Hs as [Hn Hs]. apply negb_true_iff in Hn.
        pose proof (non_null x s Hc Hn) as Hnn. cbn [unamb] in Hu.
        unfold SER. cbn [dyn_ser]. rewrite ser_no_panic_arm. fold SER.
        change (J (NSome x)) with (J x).
        assert (E : SER s (J x) = DOk (spec_enc (erase x))) by (apply IH; assumption).
        destruct (J x) eqn:EJ; [exfalso; apply Hnn; reflexivity|..]. all: rewrite E; reflexivity.
      + destruct k; discriminate Hc.
    - (* newtype struct *)
      intros n x IH s Hc Hu Hs. destruct s; cbn [conforms] in Hc; try discriminate Hc.
      + exfalso. destruct p; cbn [prim_conforms] in Hc; try discriminate Hc. discriminate Hs.
      + destruct k; try discriminate Hc. destruct fields as [|f [|? ?]]; try discriminate Hc.
        cbn [in_scope] in Hs. apply body_scope_fields in Hs. cbn [forallb] in Hs. apply andb_prop in Hs as [Hs _]. cbn [unamb] in Hu.
        rewrite ser_arm_struct. cbn [ser_data]. change (J (NNewtypeStruct n x)) with (J x). apply IH; assumption.
    - (* seq *)
      intros xs IH s Hc Hu Hs. destruct s; cbn [conforms] in Hc; try discriminate Hc.
      + exfalso. destruct p; cbn [prim_conforms] in Hc; try discriminate Hc. discriminate Hs.
      + apply andb_prop in Hc as [Hc Hl]. apply N.ltb_lt in Hl. cbn [unamb in_scope] in Hu, Hs.
        unfold SER. cbn [dyn_ser]. rewrite ser_no_panic_arm. fold SER.
        change (J (NSeq xs)) with (JArr (map J xs)). cbv iota.
        rewrite (ser_each_agree s xs IH Hc Hu Hs). cbn [dbind erase spec_enc]. rewrite !map_length.
        rewrite len_prefix_spec by exact Hl. reflexivity.
      + destruct k; discriminate Hc.
    - (* tuple *)
      intros xs IH s Hc Hu Hs. destruct s; cbn [conforms] in Hc; try discriminate Hc.
      + exfalso. destruct p; cbn [prim_conforms] in Hc; try discriminate Hc. discriminate Hs.
      + cbn [unamb in_scope] in Hu, Hs. destruct (ser_zip_agree xs IH ts Hc Hu Hs) as [E L].
        unfold SER. cbn [dyn_ser]. rewrite ser_no_panic_arm. fold SER.
        change (J (NTuple xs)) with (JArr (map J xs)). cbv iota.
        rewrite map_length, L, Nat.eqb_refl, E. reflexivity.
      + destruct k; discriminate Hc.
    - (* tuple struct *)
      intros n xs IH s Hc Hu Hs. destruct s; cbn [conforms] in Hc; try discriminate Hc.
      + exfalso. destruct p; cbn [prim_conforms] in Hc; try discriminate Hc. discriminate Hs.
      + destruct k; try discriminate Hc. cbn [unamb in_scope] in Hu, Hs. apply body_scope_fields in Hs.
        destruct (ser_snd_zip_agree xs IH fields Hc Hu Hs) as [E L].
        rewrite ser_arm_struct. cbn [ser_data]. change (J (NTupleStruct n xs)) with (JArr (map J xs)). cbv iota.
        rewrite map_length, L, Nat.eqb_refl, E. reflexivity.
    - (* map *)
      intros kvs IH s Hc Hu Hs. destruct s; cbn [conforms] in Hc; try discriminate Hc.
      + exfalso. destruct p; cbn [prim_conforms] in Hc; try discriminate Hc. discriminate Hs.
      + apply andb_prop in Hc as [Hc Hl]. apply N.ltb_lt in Hl. cbn [unamb] in Hu. apply andb_prop in Hu as [Hu Hasc].
        cbn [in_scope] in Hs. destruct s1 as [[]| | | | | |]; try discriminate Hs.
        assert (Hstr : forallb (fun kv : nvalue * nvalue => match fst kv with NStr _ => true | _ => false end) kvs = true).
        { rewrite forallb_forall in *. intros kv Hkv. specialize (Hu kv Hkv). destruct (fst kv); try discriminate Hu. reflexivity. }
        assert (EJ : J (NMap kvs) = JObj (map (fun kv => (key_of kv, J (snd kv))) kvs)).
        { unfold J. cbn [json_of]. f_equal.
          change (fold_left _ kvs []) with (fold_left ins_entry kvs []).
          rewrite (fold_insert_entries kvs Hstr Hasc []); [reflexivity|]. intros e kv []. }
        unfold SER. cbn [dyn_ser]. rewrite ser_no_panic_arm. fold SER. rewrite EJ. cbv iota.
        rewrite (ser_entries_agree s2 kvs IH Hc Hu Hs). cbn [dbind erase spec_enc]. rewrite !map_length.
        rewrite len_prefix_spec by exact Hl. reflexivity.
      + destruct k; discriminate Hc.
    - (* struct with named fields *)
      intros n fs IH s Hc Hu Hs. destruct s; cbn [conforms] in Hc; try discriminate Hc.
      + exfalso. destruct p; cbn [prim_conforms] in Hc; try discriminate Hc. discriminate Hs.
      + destruct k; try discriminate Hc. cbn [unamb in_scope] in Hu, Hs.
        pose proof (body_scope_names fields Hs) as Hd. apply body_scope_fields in Hs.
        rewrite <- (conforms_named_names fs fields Hc) in Hd.
        destruct (fold_insert_fields fs Hd [] (fun f _ => eq_refl)) as (L & G & _).
        destruct (ser_fields_agree fs (fold_left ins_field fs []) IH fields Hc Hu Hs G) as [E Ln].
        rewrite ser_arm_struct. cbn [ser_data].
        change (J (NStruct n fs)) with (JObj (fold_left ins_field fs [])). cbv iota.
        rewrite L. cbn [length Nat.add]. rewrite Ln, Nat.eqb_refl, E. reflexivity.
    - (* enum variant *)
      intros e i vn p IH s Hc Hu Hs. destruct s; cbn [conforms] in Hc; try discriminate Hc.
      + exfalso. destruct p0; cbn [prim_conforms] in Hc; try discriminate Hc. discriminate Hs.
      + destruct k; discriminate Hc.
      + apply andb_prop in Hc as [Hi Hc]. apply N.ltb_lt in Hi.
        destruct (nth_error variants (N.to_nat i)) as [[[vn' k] fs]|] eqn:En; [|discriminate Hc].
        apply andb_prop in Hc as [Hvn Hc]. apply list_N_eqb_eq in Hvn. subst vn'.
        cbn [in_scope] in Hs. apply andb_prop in Hs as [Hs Hd]. cbn [unamb] in Hu.
        pose proof (find_variant_nth variants Hd (N.to_nat i) vn k fs En) as Ef.
        assert (Hbody : body_in_scope in_scope k fs = true).
        { rewrite forallb_forall in Hs. apply (Hs (vn, k, fs)). eapply nth_error_In. exact En. }
        assert (Hlen : len_prefix (N.to_nat i) = spec_varint i).
        { rewrite len_prefix_spec by lia. unfold spec_len. rewrite N2Nat.id. reflexivity. }
        (* the payload, seen as a struct of the variant's data kind *)
        assert (Hp : SER (SStruct [] k fs) (J p) = DOk (spec_enc (erase p))).
        { apply IH; [|exact Hu|exact Hbody]. cbn [conforms]. destruct k, p; try discriminate Hc; exact Hc. }
        rewrite ser_arm_struct in Hp.
        unfold SER. cbn [dyn_ser]. rewrite ser_no_panic_arm. fold SER. cbn [erase spec_enc].
        destruct p; try (destruct k; discriminate Hc).
        * (* unit variant: a bare string *)
          destruct k; try discriminate Hc. change (J (NVariant e i vn (NUnitStruct name0))) with (JStr vn).
          cbv iota. rewrite Ef, Hlen. cbn [erase spec_enc]. rewrite app_nil_r. reflexivity.
        * change (J (NVariant e i vn (NNewtypeStruct name0 p))) with (JObj [(vn, J (NNewtypeStruct name0 p))]).
          cbv iota. rewrite Ef.
          assert (Ego : forall (l : list (str * dkind * list (str * schema))) n, nth_error l n = Some (vn, k, fs) ->
                    (fix go (vs : list (str * dkind * list (str * schema))) (n : nat) : ser_res :=
                       match vs, n with
                       | v :: _, 0%nat => ser_data SER (snd (fst v)) (snd v) (J (NNewtypeStruct name0 p))
                       | _ :: r, S n' => go r n'
                       | [], _ => DPanic
                       end) l n = ser_data SER k fs (J (NNewtypeStruct name0 p))).
          { induction l as [|v r IHl]; intros [|n] Hn; try discriminate Hn; [injection Hn as ->; reflexivity|apply IHl; exact Hn]. }
          rewrite (Ego variants (N.to_nat i) En), Hp. cbn [dbind]. rewrite Hlen. reflexivity.
        * change (J (NVariant e i vn (NTupleStruct name0 vs))) with (JObj [(vn, J (NTupleStruct name0 vs))]).
          cbv iota. rewrite Ef.
          assert (Ego : forall (l : list (str * dkind * list (str * schema))) n, nth_error l n = Some (vn, k, fs) ->
                    (fix go (vs0 : list (str * dkind * list (str * schema))) (n : nat) : ser_res :=
                       match vs0, n with
                       | v :: _, 0%nat => ser_data SER (snd (fst v)) (snd v) (J (NTupleStruct name0 vs))
                       | _ :: r, S n' => go r n'
                       | [], _ => DPanic
                       end) l n = ser_data SER k fs (J (NTupleStruct name0 vs))).
          { induction l as [|v r IHl]; intros [|n] Hn; try discriminate Hn; [injection Hn as ->; reflexivity|apply IHl; exact Hn]. }
          rewrite (Ego variants (N.to_nat i) En), Hp. cbn [dbind]. rewrite Hlen. reflexivity.
        * change (J (NVariant e i vn (NStruct name0 fields))) with (JObj [(vn, J (NStruct name0 fields))]).
          cbv iota. rewrite Ef.
          assert (Ego : forall (l : list (str * dkind * list (str * schema))) n, nth_error l n = Some (vn, k, fs) ->
                    (fix go (vs0 : list (str * dkind * list (str * schema))) (n : nat) : ser_res :=
                       match vs0, n with
                       | v :: _, 0%nat => ser_data SER (snd (fst v)) (snd v) (J (NStruct name0 fields))
                       | _ :: r, S n' => go r n'
                       | [], _ => DPanic
                       end) l n = ser_data SER k fs (J (NStruct name0 fields))).
          { induction l as [|v r IHl]; intros [|n] Hn; try discriminate Hn; [injection Hn as ->; reflexivity|apply IHl; exact Hn]. }
          rewrite (Ego variants (N.to_nat i) En), Hp. cbn [dbind]. rewrite Hlen. reflexivity.
  Qed.
End Agree.

(* stated on the real encoder model: conforming values are typed, so enc = spec_enc (C02) *)
Theorem ser_agree_enc int_to_f64 narrow widen :
  (forall b, b < 2 ^ 32 -> f32_finite b = true -> narrow (widen b) = b) ->
  forall d v s, conforms d v s = true -> unamb v = true -> in_scope s = true ->
  dyn_ser int_to_f64 narrow s (json_of widen v) = DOk (enc (erase v)).
Proof.
  intros Hnw d v s Hc Hu Hs. destruct (enc_is_spec_aux _ _ (conforms_typed d v s Hc)) as [_ E]. rewrite E.
  exact (ser_agree int_to_f64 narrow widen Hnw d v s Hc Hu Hs).
Qed.
