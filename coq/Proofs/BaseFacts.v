(* BaseFacts.v: lemmas about Base.v (little-endian byte strings, iteration, checked access) *)
From Coq Require Import Lia ZifyBool ZifyNat ZifyN.
From PV Require Import Base.
Open Scope N_scope.
Arguments N.add : simpl never. Arguments N.mul : simpl never. Arguments N.pow : simpl never.
Arguments N.modulo : simpl never. Arguments N.div : simpl never. Arguments N.sub : simpl never.
Arguments N.ltb : simpl never. Arguments N.leb : simpl never. Arguments N.eqb : simpl never.

Lemma le_bytes_length n v : length (le_bytes n v) = n.
Proof. revert v; induction n as [|n IH]; intro v; simpl; [reflexivity|now rewrite IH]. Qed.

Lemma le_bytes_ok n v : bytes_ok (le_bytes n v).
Proof.
  revert v; induction n as [|n IH]; intro v; simpl; constructor.
  - unfold byte_ok. apply N.mod_lt. discriminate.
  - apply IH.
Qed.

Lemma of_le_bytes_le_bytes n v : of_le_bytes (le_bytes n v) = v mod 256 ^ N.of_nat n.
Proof.
  revert v; induction n as [|n IH]; intro v.
  - simpl. now rewrite N.mod_1_r.
  - cbn [le_bytes of_le_bytes]. rewrite IH.
    replace (N.of_nat (S n)) with (N.succ (N.of_nat n)) by lia.
    rewrite N.pow_succ_r'.
    rewrite (N.mod_mul_r v 256 (256 ^ N.of_nat n)) by (try discriminate; apply N.pow_nonzero; discriminate).
    lia.
Qed.

Lemma of_le_bytes_bound l : bytes_ok l -> of_le_bytes l < 256 ^ N.of_nat (length l).
Proof.
  induction 1 as [|b l Hb Hl IH]; simpl of_le_bytes; simpl length.
  - simpl. lia.
  - replace (N.of_nat (S (length l))) with (N.succ (N.of_nat (length l))) by lia.
    rewrite N.pow_succ_r'. unfold byte_ok in Hb. nia.
Qed.

Lemma le_bytes_of_le_bytes l : bytes_ok l -> le_bytes (length l) (of_le_bytes l) = l.
Proof.
  induction 1 as [|b l Hb Hl IH]; simpl; [reflexivity|].
  unfold byte_ok in Hb.
  replace ((b + 256 * of_le_bytes l) mod 256) with b.
  - replace ((b + 256 * of_le_bytes l) / 256) with (of_le_bytes l); [now rewrite IH|].
    symmetry. rewrite N.mul_comm, N.div_add by discriminate. rewrite N.div_small by assumption. lia.
  - symmetry. rewrite N.mul_comm, N.mod_add by discriminate. now apply N.mod_small.
Qed.

Lemma bytes_okb_spec l : bytes_okb l = true <-> bytes_ok l.
Proof.
  unfold bytes_okb, bytes_ok. rewrite forallb_forall, Forall_forall.
  unfold byte_okb, byte_ok. split; intros H x Hx; specialize (H x Hx); lia.
Qed.

Lemma bytes_ok_app a b : bytes_ok (a ++ b) <-> bytes_ok a /\ bytes_ok b.
Proof. unfold bytes_ok. apply Forall_app. Qed.

Lemma Forall_firstn' {A} (P : A -> Prop) n l : Forall P l -> Forall P (firstn n l).
Proof.
  revert n; induction l as [|x l IH]; intros n H; [destruct n; constructor|].
  destruct n; [constructor|]. apply Forall_cons_iff in H as [Hx Hl]. cbn [firstn]. constructor; auto.
Qed.
Lemma Forall_skipn' {A} (P : A -> Prop) n l : Forall P l -> Forall P (skipn n l).
Proof.
  revert n; induction l as [|x l IH]; intros n H; [destruct n; constructor|].
  destruct n; [exact H|]. apply Forall_cons_iff in H as [Hx Hl]. cbn [skipn]. auto.
Qed.

Lemma skipn_skipn' {A} (l : list A) a b : skipn a (skipn b l) = skipn (b + a) l.
Proof.
  revert l; induction b as [|b IH]; intro l; [reflexivity|].
  destruct l as [|x l]; [destruct a; reflexivity|]. cbn [skipn Nat.add]. apply IH.
Qed.

Lemma firstn_app_len {A} (a x : list A) n : length a = n -> firstn n (a ++ x) = a.
Proof. intros <-. rewrite firstn_app, Nat.sub_diag, firstn_all. cbn [firstn]. apply app_nil_r. Qed.
Lemma skipn_app_len {A} (a x : list A) n : length a = n -> skipn n (a ++ x) = x.
Proof. intros <-. rewrite skipn_app, Nat.sub_diag, skipn_all. reflexivity. Qed.

(* iteration *)
Section IterFacts.
  Context {A : Type} (f : A -> res A).
  Lemma iter_nat_add n m a :
    iter_nat f (n + m) a = (let* a1 := iter_nat f n a in iter_nat f m a1).
  Proof.
    revert a; induction n as [|n IH]; intro a; simpl; [reflexivity|].
    destruct (f a); simpl; auto.
  Qed.
  Lemma iter_pos_nat p a : iter_pos f p a = iter_nat f (Pos.to_nat p) a.
  Proof.
    revert a; induction p as [p IH|p IH|]; intro a; cbn [iter_pos].
    - rewrite Pos2Nat.inj_xI. cbn [iter_nat]. destruct (f a) as [a0| | | |]; cbn [bind]; try reflexivity.
      replace (2 * Pos.to_nat p)%nat with (Pos.to_nat p + Pos.to_nat p)%nat by lia.
      rewrite iter_nat_add, IH. destruct (iter_nat f (Pos.to_nat p) a0); cbn [bind]; auto.
    - rewrite Pos2Nat.inj_xO.
      replace (2 * Pos.to_nat p)%nat with (Pos.to_nat p + Pos.to_nat p)%nat by lia.
      rewrite iter_nat_add, IH. destruct (iter_nat f (Pos.to_nat p) a); cbn [bind]; auto.
    - simpl. destruct (f a); reflexivity.
  Qed.
  Lemma iter_N_nat n a : iter_N f n a = iter_nat f (N.to_nat n) a.
  Proof. destruct n; simpl; [reflexivity|apply iter_pos_nat]. Qed.
End IterFacts.

Lemma bind_ok {A B} (r : res A) (f : A -> res B) b :
  bind r f = Ok b -> exists a, r = Ok a /\ f a = Ok b.
Proof. destruct r; simpl; intros H; try discriminate. eauto. Qed.
