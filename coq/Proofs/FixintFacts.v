(* FixintFacts.v: C13.  LE<T>/BE<T> encode as exactly size_of::<T>() raw bytes in the chosen
   order (one try_push per byte, never a varint) and decode back. *)
From Coq Require Import Lia ZifyBool ZifyNat ZifyN ZArith List.
From PV Require Import Base MachineInt DataModel Ser De Fixint BaseFacts ZigZagFacts.
Open Scope N_scope.

Lemma ser_bytes_value bs :
  ser_ops (bytes_value bs) = (map Push bs, None).
Proof.
  unfold bytes_value. cbn [ser_ops].
  induction bs as [|b bs IH]; [reflexivity|].
  cbn [map ser_list]. rewrite IH. cbn [ser_ops ser_int sseq fst snd app].
  rewrite N2Z.id. reflexivity.
Qed.

Lemma flatten_push bs : flatten_ops (map Push bs) = bs.
Proof.
  unfold flatten_ops. induction bs as [|b bs IH]; [reflexivity|].
  cbn [map flat_map op_bytes app]. now rewrite IH.
Qed.

Theorem fixint_ops be k z :
  ser_ops (fix_value be k z) = (map Push (fix_bytes be k z), None).
Proof. apply ser_bytes_value. Qed.

Theorem fixint_enc be k z : enc (fix_value be k z) = fix_bytes be k z.
Proof. unfold enc. rewrite fixint_ops. apply flatten_push. Qed.

Theorem fixint_length be k z : length (fix_bytes be k z) = nbytes k.
Proof.
  unfold fix_bytes, be_bytes. destruct be; rewrite ?rev_length; apply le_bytes_length.
Qed.

Lemma fix_bytes_ok be k z : bytes_ok (fix_bytes be k z).
Proof.
  unfold fix_bytes, be_bytes. destruct be; [apply Forall_rev|]; apply le_bytes_ok.
Qed.

(* decoding n raw bytes as a tuple of n u8 fields *)
Lemma de_fields_u8 bs rest :
  de_fields (de slice_pop slice_take_n) (repeat (TInt U8) (length bs)) (bs ++ rest)
  = Ok (map (fun b => VInt U8 (Z.of_N b)) bs, rest).
Proof.
  induction bs as [|b bs IH]; [reflexivity|].
  cbn [length repeat de_fields app]. cbn [de de_int slice_pop bind]. rewrite IH. reflexivity.
Qed.

Lemma value_bytes_map bs :
  value_bytes (map (fun b => VInt U8 (Z.of_N b)) bs) = Some bs.
Proof.
  induction bs as [|b bs IH]; [reflexivity|]. cbn [map value_bytes]. rewrite IH, N2Z.id. reflexivity.
Qed.

Lemma nbytes_bits k : 256 ^ N.of_nat (nbytes k) = Z.to_N (2 ^ bits (ik_ity k)).
Proof. destruct k; vm_compute; reflexivity. Qed.

Lemma wrap_mod t z : wrap t (z mod 2 ^ bits t) = wrap t z.
Proof.
  unfold wrap. destruct (Z.eq_dec (2 ^ bits t) 0) as [E|E].
  - rewrite E. now rewrite !Zmod_0_r.
  - rewrite Z.mod_mod by assumption. reflexivity.
Qed.

Lemma wrap_id k z : in_range (ik_ity k) z -> wrap (ik_ity k) z = z.
Proof.
  unfold in_range. destruct k; cbn [ik_ity signed bits i8 i16 i32 i64 i128 u8 u16 u32 u64 u128]; intro H.
  - apply (wrap_s_id 8); lia.
  - apply (wrap_s_id 16); lia.
  - apply (wrap_s_id 32); lia.
  - apply (wrap_s_id 64); lia.
  - apply (wrap_s_id 128); lia.
  - unfold wrap; cbn [signed bits u8 u16 u32 u64 u128]; apply Z.mod_small; lia.
  - unfold wrap; cbn [signed bits u8 u16 u32 u64 u128]; apply Z.mod_small; lia.
  - unfold wrap; cbn [signed bits u8 u16 u32 u64 u128]; apply Z.mod_small; lia.
  - unfold wrap; cbn [signed bits u8 u16 u32 u64 u128]; apply Z.mod_small; lia.
  - unfold wrap; cbn [signed bits u8 u16 u32 u64 u128]; apply Z.mod_small; lia.
Qed.

Theorem fixint_roundtrip be k z rest :
  in_range (ik_ity k) z ->
  exists v, de_slice (fix_ty k) (enc (fix_value be k z) ++ rest) = Ok (v, rest)
            /\ fix_decode be k v = Some z.
Proof.
  intro Hz. rewrite fixint_enc.
  exists (bytes_value (fix_bytes be k z)). split.
  - unfold de_slice, fix_ty. cbn [de].
    rewrite <- (fixint_length be k z). rewrite de_fields_u8. reflexivity.
  - unfold fix_decode, bytes_value. rewrite value_bytes_map. f_equal.
    assert (E : (if be then of_be_bytes (fix_bytes be k z) else of_le_bytes (fix_bytes be k z))
                = bit_pattern k z).
    { unfold fix_bytes, of_be_bytes, be_bytes. destruct be; rewrite ?rev_involutive;
        rewrite of_le_bytes_le_bytes, nbytes_bits; unfold bit_pattern;
        (apply N.mod_small; apply N2Z.inj_lt; rewrite !Z2N.id;
         [apply Z.mod_pos_bound| |apply Z.mod_pos_bound]; destruct k; cbn; lia). }
    rewrite E. unfold bit_pattern.
    rewrite Z2N.id by (apply Z.mod_pos_bound; destruct k; cbn; lia).
    rewrite wrap_mod. apply wrap_id. assumption.
Qed.

Lemma le_bytes_nth n : forall v i, (i < n)%nat ->
  nth_error (le_bytes n v) i = Some ((v / 256 ^ N.of_nat i) mod 256).
Proof.
  induction n as [|n IH]; intros v i Hi; [lia|].
  cbn [le_bytes]. destruct i as [|i].
  - cbn [nth_error]. change (256 ^ N.of_nat 0) with 1. now rewrite N.div_1_r.
  - cbn [nth_error]. rewrite IH by lia. f_equal. f_equal.
    rewrite N.div_div by lia. f_equal.
    replace (N.of_nat (S i)) with (N.succ (N.of_nat i)) by lia.
    now rewrite N.pow_succ_r'.
Qed.

Lemma rev_nth_error {A} (l : list A) : forall i, (i < length l)%nat ->
  nth_error (rev l) i = nth_error l (length l - 1 - i).
Proof.
  induction l as [|a l IH]; intros i Hi; cbn [length] in *; [lia|].
  cbn [rev]. destruct (Nat.eq_dec i (length l)) as [->|Hne].
  - rewrite nth_error_app2 by (rewrite rev_length; lia).
    rewrite rev_length. replace (length l - length l)%nat with 0%nat by lia.
    replace (S (length l) - 1 - length l)%nat with 0%nat by lia. reflexivity.
  - rewrite nth_error_app1 by (rewrite rev_length; lia).
    rewrite IH by lia.
    replace (S (length l) - 1 - i)%nat with (S (length l - 1 - i)) by lia. reflexivity.
Qed.

(* the byte at offset i of an LE<T> field is bits 8i..8i+7 of T's two's-complement pattern; of a
   BE<T> field, bits 8(size_of-1-i).. : the positional statement of "in the chosen byte order" *)
Theorem fixint_byte_at be k z i : (i < nbytes k)%nat ->
  nth_error (enc (fix_value be k z)) i =
  Some ((bit_pattern k z / 256 ^ N.of_nat (if be then nbytes k - 1 - i else i)) mod 256).
Proof.
  intros Hi. rewrite fixint_enc. unfold fix_bytes. destruct be.
  - unfold be_bytes. rewrite rev_nth_error by (rewrite le_bytes_length; exact Hi).
    rewrite le_bytes_length. apply le_bytes_nth. lia.
  - now apply le_bytes_nth.
Qed.

(* the two orders are mirror images of each other *)
Theorem fixint_be_is_rev_le k z : enc (fix_value true k z) = rev (enc (fix_value false k z)).
Proof. rewrite !fixint_enc. reflexivity. Qed.
