(* BitFacts.v: byte-level bit facts by a finite sweep over the 256 bytes (a proof: the
   domain is finite), and the word-level facts relating lor/shiftl/shiftr/land to
   arithmetic. *)
From Coq Require Import Lia ZifyBool ZifyNat ZifyN.
From PV Require Import Base.
Open Scope N_scope.

Definition all_bytes : list N := map N.of_nat (seq 0 256).
Lemma in_all_bytes b : b < 256 -> In b all_bytes.
Proof.
  intro H. unfold all_bytes. apply in_map_iff. exists (N.to_nat b). split; [lia|].
  apply in_seq. lia.
Qed.
Lemma byte_sweep (P : N -> bool) :
  forallb P all_bytes = true -> forall b, b < 256 -> P b = true.
Proof. intros H b Hb. rewrite forallb_forall in H. apply H, in_all_bytes, Hb. Qed.

Lemma byte_land_127 b : b < 256 -> N.land b 127 = b mod 128.
Proof. intro H. apply N.eqb_eq. revert b H. apply byte_sweep. vm_compute. reflexivity. Qed.
Lemma byte_land_128 b : b < 256 -> (N.land b 128 =? 0) = (b <? 128).
Proof.
  intro H. apply Bool.eqb_prop. revert b H. apply byte_sweep. vm_compute. reflexivity.
Qed.
Lemma byte_lor_128 b : b < 256 -> N.lor b 128 = b mod 128 + 128.
Proof. intro H. apply N.eqb_eq. revert b H. apply byte_sweep. vm_compute. reflexivity. Qed.

Lemma land_low_high acc x k : acc < 2 ^ k -> N.land acc (N.shiftl x k) = 0.
Proof.
  intro H. apply N.bits_inj; intro n. rewrite N.land_spec, N.bits_0.
  destruct (N.ltb_spec n k) as [Hn|Hn].
  - rewrite N.shiftl_spec_low by assumption. apply andb_false_r.
  - replace acc with (acc mod 2 ^ k) by (apply N.mod_small; assumption).
    rewrite N.mod_pow2_bits_high by assumption. reflexivity.
Qed.
Lemma lor_low_high acc x k : acc < 2 ^ k -> N.lor acc (N.shiftl x k) = acc + x * 2 ^ k.
Proof.
  intro H. rewrite <- N.shiftl_mul_pow2.
  rewrite <- N.lxor_lor by (apply land_low_high; assumption).
  symmetry. apply N.add_nocarry_lxor. apply land_low_high; assumption.
Qed.
Lemma pow128 i : 128 ^ i = 2 ^ (7 * i).
Proof. rewrite N.pow_mul_r. reflexivity. Qed.
Lemma shiftr7 v : N.shiftr v 7 = v / 128.
Proof. rewrite N.shiftr_div_pow2. reflexivity. Qed.
Lemma mod256_mod128 v : (v mod 256) mod 128 = v mod 128.
Proof.
  rewrite (N.div_mod v 256) at 2 by discriminate.
  replace (256 * (v / 256)) with ((v / 256 * 2) * 128) by lia.
  rewrite N.add_comm, N.mod_add by discriminate. reflexivity.
Qed.
