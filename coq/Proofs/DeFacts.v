(* DeFacts.v: C01.  Decoding what the encoder produced returns the value and hands back the
   remainder, for every shape and value. *)
From Coq Require Import Lia ZifyBool ZifyNat ZifyN.
From PV Require Import Base MachineInt VarintParams GenArith GenLoops Varint Utf8 DataModel Ser De
  WireFormat BaseFacts BitFacts VarintFacts VarintCore ZigZagFacts ValueInd SerFacts Utf8Facts FixintFacts.
Open Scope N_scope.

Lemma usize_reader_std : usize_reader = std_reader u64 DeserializeBadVarint.
Proof. reflexivity. Qed.

Lemma slice_take_exact a rest n :
  N.of_nat (length a) = n -> slice_take_n n (a ++ rest) = Ok (a, rest).
Proof.
  intro H. unfold slice_take_n. rewrite app_length.
  destruct (N.ltb_spec (N.of_nat (length a + length rest)) n); [lia|].
  replace (N.to_nat n) with (length a) by lia.
  rewrite firstn_app, Nat.sub_diag, firstn_all, skipn_app, Nat.sub_diag, skipn_all.
  cbn [firstn skipn]. rewrite app_nil_r. reflexivity.
Qed.

Lemma take_usize_roundtrip n rest :
  n < 2 ^ 64 -> bytes_ok rest ->
  take_usize slice_pop (spec_varint n ++ rest) = Ok (n, rest).
Proof.
  intros Hn Hr. unfold take_usize, take_varint. rewrite usize_reader_std.
  rewrite <- (venc_std u64 n) by (try (right; right; left; reflexivity); exact Hn).
  apply take_varint_roundtrip; try assumption. right; right; left; reflexivity.
Qed.

Lemma take_len_roundtrip n rest :
  N.of_nat n < 2 ^ 64 -> bytes_ok rest ->
  take_usize slice_pop (spec_len n ++ rest) = Ok (N.of_nat n, rest).
Proof. intros. apply take_usize_roundtrip; assumption. Qed.

(* ---- bytes_ok of encodings ---- *)
Lemma flat_map_ok {A} (f : A -> list byte) l :
  Forall (fun x => bytes_ok (f x)) l -> bytes_ok (flat_map f l).
Proof.
  induction 1 as [|x l Hx Hl IH]; [constructor|]. cbn [flat_map]. apply bytes_ok_app. split; assumption.
Qed.

Lemma spec_int_ok k z : in_range (ik_ity k) z -> bytes_ok (spec_int k z).
Proof.
  intro Hz. unfold in_range in Hz.
  destruct k; cbn [spec_int]; try apply spec_varint_bytes_ok;
    cbn [ik_ity signed bits i8 u8] in Hz; (constructor; [|constructor]); unfold byte_ok.
  - pose proof (Z.mod_pos_bound z 256 ltac:(lia)). lia.
  - lia.
Qed.

Theorem spec_enc_ok : forall v t, has_type v t = true -> bytes_ok (spec_enc v).
Proof.
  induction v as [b|k z|b|b|c|bs|bs| |v IH| | |v IH|vs IH|vs IH|vs IH|kvs IH|vs IH|i v IH|vs|kvs|ps]
    using value_ind'; intros t Ht; destruct t; try discriminate Ht; cbn [has_type] in Ht; cbn [spec_enc].
  - constructor; [|constructor]. unfold byte_ok. destruct b; lia.
  - apply andb_prop in Ht as [Hk Hr]. apply spec_int_ok.
    unfold in_range, in_rangeb in *. destruct (signed (ik_ity k)); lia.
  - apply le_bytes_ok.
  - apply le_bytes_ok.
  - apply bytes_ok_app. split; [apply spec_varint_bytes_ok|apply utf8_encode_bytes_ok; assumption].
  - apply andb_prop in Ht as [Ht Hlen]. apply andb_prop in Ht as [Hb Hu].
    apply bytes_ok_app. split; [apply spec_varint_bytes_ok|]. apply bytes_okb_spec. exact Hb.
  - apply andb_prop in Ht as [Hb Hlen].
    apply bytes_ok_app. split; [apply spec_varint_bytes_ok|]. apply bytes_okb_spec. exact Hb.
  - constructor; [|constructor]. unfold byte_ok. lia.
  - constructor; [unfold byte_ok; lia|]. eapply IH; eassumption.
  - constructor.
  - constructor.
  - eapply IH; eassumption.
  - apply andb_prop in Ht as [Hall Hlen]. rewrite forallb_forall in Hall.
    apply bytes_ok_app. split; [apply spec_varint_bytes_ok|]. apply flat_map_ok.
    rewrite Forall_forall in IH |- *. intros x Hx. eapply IH; [exact Hx|apply Hall, Hx].
  - apply flat_map_ok. eapply has_type_fields_forall; [exact Ht|].
    eapply Forall_impl; [|exact IH]. intros a Ha t' Ht'. eapply Ha; eassumption.
  - apply flat_map_ok. eapply has_type_fields_forall; [exact Ht|].
    eapply Forall_impl; [|exact IH]. intros a Ha t' Ht'. eapply Ha; eassumption.
  - apply andb_prop in Ht as [Hall Hlen]. rewrite forallb_forall in Hall.
    apply bytes_ok_app. split; [apply spec_varint_bytes_ok|]. apply flat_map_ok.
    rewrite Forall_forall in IH |- *. intros kv Hkv. destruct (IH kv Hkv) as [Ik Iv].
    specialize (Hall kv Hkv). apply andb_prop in Hall as [Hk Hv].
    apply bytes_ok_app. split; [eapply Ik|eapply Iv]; eassumption.
  - apply flat_map_ok. eapply has_type_fields_forall; [exact Ht|].
    eapply Forall_impl; [|exact IH]. intros a Ha t' Ht'. eapply Ha; eassumption.
  - apply andb_prop in Ht as [Hi Hp]. apply pick_has_type in Hp. destruct Hp as [t' [_ Hp]].
    apply bytes_ok_app. split; [apply spec_varint_bytes_ok|eapply IH; eassumption].
Qed.

(* ---- the round trip ---- *)
Definition RT (v : value) : Prop :=
  forall t rest, has_type v t = true -> bytes_ok rest ->
                 de_slice t (spec_enc v ++ rest) = Ok (v, rest).

Lemma fields_forall2 vs ts :
  (fix go (vs : list value) (ts : list ty) : bool :=
     match vs, ts with
     | [], [] => true
     | x :: vs', t' :: ts' => has_type x t' && go vs' ts'
     | _, _ => false
     end) vs ts = true -> Forall2 (fun v t => has_type v t = true) vs ts.
Proof.
  revert ts; induction vs as [|v vs IH]; intros [|t ts] H; try discriminate; constructor.
  - apply andb_prop in H as [H1 _]. exact H1.
  - apply andb_prop in H as [_ H2]. apply IH, H2.
Qed.

Lemma de_fields_roundtrip vs ts rest :
  Forall RT vs -> Forall2 (fun v t => has_type v t = true) vs ts -> bytes_ok rest ->
  de_fields (de slice_pop slice_take_n) ts (flat_map spec_enc vs ++ rest) = Ok (vs, rest).
Proof.
  intros HRT H2; revert rest; induction H2 as [|v t vs ts Hvt H2 IH]; intros rest Hr; [reflexivity|].
  apply Forall_cons_iff in HRT as [Hv Hvs].
  cbn [flat_map de_fields]. rewrite <- app_assoc.
  assert (Hok : bytes_ok (flat_map spec_enc vs ++ rest)).
  { apply bytes_ok_app. split; [|assumption]. apply flat_map_ok.
    clear - H2. induction H2; constructor; [eapply spec_enc_ok; eassumption|assumption]. }
  fold (de_slice t (spec_enc v ++ flat_map spec_enc vs ++ rest)).
  rewrite (Hv t _ Hvt Hok). cbn [bind]. rewrite (IH Hvs rest Hr). reflexivity.
Qed.

Lemma seq_loop_roundtrip t vs acc rest :
  Forall RT vs -> Forall (fun v => has_type v t = true) vs -> bytes_ok rest ->
  iter_nat (fun st : list value * list byte =>
              let* '(v, s') := de slice_pop slice_take_n t (snd st) in Ok (v :: fst st, s'))
           (length vs) (acc, flat_map spec_enc vs ++ rest) = Ok (rev vs ++ acc, rest).
Proof.
  intros HRT Ht; revert acc rest; induction vs as [|v vs IH]; intros acc rest Hr; [reflexivity|].
  apply Forall_cons_iff in HRT as [Hv Hvs]. apply Forall_cons_iff in Ht as [Htv Htvs].
  cbn [length iter_nat flat_map snd fst]. rewrite <- app_assoc.
  assert (Hok : bytes_ok (flat_map spec_enc vs ++ rest)).
  { apply bytes_ok_app. split; [|assumption]. apply flat_map_ok.
    eapply Forall_impl; [|exact Htvs]. intros a Ha. eapply spec_enc_ok; exact Ha. }
  fold (de_slice t (spec_enc v ++ flat_map spec_enc vs ++ rest)).
  rewrite (Hv t _ Htv Hok). cbn [bind]. rewrite (IH Hvs Htvs (v :: acc) rest Hr).
  cbn [rev]. rewrite <- app_assoc. reflexivity.
Qed.

Lemma map_loop_roundtrip tk tv kvs acc rest :
  Forall (fun kv => RT (fst kv) /\ RT (snd kv)) kvs ->
  Forall (fun kv => has_type (fst kv) tk = true /\ has_type (snd kv) tv = true) kvs -> bytes_ok rest ->
  iter_nat (fun st : list (value * value) * list byte =>
              let* '(k, s') := de slice_pop slice_take_n tk (snd st) in
              let* '(v, s'') := de slice_pop slice_take_n tv s' in
              Ok ((k, v) :: fst st, s''))
           (length kvs) (acc, flat_map (fun kv => spec_enc (fst kv) ++ spec_enc (snd kv)) kvs ++ rest)
  = Ok (rev kvs ++ acc, rest).
Proof.
  intros HRT Ht; revert acc rest; induction kvs as [|[k v] kvs IH]; intros acc rest Hr; [reflexivity|].
  apply Forall_cons_iff in HRT as [[Hk Hv] Hkvs]. apply Forall_cons_iff in Ht as [[Htk Htv] Htkvs].
  cbn [fst snd] in *.
  cbn [length iter_nat flat_map snd fst]. rewrite <- !app_assoc.
  assert (Hok : bytes_ok (flat_map (fun kv => spec_enc (fst kv) ++ spec_enc (snd kv)) kvs ++ rest)).
  { apply bytes_ok_app. split; [|assumption]. apply flat_map_ok.
    eapply Forall_impl; [|exact Htkvs]. intros a [Ha1 Ha2]. apply bytes_ok_app.
    split; eapply spec_enc_ok; eassumption. }
  assert (Hok2 : bytes_ok (spec_enc v ++ flat_map (fun kv => spec_enc (fst kv) ++ spec_enc (snd kv)) kvs ++ rest)).
  { apply bytes_ok_app. split; [eapply spec_enc_ok; eassumption|assumption]. }
  fold (de_slice tk (spec_enc k ++ spec_enc v ++ flat_map (fun kv => spec_enc (fst kv) ++ spec_enc (snd kv)) kvs ++ rest)).
  rewrite (Hk tk _ Htk Hok2). cbn [bind].
  fold (de_slice tv (spec_enc v ++ flat_map (fun kv => spec_enc (fst kv) ++ spec_enc (snd kv)) kvs ++ rest)).
  rewrite (Hv tv _ Htv Hok). cbn [bind]. rewrite (IH Hkvs Htkvs ((k, v) :: acc) rest Hr).
  cbn [rev]. rewrite <- app_assoc. reflexivity.
Qed.

Lemma pick_roundtrip p idx vs n rest :
  RT p -> bytes_ok rest ->
  (fix pick (vs : list ty) (i : nat) : bool :=
     match vs, i with
     | [], _ => false
     | t' :: _, O => has_type p t'
     | _ :: vs', S i' => pick vs' i'
     end) vs n = true ->
  (fix pick (vs : list ty) (i : nat) : res (value * list byte) :=
     match vs, i with
     | [], _ => Err SerdeDeCustom
     | t' :: _, O => let* '(v, s2) := de slice_pop slice_take_n t' (spec_enc p ++ rest) in Ok (VVariant idx v, s2)
     | _ :: vs', S i' => pick vs' i'
     end) vs n = Ok (VVariant idx p, rest).
Proof.
  intros Hp Hr. revert n; induction vs as [|t' ts IH]; intros n H; [discriminate|].
  destruct n; [|apply IH, H].
  fold (de_slice t' (spec_enc p ++ rest)). rewrite (Hp t' rest H Hr). reflexivity.
Qed.

Lemma int_roundtrip k z rest :
  in_range (ik_ity k) z -> bytes_ok rest ->
  de_int slice_pop k (spec_int k z ++ rest) = Ok (VInt k z, rest).
Proof.
  intros Hz Hr. pose proof Hz as Hz'. unfold in_range in Hz.
  assert (HV : forall (uk : ity) (W : Z) n, is_vty uk -> wbits uk = Z.to_N W -> (0 <= W)%Z -> (0 <= Z.of_N n < 2 ^ W)%Z ->
     take_varint slice_pop (std_reader uk DeserializeBadVarint) (spec_varint n ++ rest) = Ok (n, rest)).
  { intros uk W n Hu Hw HW Hn. unfold take_varint.
    assert (Hn' : n < 2 ^ wbits uk).
    { rewrite Hw. apply N2Z.inj_lt. rewrite N2Z.inj_pow, Z2N.id; lia. }
    rewrite <- (venc_std uk n Hu Hn'). apply take_varint_roundtrip; assumption. }
  destruct k; cbn [de_int spec_int app reader_of];
    cbn [ik_ity signed bits i8 i16 i32 i64 i128 u8 u16 u32 u64 u128] in Hz.
  - (* I8 *) cbn [slice_pop bind]. f_equal. f_equal. f_equal.
    rewrite Z2N.id by (apply Z.mod_pos_bound; lia).
    change (cast i8 (z mod 256)) with (wrap (ik_ity I8) (z mod 2 ^ bits (ik_ity I8))).
    rewrite wrap_mod. apply wrap_id. exact Hz'.
  - change core_reader_u16 with (std_reader u16 DeserializeBadVarint).
    pose proof (spec_zigzag_bound 16 z ltac:(lia) Hz) as Hb.
    rewrite (HV u16 16%Z) by (try (left; reflexivity); try reflexivity; lia). cbn [bind].
    rewrite (de_zig_zag_spec I16 16 _ eq_refl Hb), N2Z.id, spec_unzigzag_zigzag. reflexivity.
  - change core_reader_u32 with (std_reader u32 DeserializeBadVarint).
    pose proof (spec_zigzag_bound 32 z ltac:(lia) Hz) as Hb.
    rewrite (HV u32 32%Z) by (try (right; left; reflexivity); try reflexivity; lia). cbn [bind].
    rewrite (de_zig_zag_spec I32 32 _ eq_refl Hb), N2Z.id, spec_unzigzag_zigzag. reflexivity.
  - change core_reader_u64 with (std_reader u64 DeserializeBadVarint).
    pose proof (spec_zigzag_bound 64 z ltac:(lia) Hz) as Hb.
    rewrite (HV u64 64%Z) by (try (right; right; left; reflexivity); try reflexivity; lia). cbn [bind].
    rewrite (de_zig_zag_spec I64 64 _ eq_refl Hb), N2Z.id, spec_unzigzag_zigzag. reflexivity.
  - change core_reader_u128 with (std_reader u128 DeserializeBadVarint).
    pose proof (spec_zigzag_bound 128 z ltac:(lia) Hz) as Hb.
    rewrite (HV u128 128%Z) by (try (right; right; right; reflexivity); try reflexivity; lia). cbn [bind].
    rewrite (de_zig_zag_spec I128 128 _ eq_refl Hb), N2Z.id, spec_unzigzag_zigzag. reflexivity.
  - (* U8 *) cbn [slice_pop bind]. rewrite Z2N.id by lia. reflexivity.
  - change core_reader_u16 with (std_reader u16 DeserializeBadVarint).
    rewrite (HV u16 16%Z) by (try (left; reflexivity); try reflexivity; rewrite ?Z2N.id by lia; lia).
    cbn [bind de_zig_zag]. rewrite Z2N.id by lia. reflexivity.
  - change core_reader_u32 with (std_reader u32 DeserializeBadVarint).
    rewrite (HV u32 32%Z) by (try (right; left; reflexivity); try reflexivity; rewrite ?Z2N.id by lia; lia).
    cbn [bind de_zig_zag]. rewrite Z2N.id by lia. reflexivity.
  - change core_reader_u64 with (std_reader u64 DeserializeBadVarint).
    rewrite (HV u64 64%Z) by (try (right; right; left; reflexivity); try reflexivity; rewrite ?Z2N.id by lia; lia).
    cbn [bind de_zig_zag]. rewrite Z2N.id by lia. reflexivity.
  - change core_reader_u128 with (std_reader u128 DeserializeBadVarint).
    rewrite (HV u128 128%Z) by (try (right; right; right; reflexivity); try reflexivity; rewrite ?Z2N.id by lia; lia).
    cbn [bind de_zig_zag]. rewrite Z2N.id by lia. reflexivity.
Qed.

Theorem roundtrip_spec : forall v, RT v.
Proof.
  unfold RT.
  induction v as [b|k z|b|b|c|bs|bs| |v IH| | |v IH|vs IH|vs IH|vs IH|kvs IH|vs IH|i v IH|vs|kvs|ps]
    using value_ind'; intros t rest Ht Hr; destruct t; try discriminate Ht; cbn [has_type] in Ht;
    unfold de_slice; cbn [spec_enc de].
  - (* bool *) destruct b; reflexivity.
  - (* int *) apply andb_prop in Ht as [Hk Hrg].
    assert (k = k0) by (destruct k, k0; try discriminate; reflexivity). subst k0.
    apply int_roundtrip; [|assumption].
    unfold in_range, in_rangeb in *. destruct (signed (ik_ity k)); lia.
  - (* f32 *) rewrite (slice_take_exact (le_bytes 4 b) rest 4) by (rewrite le_bytes_length; reflexivity).
    cbn [bind]. rewrite of_le_bytes_le_bytes. change (256 ^ N.of_nat 4) with (2 ^ 32).
    rewrite N.mod_small by lia. reflexivity.
  - (* f64 *) rewrite (slice_take_exact (le_bytes 8 b) rest 8) by (rewrite le_bytes_length; reflexivity).
    cbn [bind]. rewrite of_le_bytes_le_bytes. change (256 ^ N.of_nat 8) with (2 ^ 64).
    rewrite N.mod_small by lia. reflexivity.
  - (* char *) unfold de_char. rewrite <- app_assoc.
    pose proof (utf8_encode_len c) as Hl.
    rewrite take_len_roundtrip; [|lia|apply bytes_ok_app; split; [apply utf8_encode_bytes_ok|]; assumption].
    cbn [bind]. destruct (N.ltb_spec 4 (N.of_nat (length (utf8_encode c)))); [lia|].
    rewrite slice_take_exact by reflexivity. cbn [bind].
    rewrite utf8_chars_encode by assumption. reflexivity.
  - (* str *) apply andb_prop in Ht as [Ht Hlen]. apply andb_prop in Ht as [Hb Hu].
    unfold de_str. rewrite <- app_assoc.
    rewrite take_len_roundtrip; [|lia|apply bytes_ok_app; split; [apply bytes_okb_spec|]; assumption].
    cbn [bind]. rewrite slice_take_exact by reflexivity. cbn [bind]. rewrite Hu. reflexivity.
  - (* bytes *) apply andb_prop in Ht as [Hb Hlen].
    unfold de_bytes. rewrite <- app_assoc.
    rewrite take_len_roundtrip; [|lia|apply bytes_ok_app; split; [apply bytes_okb_spec|]; assumption].
    cbn [bind]. rewrite slice_take_exact by reflexivity. reflexivity.
  - (* none *) reflexivity.
  - (* some *) cbn [app slice_pop bind N.eqb Pos.eqb].
    fold (de_slice t (spec_enc v ++ rest)). rewrite (IH t rest Ht Hr). reflexivity.
  - reflexivity.
  - reflexivity.
  - (* newtype *) fold (de_slice t (spec_enc v ++ rest)). rewrite (IH t rest Ht Hr). reflexivity.
  - (* seq *) apply andb_prop in Ht as [Hall Hlen]. rewrite forallb_forall in Hall.
    assert (Htys : Forall (fun v => has_type v t = true) vs) by (apply Forall_forall; exact Hall).
    rewrite <- app_assoc.
    rewrite take_len_roundtrip; [|lia|].
    2:{ apply bytes_ok_app. split; [|assumption]. apply flat_map_ok.
        eapply Forall_impl; [|exact Htys]. intros a Ha. eapply spec_enc_ok; exact Ha. }
    cbn [bind]. rewrite iter_N_nat, Nat2N.id.
    rewrite (seq_loop_roundtrip t vs [] rest IH Htys Hr). cbn [bind].
    rewrite app_nil_r, rev_involutive. reflexivity.
  - (* tuple *) rewrite (de_fields_roundtrip vs ts rest IH (fields_forall2 _ _ Ht) Hr). reflexivity.
  - rewrite (de_fields_roundtrip vs ts rest IH (fields_forall2 _ _ Ht) Hr). reflexivity.
  - (* map *) apply andb_prop in Ht as [Hall Hlen]. rewrite forallb_forall in Hall.
    assert (Htys : Forall (fun kv => has_type (fst kv) t1 = true /\ has_type (snd kv) t2 = true) kvs).
    { apply Forall_forall. intros kv Hkv. specialize (Hall kv Hkv). apply andb_prop in Hall. exact Hall. }
    rewrite <- app_assoc.
    rewrite take_len_roundtrip; [|lia|].
    2:{ apply bytes_ok_app. split; [|assumption]. apply flat_map_ok.
        eapply Forall_impl; [|exact Htys]. intros a [Ha1 Ha2]. apply bytes_ok_app.
        split; eapply spec_enc_ok; eassumption. }
    cbn [bind]. rewrite iter_N_nat, Nat2N.id.
    rewrite (map_loop_roundtrip t1 t2 kvs [] rest IH Htys Hr). cbn [bind].
    rewrite app_nil_r, rev_involutive. reflexivity.
  - (* struct *) rewrite (de_fields_roundtrip vs ts rest IH (fields_forall2 _ _ Ht) Hr). reflexivity.
  - (* variant *) apply andb_prop in Ht as [Hi Hp]. apply andb_prop in Hi as [Hi32 Hin].
    rewrite <- app_assoc.
    assert (Hok : bytes_ok (spec_enc v ++ rest)).
    { apply bytes_ok_app. split; [|assumption]. apply pick_has_type in Hp. destruct Hp as [t' [_ Hp]].
      eapply spec_enc_ok; exact Hp. }
    unfold take_varint. change core_reader_u32 with (std_reader u32 DeserializeBadVarint).
    rewrite <- (venc_std u32 i) by (try (right; left; reflexivity); change (wbits u32) with 32; lia).
    rewrite take_varint_roundtrip; [|right; left; reflexivity|change (wbits u32) with 32; lia|assumption].
    cbn [bind].
    match goal with |- context [N.of_nat (length ?l) <=? i] => destruct (N.leb_spec (N.of_nat (length l)) i); [lia|] end.
    apply pick_roundtrip; assumption.
Qed.

(* the same through the real encoder: enc = spec_enc *)
Theorem roundtrip : forall v t rest,
  has_type v t = true -> bytes_ok rest -> de_slice t (enc v ++ rest) = Ok (v, rest).
Proof.
  intros v t rest Ht Hr. destruct (enc_is_spec_aux v t Ht) as [_ E]. rewrite E.
  apply roundtrip_spec; assumption.
Qed.
