(* IoFacts.v: C11.  The writer flavour receives exactly the plain encoding; the reader flavour
   (reader + sliding scratch buffer) refines slice decoding, consumes exactly the message,
   places borrowed data in consecutive disjoint slots of the scratch buffer, and returns an
   error - never a panic or an out-of-bounds write - when the reader fails or the scratch
   buffer is too small. *)
From Coq Require Import Lia ZifyBool ZifyNat ZifyN.
From PV Require Import Base MachineInt DataModel Ser De Cobs Crc SerFlavors DeFlavors
  BaseFacts ValueInd Simulation PtrSlice Benign SerFacts.
Open Scope N_scope.

(* ---------------- writer ---------------- *)
Lemma writer_run_ops acc ops :
  run_ops writer_flavor {| w_accepted := acc; w_limit := None; w_flush_fails := false |} ops
  = Ok {| w_accepted := acc ++ flatten_ops ops; w_limit := None; w_flush_fails := false |}.
Proof.
  revert acc; induction ops as [|o ops IH]; intro acc; cbn [run_ops].
  - unfold flatten_ops. cbn. now rewrite app_nil_r.
  - destruct o; cbn [run_op writer_flavor sf_push sf_extend writer_write_all w_limit w_accepted w_flush_fails map_err bind];
      rewrite IH; unfold flatten_ops; cbn [flat_map op_bytes]; rewrite <- app_assoc; reflexivity.
Qed.

Theorem to_io_is_encode v : ser_err v = None -> to_io v None false = Ok (enc v).
Proof.
  intro H. unfold to_io, serialize_with, ser_err, enc in *. destruct (ser_ops v) as [ops e]. cbn [snd fst] in *. subst e.
  rewrite writer_run_ops. reflexivity.
Qed.

(* a writer that stops accepting after k bytes: an error, and what it holds is a prefix *)
Lemma writer_run_op_limited acc k ff o :
  run_op writer_flavor {| w_accepted := acc; w_limit := Some k; w_flush_fails := ff |} o =
  if Nat.ltb k (length acc + length (op_bytes o))
  then Err (match o with ExtendFmt _ => CollectStrError | _ => SerializeBufferFull end)
  else Ok {| w_accepted := acc ++ op_bytes o; w_limit := Some k; w_flush_fails := ff |}.
Proof.
  destruct o; cbn [run_op writer_flavor sf_push sf_extend writer_write_all w_limit w_accepted w_flush_fails op_bytes];
    match goal with |- context [Nat.ltb k ?n] => destruct (Nat.ltb k n) end; reflexivity.
Qed.

Lemma writer_run_ops_limited acc k ff ops :
  match run_ops writer_flavor {| w_accepted := acc; w_limit := Some k; w_flush_fails := ff |} ops with
  | Ok w => w_accepted w = acc ++ flatten_ops ops /\ (length (w_accepted w) <= Nat.max k (length acc))%nat
  | Err e => (k < length (acc ++ flatten_ops ops))%nat /\ (e = SerializeBufferFull \/ e = CollectStrError)
  | _ => False
  end.
Proof.
  revert acc; induction ops as [|o ops' IH]; intro acc; cbn [run_ops].
  - unfold flatten_ops. cbn. rewrite app_nil_r. split; [reflexivity|lia].
  - assert (E : flatten_ops (o :: ops') = op_bytes o ++ flatten_ops ops') by reflexivity. rewrite E.
    rewrite writer_run_op_limited.
    destruct (Nat.ltb_spec k (length acc + length (op_bytes o))) as [Hk|Hk]; cbn [bind].
    + split; [rewrite !app_length; lia|destruct o; auto].
    + specialize (IH (acc ++ op_bytes o)). rewrite <- app_assoc in IH.
      destruct (run_ops writer_flavor _ ops') as [w|e| | |]; try contradiction.
      * destruct IH as [I1 I2]. split; [exact I1|rewrite app_length in I2; lia].
      * exact IH.
Qed.

Theorem to_io_failure v k :
  ser_err v = None -> (k < length (enc v))%nat ->
  to_io v (Some k) false = Err SerializeBufferFull \/ to_io v (Some k) false = Err CollectStrError.
Proof.
  intros H Hk. unfold to_io, serialize_with, ser_err, enc in *. destruct (ser_ops v) as [ops e]. cbn [snd fst] in *. subst e.
  pose proof (writer_run_ops_limited [] k false ops) as HR. cbn [app] in HR.
  destruct (run_ops writer_flavor _ ops) as [w|e| | |]; try contradiction.
  - destruct HR as [E L]. rewrite <- E in Hk. cbn [length] in L. lia.
  - destruct HR as [_ [-> | ->]]; auto.
Qed.

(* ---------------- reader ---------------- *)
Definition io_inv (s : ioreader) : Prop :=
  (io_cursor s <= io_end s)%nat /\ io_end s = length (io_scratch s).

Lemma splice_ok (buf : list byte) at_ bs :
  (at_ + length bs <= length buf)%nat ->
  exists buf', splice buf at_ bs = Some buf' /\ length buf' = length buf /\
               firstn at_ buf' = firstn at_ buf /\ firstn (length bs) (skipn at_ buf') = bs.
Proof.
  intro H. unfold splice. destruct (Nat.leb_spec (at_ + length bs) (length buf)); [|lia].
  eexists. split; [reflexivity|].
  assert (La : length (firstn at_ buf) = at_) by (apply firstn_length_le; lia).
  repeat split.
  - rewrite !app_length, La, skipn_length. lia.
  - rewrite firstn_app, La, Nat.sub_diag. cbn [firstn]. rewrite app_nil_r. apply firstn_all2. lia.
  - rewrite skipn_app, La, Nat.sub_diag. cbn [skipn].
    rewrite (skipn_all2 (firstn at_ buf)) by lia. cbn [app].
    rewrite firstn_app, Nat.sub_diag. cbn [firstn]. rewrite app_nil_r. apply firstn_all.
Qed.

Lemma read_exact_spec r n :
  match read_exact r n with
  | Ok (bs, r') => length bs = n /\ rd_data r = bs ++ rd_data r' /\
                   (rd_limit r = None -> rd_limit r' = None)
  | Err e => e = DeserializeUnexpectedEnd
  | _ => False
  end.
Proof.
  unfold read_exact.
  set (avail := match rd_limit r with Some k => Nat.min k (length (rd_data r)) | None => length (rd_data r) end).
  assert (Ha : (avail <= length (rd_data r))%nat) by (subst avail; destruct (rd_limit r); lia).
  destruct (Nat.ltb_spec avail n) as [Hlt|Hge]; [reflexivity|]. cbn [rd_data rd_limit].
  repeat split.
  - apply firstn_length_le. lia.
  - symmetry. apply firstn_skipn.
  - intro E. rewrite E. reflexivity.
Qed.

(* under the scratch invariant the reader flavour returns a value or an error and keeps
   the invariant: never a panic, never a write outside the scratch buffer *)
Lemma io_pop_inv s : io_inv s ->
  benign (io_pop s) /\ (forall b s', io_pop s = Ok (b, s') -> io_inv s').
Proof.
  intros [Hc He]. unfold io_pop. pose proof (read_exact_spec (io_rd s) 1) as H.
  destruct (read_exact (io_rd s) 1) as [[bs r']|e| | |]; try contradiction; cbn [bind].
  - destruct H as (L & _ & _). destruct bs as [|b [|b2 bs]]; try (cbn in L; lia).
    split; [exact I|]. intros b0 s' E. inversion E; subst. split; assumption.
  - split; [exact I|discriminate].
Qed.

Lemma io_take_inv n s : io_inv s ->
  benign (io_take_n n s) /\ (forall bs s', io_take_n n s = Ok (bs, s') -> io_inv s').
Proof.
  intros [Hc He]. unfold io_take_n.
  destruct (Nat.ltb_spec (io_end s) (io_cursor s)) as [Hx|Hx]; [lia|].
  destruct (N.ltb_spec (N.of_nat (io_end s - io_cursor s)) n) as [Hs|Hs]; [split; [exact I|discriminate]|].
  pose proof (read_exact_spec (io_rd s) (N.to_nat n)) as HR.
  destruct (read_exact (io_rd s) (N.to_nat n)) as [[bs r']|e| | |]; try contradiction; cbn [bind].
  - destruct HR as (L & _ & _).
    destruct (splice_ok (io_scratch s) (io_cursor s) bs ltac:(lia)) as (sc' & E & L' & _).
    rewrite E. split; [exact I|]. intros bs0 s' E0. inversion E0; subst. unfold io_inv. cbn. split; lia.
  - split; [exact I|discriminate].
Qed.

Theorem from_io_total t r scratch :
  benign (from_io t r scratch).
Proof.
  unfold from_io.
  assert (H0 : io_inv (ioreader_new r scratch)) by (unfold io_inv, ioreader_new; cbn; split; lia).
  destruct (de_benign_inv io_pop io_take_n io_inv io_pop_inv io_take_inv t _ H0) as [Hb Hi].
  destruct (de io_pop io_take_n t (ioreader_new r scratch)) as [[v s]|e| | |]; try contradiction; cbn [bind]; try exact I.
  destruct (Hi v s eq_refl) as [Hc He]. unfold io_finalize.
  destruct (Nat.ltb_spec (io_end s) (io_cursor s)); [lia|]. exact I.
Qed.

(* a reader that never fails, with at least as much scratch as there are bytes: the reader
   path is exactly the slice path, and the reader is left holding exactly the rest *)
Definition io_rel (s : ioreader) (l : list byte) : Prop :=
  io_inv s /\ rd_limit (io_rd s) = None /\ rd_data (io_rd s) = l /\ (length l <= io_end s - io_cursor s)%nat.

Lemma io_pop_sim s l : io_rel s l -> rrel io_rel (io_pop s) (slice_pop l).
Proof.
  intros ([Hc He] & Hl & Hd & Hroom). unfold io_pop, slice_pop, read_exact. rewrite Hl, Hd.
  destruct l as [|b r]; cbn [length Nat.ltb Nat.leb bind firstn skipn]; [reflexivity|].
  split; [reflexivity|]. unfold io_rel, io_inv. cbn. cbn [length] in Hroom. repeat split; try assumption; lia.
Qed.

Lemma io_take_sim n s l : io_rel s l -> rrel io_rel (io_take_n n s) (slice_take_n n l).
Proof.
  intros ([Hc He] & Hl & Hd & Hroom). unfold io_take_n, slice_take_n.
  destruct (Nat.ltb_spec (io_end s) (io_cursor s)); [lia|].
  destruct (N.ltb_spec (N.of_nat (length l)) n) as [Hn|Hn].
  - (* not enough bytes: either the scratch or the reader reports the end *)
    destruct (N.ltb_spec (N.of_nat (io_end s - io_cursor s)) n); [reflexivity|].
    unfold read_exact. rewrite Hl, Hd. destruct (Nat.ltb_spec (length l) (N.to_nat n)); [reflexivity|lia].
  - destruct (N.ltb_spec (N.of_nat (io_end s - io_cursor s)) n); [lia|].
    unfold read_exact. rewrite Hl, Hd. destruct (Nat.ltb_spec (length l) (N.to_nat n)); [lia|]. cbn [bind].
    assert (Lf : length (firstn (N.to_nat n) l) = N.to_nat n) by (apply firstn_length_le; lia).
    destruct (splice_ok (io_scratch s) (io_cursor s) (firstn (N.to_nat n) l) ltac:(lia)) as (sc' & E & L' & _).
    rewrite E. split; [reflexivity|]. unfold io_rel, io_inv. cbn. rewrite skipn_length. repeat split; lia.
Qed.

Theorem from_io_is_slice t input scratch :
  (length input <= length scratch)%nat ->
  match from_io t {| rd_data := input; rd_limit := None |} scratch, de_slice t input with
  | Ok (v, (rd, _, _)), Ok (v', rest) => v = v' /\ rd_data rd = rest /\ rd_limit rd = None
  | Err e, Err e' => e = e'
  | _, _ => False
  end.
Proof.
  intro Hlen. unfold from_io.
  assert (H0 : io_rel (ioreader_new {| rd_data := input; rd_limit := None |} scratch) input).
  { unfold io_rel, io_inv, ioreader_new. cbn. repeat split; lia. }
  pose proof (de_sim io_rel io_pop io_take_n slice_pop slice_take_n io_pop_sim io_take_sim t _ _ H0) as H.
  fold (de_slice t input) in H.
  assert (HB : benign (de_slice t input)).
  { apply de_benign; [intros [|b r]; exact I|]. intros n l. unfold slice_take_n. destruct (_ <? _); exact I. }
  destruct (de io_pop io_take_n t _) as [[v s]|e| | |], (de_slice t input) as [[v' rest]|e'| | |];
    cbn in H, HB; try contradiction; cbn [bind]; try assumption.
  destruct H as [-> ([Hc He] & Hl & Hd & _)]. unfold io_finalize.
  destruct (Nat.ltb_spec (io_end s) (io_cursor s)); [lia|]. cbn. auto.
Qed.

(* borrowed data: each try_take_n fills the next slot of the scratch buffer and leaves the
   earlier slots alone (consecutive, disjoint, in decode order) *)
Theorem scratch_slots n s bs s' :
  io_inv s -> io_take_n n s = Ok (bs, s') ->
  io_cursor s' = (io_cursor s + N.to_nat n)%nat /\ (io_cursor s' <= length (io_scratch s'))%nat /\
  length (io_scratch s') = length (io_scratch s) /\
  firstn (io_cursor s) (io_scratch s') = firstn (io_cursor s) (io_scratch s) /\
  firstn (N.to_nat n) (skipn (io_cursor s) (io_scratch s')) = bs.
Proof.
  intros [Hc He] H. unfold io_take_n in H.
  destruct (Nat.ltb_spec (io_end s) (io_cursor s)); [lia|].
  destruct (N.ltb_spec (N.of_nat (io_end s - io_cursor s)) n) as [Hs|Hs]; [discriminate|].
  pose proof (read_exact_spec (io_rd s) (N.to_nat n)) as HR.
  destruct (read_exact (io_rd s) (N.to_nat n)) as [[bs0 r']|e| | |]; try contradiction; try discriminate. cbn [bind] in H.
  destruct HR as (L & _ & _).
  destruct (splice_ok (io_scratch s) (io_cursor s) bs0 ltac:(lia)) as (sc' & E & L' & F & G).
  rewrite E in H. inversion H; subst. cbn. rewrite L in G. repeat split; try assumption; lia.
Qed.
