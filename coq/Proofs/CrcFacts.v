(* CrcFacts.v: C10.  CRC framing: the output is the plain encoding followed by the
   little-endian checksum of exactly those bytes; and whatever CRC-checked decoding accepts,
   the bytes it consumed for the value are followed by their correct checksum. *)
From Coq Require Import Lia ZifyBool ZifyNat ZifyN.
From PV Require Import Base MachineInt DataModel Ser De Cobs Crc SerFlavors DeFlavors
  BaseFacts ValueInd Simulation PtrSlice Benign SerFacts DeFacts.
Open Scope N_scope.

(* ---------------- serialisation ---------------- *)
Lemma crc_update_app a reg x y : crc_update a reg (x ++ y) = crc_update a (crc_update a reg x) y.
Proof. unfold crc_update. apply fold_left_app. Qed.

Lemma alloc_push_bytes s bs : extend_by_push (sf_push alloc_flavor) s bs = Ok (s ++ bs).
Proof.
  revert s; induction bs as [|b bs IH]; intro s; cbn [extend_by_push]; [now rewrite app_nil_r|].
  cbn [alloc_flavor sf_push bind]. rewrite IH, <- app_assoc. reflexivity.
Qed.

Lemma crc_alloc_push_bytes alg s d bs :
  extend_by_push (crcm_push alloc_flavor alg) (s, d) bs = Ok (s ++ bs, crc_update alg d bs).
Proof.
  revert s d; induction bs as [|b bs IH]; intros s d; cbn [extend_by_push]; [now rewrite app_nil_r|].
  cbn [crcm_push alloc_flavor sf_push bind]. rewrite IH, <- app_assoc. f_equal.
Qed.

Lemma crc_alloc_run_ops alg nb s d ops :
  run_ops (crc_flavor alloc_flavor alg nb) (s, d) ops
  = Ok (s ++ flatten_ops ops, crc_update alg d (flatten_ops ops)).
Proof.
  revert s d; induction ops as [|o ops IH]; intros s d; cbn [run_ops].
  - unfold flatten_ops. cbn. now rewrite app_nil_r.
  - assert (E : flatten_ops (o :: ops) = op_bytes o ++ flatten_ops ops) by reflexivity. rewrite E.
    assert (Ho : run_op (crc_flavor alloc_flavor alg nb) (s, d) o = Ok (s ++ op_bytes o, crc_update alg d (op_bytes o))).
    { destruct o; cbn [run_op crc_flavor sf_push sf_extend op_bytes].
      - cbn [crcm_push alloc_flavor sf_push bind map_err]. reflexivity.
      - rewrite crc_alloc_push_bytes. reflexivity.
      - rewrite crc_alloc_push_bytes. reflexivity. }
    rewrite Ho. cbn [bind]. rewrite IH, <- app_assoc, crc_update_app. reflexivity.
Qed.

Theorem crc_output alg nb v :
  ser_err v = None ->
  to_allocvec_crc alg nb v = Ok (enc v ++ le_bytes nb (crc alg (enc v))).
Proof.
  intro H. unfold to_allocvec_crc, serialize_with, ser_err, enc in *.
  destruct (ser_ops v) as [ops e]. cbn [fst snd] in *. subst e.
  rewrite crc_alloc_run_ops. cbn [bind app crc_flavor sf_finalize crcm_finalize].
  rewrite alloc_push_bytes. cbn [bind alloc_flavor sf_finalize map_err]. reflexivity.
Qed.

(* ---------------- deserialisation ---------------- *)
(* a slice flavour that remembers what it has consumed *)
Definition tr_pop (st : list byte * list byte) : res (byte * (list byte * list byte)) :=
  match snd st with
  | [] => Err DeserializeUnexpectedEnd
  | b :: r => Ok (b, (fst st ++ [b], r))
  end.
Definition tr_take (n : N) (st : list byte * list byte) : res (list byte * (list byte * list byte)) :=
  if N.of_nat (length (snd st)) <? n then Err DeserializeUnexpectedEnd
  else Ok (firstn (N.to_nat n) (snd st), (fst st ++ firstn (N.to_nat n) (snd st), skipn (N.to_nat n) (snd st))).

Section CrcSim.
  Variable alg : crc_alg.
  Variable input : list byte.
  Definition crc_rel (st : dslice * N) (tr : list byte * list byte) : Prop :=
    ptr_inv (fst st) (snd tr) /\ snd st = crc_update alg (crc_init_reg alg) (fst tr) /\
    ds_input (fst st) = input /\ input = fst tr ++ snd tr.

  Lemma crc_pop_sim st tr : crc_rel st tr -> rrel crc_rel (crcd_pop alg st) (tr_pop tr).
  Proof.
    destruct st as [ds reg], tr as [c l]. intros (Hp & Hr & Hi & Hin). cbn [fst snd] in *.
    unfold crcd_pop, tr_pop. cbn [fst snd].
    pose proof (ptr_pop_sim ds l Hp) as H. unfold slice_pop in H.
    destruct (dslice_pop ds) as [[b ds']|e| | |] eqn:Ed, l as [|b' r]; cbn in H; try contradiction; cbn [bind]; try assumption.
    destruct H as [<- Hp']. split; [reflexivity|]. unfold crc_rel. cbn [fst snd].
    refine (conj Hp' (conj _ (conj _ _))).
    - subst reg. rewrite crc_update_app. reflexivity.
    - unfold dslice_pop in Ed. destruct (Nat.eqb _ _); [discriminate|]. destruct (read_at _ _); [|discriminate].
      injection Ed as _ <-. exact Hi.
    - rewrite <- app_assoc. exact Hin.
  Qed.

  Lemma crc_take_sim n st tr : crc_rel st tr -> rrel crc_rel (crcd_take_n alg n st) (tr_take n tr).
  Proof.
    destruct st as [ds reg], tr as [c l]. intros (Hp & Hr & Hi & Hin). cbn [fst snd] in *.
    unfold crcd_take_n, tr_take. cbn [fst snd].
    pose proof (ptr_take_sim n ds l Hp) as H. unfold slice_take_n in H.
    destruct (dslice_take_n n ds) as [[bs ds']|e| | |] eqn:Ed; destruct (N.of_nat (length l) <? n); cbn in H;
      try contradiction; cbn [bind]; try assumption.
    destruct H as [-> Hp']. split; [reflexivity|]. unfold crc_rel. cbn [fst snd].
    refine (conj Hp' (conj _ (conj _ _))).
    - subst reg. rewrite crc_update_app. reflexivity.
    - destruct (take_n_in_input n ds l _ ds' Hp Ed) as (_ & _ & _ & E). congruence.
    - rewrite <- app_assoc, firstn_skipn. exact Hin.
  Qed.
End CrcSim.

(* the tracking flavour is the plain slice flavour plus bookkeeping *)
Lemma tr_pop_sim tr l : snd tr = l -> rrel (fun a b => snd a = b) (tr_pop tr) (slice_pop l).
Proof. destruct tr as [c l']. cbn. intros ->. destruct l; cbn; auto. Qed.
Lemma tr_take_sim n tr l : snd tr = l -> rrel (fun a b => snd a = b) (tr_take n tr) (slice_take_n n l).
Proof.
  destruct tr as [c l']. cbn. intros ->. unfold tr_take, slice_take_n. cbn [snd fst].
  destruct (_ <? _); cbn; auto.
Qed.

(* whenever CRC-checked decoding succeeds on any input, the input is
   (bytes consumed for the value) ++ (their checksum, little endian) ++ (the remainder),
   and the value and the consumed length are those of plain decoding *)
Theorem crc_accept_sound alg nb t input v rest :
  take_from_bytes_crc alg nb t input = Ok (v, rest) ->
  exists c crcb,
    input = c ++ crcb ++ rest /\ length crcb = nb /\
    of_le_bytes crcb = crc alg c /\
    de_slice t input = Ok (v, crcb ++ rest).
Proof.
  unfold take_from_bytes_crc. intro H.
  assert (H0 : crc_rel alg input (dslice_new input, crc_init_reg alg) ([], input)).
  { unfold crc_rel, ptr_inv, dslice_new. cbn. repeat split; lia. }
  pose proof (de_sim (crc_rel alg input) (crcd_pop alg) (crcd_take_n alg) tr_pop tr_take
                     (crc_pop_sim alg input) (crc_take_sim alg input) t _ _ H0) as HS.
  pose proof (de_sim (fun a b => snd a = b) tr_pop tr_take slice_pop slice_take_n tr_pop_sim tr_take_sim
                     t ([], input) input eq_refl) as HT.
  fold (de_slice t input) in HT.
  destruct (de (crcd_pop alg) (crcd_take_n alg) t _) as [[v1 [ds reg]]|e| | |]; try discriminate. cbn [bind] in H.
  destruct (de tr_pop tr_take t ([], input)) as [[v2 [c l]]|e| | |]; cbn in HS; try contradiction.
  destruct HS as [<- (Hp & Hr & Hi & Hin)]. cbn [fst snd] in *.
  destruct (de_slice t input) as [[v3 l3]|e| | |]; cbn in HT; try contradiction. destruct HT as [<- <-].
  unfold crcd_finalize in H. cbn [fst snd] in H.
  pose proof (ptr_take_sim (N.of_nat nb) ds l Hp) as HK. unfold slice_take_n in HK.
  destruct (dslice_take_n (N.of_nat nb) ds) as [[crcb ds1]|e| | |]; try discriminate. cbn [bind] in H.
  destruct (N.of_nat (length l) <? N.of_nat nb) eqn:El; cbn in HK; try contradiction.
  destruct HK as [Ec Hp1]. rewrite (ptr_finalize ds1 _ Hp1) in H. cbn [bind] in H.
  destruct (N.eqb_spec (crc_finalize alg reg) (of_le_bytes crcb)) as [Eq|]; [|discriminate].
  inversion H; subst v1 rest. exists c, crcb. rewrite Nat2N.id in *. repeat split.
  - rewrite Ec, firstn_skipn. exact Hin.
  - rewrite Ec. apply firstn_length_le. lia.
  - rewrite <- Eq. subst reg. reflexivity.
  - rewrite Ec, firstn_skipn. reflexivity.
Qed.

(* ---------------- bounds: a checksum fits its width ---------------- *)
Definition wf_alg (a : crc_alg) : Prop :=
  1 <= c_width a /\ c_poly a < 2 ^ c_width a /\ c_init a < 2 ^ c_width a /\ c_xorout a < 2 ^ c_width a.

Lemma fits_iff x w : x < 2 ^ w <-> N.land x (N.ones w) = x.
Proof.
  rewrite N.land_ones. split; intro H.
  - apply N.mod_small, H.
  - rewrite <- H. apply N.mod_lt, N.pow_nonzero. discriminate.
Qed.
Lemma lxor_bound a b w : a < 2 ^ w -> b < 2 ^ w -> N.lxor a b < 2 ^ w.
Proof.
  rewrite !fits_iff. intros Ha Hb.
  apply N.bits_inj; intro n. rewrite N.land_spec, N.lxor_spec.
  rewrite <- Ha, <- Hb at 2. rewrite !N.land_spec.
  destruct (N.testbit a n), (N.testbit b n), (N.testbit (N.ones w) n); reflexivity.
Qed.
Lemma lor_bound a b w : a < 2 ^ w -> b < 2 ^ w -> N.lor a b < 2 ^ w.
Proof.
  rewrite !fits_iff. intros Ha Hb.
  apply N.bits_inj; intro n. rewrite N.land_spec, N.lor_spec.
  rewrite <- Ha, <- Hb at 2. rewrite !N.land_spec.
  destruct (N.testbit a n), (N.testbit b n), (N.testbit (N.ones w) n); reflexivity.
Qed.

Lemma reflect_bits_bound n v : reflect_bits n v < 2 ^ N.of_nat n.
Proof.
  revert v; induction n as [|n IH]; intro v; cbn [reflect_bits]; [simpl; lia|].
  replace (N.of_nat (S n)) with (N.succ (N.of_nat n)) by lia.
  apply lor_bound.
  - rewrite N.shiftl_mul_pow2, N.pow_succ_r'.
    assert (N.land v 1 < 2).
    { change 1 with (N.ones 1). rewrite N.land_ones. apply N.mod_lt. discriminate. }
    assert (0 < 2 ^ N.of_nat n) by (apply N.neq_0_lt_0, N.pow_nonzero; discriminate). nia.
  - eapply N.lt_le_trans; [apply IH|]. apply N.pow_le_mono_r; lia.
Qed.

Lemma crc_step_bound a reg bit : wf_alg a -> crc_step_bit a reg bit < 2 ^ c_width a.
Proof.
  intros (Hw & Hp & _). unfold crc_step_bit, crc_mask. cbv zeta.
  assert (Hs : N.land (N.shiftl reg 1) (N.ones (c_width a)) < 2 ^ c_width a).
  { rewrite N.land_ones. apply N.mod_lt, N.pow_nonzero. discriminate. }
  destruct (xorb _ _); [apply lxor_bound; assumption|assumption].
Qed.

Lemma crc_update_byte_bound a reg b : wf_alg a -> reg < 2 ^ c_width a -> crc_update_byte a reg b < 2 ^ c_width a.
Proof.
  intros Hwf Hr. unfold crc_update_byte. cbv zeta. set (l := byte_bits_msb 8 _). clearbody l.
  revert reg Hr; induction l as [|x l IH]; intros reg Hr; cbn [fold_left]; [assumption|].
  apply IH. apply crc_step_bound, Hwf.
Qed.

Lemma crc_update_bound a reg bs : wf_alg a -> reg < 2 ^ c_width a -> crc_update a reg bs < 2 ^ c_width a.
Proof.
  intros Hwf. unfold crc_update. revert reg; induction bs as [|b bs IH]; intros reg Hr; cbn [fold_left]; [assumption|].
  apply IH. apply crc_update_byte_bound; assumption.
Qed.

Theorem crc_bound a bs : wf_alg a -> crc a bs < 2 ^ c_width a.
Proof.
  intros Hwf. pose proof Hwf as (Hw & Hp & Hi & Hx). unfold crc, crc_finalize, crc_init_reg.
  apply lxor_bound; [|assumption].
  pose proof (crc_update_bound a (c_init a) bs Hwf Hi) as Hb.
  destruct (c_refout a); [|assumption].
  pose proof (reflect_bits_bound (N.to_nat (c_width a)) (crc_update a (c_init a) bs)) as H.
  rewrite N2Nat.id in H. exact H.
Qed.

(* ---------------- round trip ---------------- *)
Theorem crc_roundtrip alg nb t v rest :
  wf_alg alg -> 2 ^ c_width alg <= 256 ^ N.of_nat nb ->
  has_type v t = true -> bytes_ok rest ->
  take_from_bytes_crc alg nb t (enc v ++ le_bytes nb (crc alg (enc v)) ++ rest) = Ok (v, rest).
Proof.
  intros Hwf Hnb Ht Hr. set (crcb := le_bytes nb (crc alg (enc v))). set (input := enc v ++ crcb ++ rest).
  assert (Hplain : de_slice t input = Ok (v, crcb ++ rest)).
  { apply roundtrip; [assumption|]. apply bytes_ok_app. split; [apply le_bytes_ok|assumption]. }
  unfold take_from_bytes_crc.
  assert (H0 : crc_rel alg input (dslice_new input, crc_init_reg alg) ([], input)).
  { unfold crc_rel, ptr_inv, dslice_new. cbn. repeat split; lia. }
  pose proof (de_sim (crc_rel alg input) (crcd_pop alg) (crcd_take_n alg) tr_pop tr_take
                     (crc_pop_sim alg input) (crc_take_sim alg input) t _ _ H0) as HS.
  pose proof (de_sim (fun a b => snd a = b) tr_pop tr_take slice_pop slice_take_n tr_pop_sim tr_take_sim
                     t ([], input) input eq_refl) as HT.
  fold (de_slice t input) in HT. rewrite Hplain in HT.
  destruct (de tr_pop tr_take t ([], input)) as [[v2 [c l]]|e| | |]; cbn in HT; try contradiction.
  destruct HT as [-> El]. cbn [snd] in El. subst l.
  destruct (de (crcd_pop alg) (crcd_take_n alg) t _) as [[v1 [ds reg]]|e| | |]; cbn in HS; try contradiction.
  destruct HS as [-> (Hp & Hreg & Hi & Hin)]. cbn [fst snd bind] in *.
  assert (Ec : c = enc v).
  { unfold input in Hin. apply app_inv_tail in Hin. symmetry. exact Hin. }
  unfold crcd_finalize. cbn [fst snd].
  pose proof (ptr_take_sim (N.of_nat nb) ds (crcb ++ rest) Hp) as HK. unfold slice_take_n in HK.
  assert (Lc : length crcb = nb) by apply le_bytes_length.
  rewrite app_length, Lc in HK.
  destruct (N.ltb_spec (N.of_nat (nb + length rest)) (N.of_nat nb)); [lia|].
  destruct (dslice_take_n (N.of_nat nb) ds) as [[cb ds1]|e| | |]; cbn in HK; try contradiction.
  destruct HK as [-> Hp1]. rewrite Nat2N.id in *. cbn [bind].
  rewrite <- Lc in Hp1 |- *. rewrite firstn_app, Nat.sub_diag, firstn_all in *. cbn [firstn] in *. rewrite app_nil_r in *.
  rewrite skipn_app, Nat.sub_diag, skipn_all in Hp1. cbn [skipn app] in Hp1.
  rewrite (ptr_finalize ds1 rest Hp1). cbn [bind].
  subst reg c. unfold crcb. rewrite of_le_bytes_le_bytes.
  rewrite N.mod_small by (eapply N.lt_le_trans; [apply crc_bound; assumption|assumption]).
  fold (crc alg (enc v)). rewrite N.eqb_refl. reflexivity.
Qed.

(* acceptance pins the checksum: the nb bytes in front of the returned remainder are the
   checksum of everything in front of them *)
Theorem crc_accept_pins alg nb t c crcb rest v :
  length crcb = nb ->
  take_from_bytes_crc alg nb t (c ++ crcb ++ rest) = Ok (v, rest) ->
  of_le_bytes crcb = crc alg c /\ de_slice t (c ++ crcb ++ rest) = Ok (v, crcb ++ rest).
Proof.
  intros Hl H. destruct (crc_accept_sound _ _ _ _ _ _ H) as (c0 & crcb0 & E & L0 & Hc & Hd).
  rewrite !app_assoc in E. apply app_inv_tail in E.
  assert (c = c0 /\ crcb = crcb0) as [-> ->].
  { assert (length c = length c0).
    { apply (f_equal (@length byte)) in E. rewrite !app_length in E. lia. }
    split.
    - apply (f_equal (firstn (length c))) in E. rewrite firstn_app, Nat.sub_diag, firstn_all in E.
      cbn [firstn] in E. rewrite app_nil_r in E. rewrite E, H0, firstn_app, Nat.sub_diag, firstn_all. cbn [firstn].
      now rewrite app_nil_r.
    - apply (f_equal (skipn (length c))) in E. rewrite skipn_app, Nat.sub_diag, skipn_all in E.
      cbn [skipn app] in E. rewrite E, H0, skipn_app, Nat.sub_diag, skipn_all. reflexivity. }
  split; assumption.
Qed.
