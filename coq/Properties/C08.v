(* C08: the accumulator delivers every frame exactly once, however the stream is chunked. *)
From PV Require Import Base MachineInt DataModel De Cobs CobsRef DeFlavors Accumulator CobsEntry AccFacts AccInterp AccAstFacts.
Open Scope N_scope.

(* For every way of cutting the stream into feed calls (the universally quantified `chunks`,
   each driven through the documented loop that re-feeds returned remainders), every
   capacity and every target type: if each zero-terminated segment and the tail fit, the
   events reported are exactly those of the byte-stream reference semantics on the
   concatenation - which does not see the cuts - and what stays buffered is its tail. *)
Theorem C08_every_chunking : forall (t : ty) (chunks : list (list byte)) (st : acc_st),
  acc_inv st -> fits_stream (cap_of st) (a_idx st) (concat chunks) ->
  exists st' rs, drive_all t st chunks = Ok (st', rs) /\
                 events_of rs = fst (spec t (buffered st) (concat chunks)) /\
                 buffered st' = snd (spec t (buffered st) (concat chunks)) /\
                 acc_inv st' /\ cap_of st' = cap_of st.
Proof. exact exactly_once. Qed.

(* the reference semantics on a stream of zero-terminated segments followed by an
   unterminated tail: exactly one result per zero byte, in stream order, each equal to
   decoding that segment in isolation (COBS-decode, then plain-decode: C07); the tail stays *)
Theorem C08_one_result_per_frame : forall (t : ty) (segs : list (list byte)) (tail : list byte),
  Forall nonzero segs -> nonzero tail ->
  spec t [] (frames segs tail) = (map (fun s => dec_ev t (s ++ [0])) segs, tail).
Proof. exact spec_frames. Qed.

Theorem C08_frames_fit : forall (cap : nat) (segs : list (list byte)) (tail : list byte),
  Forall nonzero segs -> nonzero tail ->
  Forall (fun s => (length s + 1 <= cap)%nat) segs -> (length tail <= cap)%nat ->
  fits_stream cap 0 (frames segs tail).
Proof. exact fits_frames. Qed.

(* put together, from a fresh accumulator of capacity N *)
Theorem C08_exactly_once : forall (t : ty) (cap : nat) (segs : list (list byte)) (tail : list byte) (chunks : list (list byte)),
  Forall nonzero segs -> nonzero tail ->
  Forall (fun s => (length s + 1 <= cap)%nat) segs -> (length tail <= cap)%nat ->
  concat chunks = frames segs tail ->
  exists st' rs, drive_all t (acc_new cap) chunks = Ok (st', rs) /\
                 events_of rs = map (fun s => dec_ev t (s ++ [0])) segs /\ buffered st' = tail.
Proof. exact exactly_once_frames. Qed.

(* no input byte is lost, duplicated or reordered: the remainder a call returns is the tail
   of the chunk it was given *)
Theorem C08_conservation : forall (t : ty) (st : acc_st) (input : list byte) (st' : acc_st) (r : feed_result),
  acc_inv st -> feed t st input = Ok (st', r) -> exists consumed, input = consumed ++ remaining r.
Proof. exact feed_conserves. Qed.

(* non-vacuity: a two-frame stream cut at an awkward place *)
Example C08_example :
  drive_all (TInt U8) (acc_new 4) [[2; 7]; [0; 2]; [9; 0; 3]] =
  Ok ({| a_buf := [3; 9; 0; 0]; a_idx := 1 |},
      [Consumed; Success (VInt U8 7) [2]; Consumed; Success (VInt U8 9) [3]; Consumed]).
Proof. vm_compute. reflexivity. Qed.

(* the accumulator step of these theorems is what the body of CobsAccumulator::feed_ref computes:
   the body is re-read from accumulator.rs on every run as a statement tree (conditions,
   assignments to idx, extend_unchecked, the decode, every return) and interpreted *)
Theorem C08_step_is_the_source : forall (t : ty) (st : acc_st) (input : list byte),
  feed_ast t st input = feed t st input.
Proof. exact feed_ast_is_feed. Qed.

Print Assumptions C08_every_chunking.
Print Assumptions C08_one_result_per_frame.
Print Assumptions C08_frames_fit.
Print Assumptions C08_exactly_once.
Print Assumptions C08_conservation.
Print Assumptions C08_step_is_the_source.
