(* C17: the dynamic (schema-driven) codec agrees with the static codec and serde_json.
   Only statements, `exact`, and Print Assumptions live here.

   conforms d v s: the named data-model items v (what a type's Serialize emits) conform to
   schema s (C14); json_of: serde_json::to_value on those items; unamb / in_scope: the
   property's own restrictions (integers within i64 / u64, finite floats, string-keyed maps
   with ascending keys; no embedded-schema kind, nothing nullable directly inside Option,
   distinct field and variant names); dyn_ser: to_stdvec_dyn; enc: the static encoder of
   C01/C02.  The host's float conversions are parameters; the only fact used about them is
   that widening an f32 and narrowing it back is the identity. *)
From PV Require Import Base MachineInt VarintParams GenLoops DataModel Schema SchemaConv Conform Dyn JsonOf Ser VarintCore DynAgree DynAgreeDe.
Open Scope N_scope.

(* encoding the serde_json form of a value under its schema yields exactly the bytes the static
   encoder yields - for every schema, every conforming value *)
Theorem C17_encode_agrees : forall int_to_f64 narrow widen,
  (forall b, b < 2 ^ 32 -> f32_finite b = true -> narrow (widen b) = b) ->
  forall d v s, conforms d v s = true -> unamb v = true -> in_scope s = true ->
  dyn_ser int_to_f64 narrow s (json_of widen v) = DOk (enc (erase v)).
Proof. exact ser_agree_enc. Qed.

(* decoding the static encoder's bytes under the schema yields exactly the serde_json form.
   small_seqs v (every sequence and map in v has at most 65536 elements) only matters for
   elements that occupy no bytes: a longer run of those is known finding F9 of C18, where the
   model answers DUnbounded instead of materialising the list *)
Theorem C17_decode_agrees : forall widen d v s,
  conforms d v s = true -> unamb v = true -> in_scope s = true -> small_seqs v = true ->
  from_slice_dyn widen s (enc (erase v)) = DOk (json_of widen v).
Proof. exact de_agree_enc. Qed.

(* the crate's private copies of the varint writers are the core's *)
Theorem C17_private_copies_agree : dyn_writers = core_writers.
Proof. exact dyn_writers_std. Qed.

(* non-vacuity: enum E { A, B { x: u8, y: i16 } } inside Option inside Vec, with a float *)
Example C17_example :
  let s := STuple [SSeq (SOption (SEnum [69] [([65], DUnit, []); ([66], DStruct, [([120], SPrim PU8); ([121], SPrim PI16)])])); SPrim PF32] in
  let v := NTuple [NSeq [NSome (NVariant [69] 1 [66] (NStruct [66] [([120], NInt U8 7); ([121], NInt I16 (-2))])); NNone;
                         NSome (NVariant [69] 0 [65] (NUnitStruct [65]))]; NF32 1069547520] in
  conforms 1 v s = true /\ unamb v = true /\ in_scope s = true /\ small_seqs v = true /\
  from_slice_dyn (fun b => 4609434218613702656) s (enc (erase v)) = DOk (json_of (fun b => 4609434218613702656) v) /\
  dyn_ser (fun _ => 0) (fun b => 1069547520) s (json_of (fun b => 4609434218613702656) v) = DOk (enc (erase v)).
Proof. repeat split; vm_compute; reflexivity. Qed.

Print Assumptions C17_encode_agrees.
Print Assumptions C17_decode_agrees.
Print Assumptions C17_private_copies_agree.
