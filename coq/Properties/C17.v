(* C17: the dynamic (schema-driven) codec agrees with the static codec and serde_json.
   Only statements, `exact`, and Print Assumptions live here.

   conforms d v s: the named data-model items v (what a type's Serialize emits) conform to
   schema s (C14); json_of: serde_json::to_value on those items; unamb / in_scope: the
   property's own restrictions (integers within i64 / u64, finite floats, string-keyed maps
   with ascending keys; no embedded-schema kind, nothing nullable directly inside Option,
   distinct field and variant names); dyn_ser: to_stdvec_dyn; enc: the static encoder of
   C01/C02.  The host's float conversions are parameters; the only fact used about them is
   that widening an f32 and narrowing it back is the identity. *)
From PV Require Import Base MachineInt VarintParams GenLoops DataModel Schema SchemaConv Conform Dyn JsonOf Ser VarintCore DynAgree DynAgreeDe DynArmDecl GenDynArms DynArms DynCompositeExpected GenDynComposite GenDynHelpers DynArmFacts.
From PV Require Import DynSizeDefs DynAgreeNz.
Open Scope N_scope.

(* encoding the serde_json form of a value under its schema yields exactly the bytes the static
   encoder yields - for every schema, every conforming value *)
Theorem C17_encode_agrees : forall int_to_f64 narrow widen,
  (forall b, b < 2 ^ 32 -> f32_finite b = true -> narrow (widen b) = b) ->
  forall d v s, conforms d v s = true -> unamb v = true -> in_scope s = true ->
  dyn_ser int_to_f64 narrow s (json_of widen v) = DOk (enc (erase v)).
Proof. exact ser_agree_enc. Qed.

(* decoding the static encoder's bytes under the schema yields exactly the serde_json form.
   small_seqs v: every sequence in v either has at most 65536 elements or has no element with an
   empty encoding (maps need nothing: an entry starts with its key's length prefix).  What it
   excludes is exactly a run of more than 65536 elements that occupy no bytes: known finding F9 of
   C18, where the model answers DUnbounded instead of materialising the list *)
Theorem C17_decode_agrees : forall widen d v s,
  conforms d v s = true -> unamb v = true -> in_scope s = true -> small_seqs v = true ->
  from_slice_dyn widen s (enc (erase v)) = DOk (json_of widen v).
Proof. exact de_agree_enc. Qed.

(* ... and with the restriction put on the schema instead of on sizes: for every schema without a
   sequence of zero-width elements (dno_zero, the complement of F9's class, as in
   C18_allocation_bounded) the decoding direction holds for every conforming value, of any size:
   such a value's encoding is at least dmin s bytes long, so no count can exceed the bytes that
   follow it *)
Theorem C17_decode_agrees_any_size : forall widen d v s,
  conforms d v s = true -> unamb v = true -> in_scope s = true -> dno_zero s = true ->
  from_slice_dyn widen s (enc (erase v)) = DOk (json_of widen v).
Proof. exact de_agree_enc_nz. Qed.

(* the crate's private copies of the varint writers are the core's *)
Theorem C17_private_copies_agree : dyn_writers = core_writers.
Proof. exact dyn_writers_std. Qed.

(* the model's scalar encoder is what the arms of ser_named_type in postcard-dyn/src/ser.rs say:
   for each numeric / boolean kind, Dyn.ser_prim equals the interpretation of the arm the
   translator read (accessor, try_from / from / `as f32` conversion, zig-zag width, emitter with
   its varint_max type and varint function), for every serde_json integer, float, or other value *)
Theorem C17_scalar_arms_are_the_source : forall int_to_f64 narrow p j, json_int_ok j ->
  match ser_prim_via_arms int_to_f64 narrow p j with
  | Some r => ser_prim int_to_f64 narrow p j = r
  | None => True
  end.
Proof. exact ser_prim_is_source. Qed.

(* ... and the translated table has an arm for each of the fourteen kinds *)
Theorem C17_scalar_arms_cover : forall int_to_f64 narrow p,
  match p with
  | PBool | PI8 | PU8 | PI16 | PI32 | PI64 | PI128 | PU16 | PU32 | PU64 | PU128 | PUsize | PF32 | PF64 =>
    ser_prim_via_arms int_to_f64 narrow p JNull <> None
  | _ => True
  end.
Proof. exact arms_cover. Qed.

(* the same for the decoder: for each numeric / boolean kind, Dyn.de_prim equals the
   interpretation of the arm of `deserialize` in postcard-dyn/src/de.rs (what is taken from the
   input, zig-zag width, i64 / u64 try_from with its error, from_le_bytes width, how the Value is
   built), on every input *)
Theorem C17_decoder_scalar_arms_are_the_source : forall widen p bs,
  match de_prim_via_arms widen p bs with
  | Some r => de_prim widen p bs = r
  | None => True
  end.
Proof. exact de_prim_is_source. Qed.

Theorem C17_decoder_scalar_arms_cover : forall widen p,
  match p with
  | PBool | PI8 | PU8 | PI16 | PI32 | PI64 | PI128 | PU16 | PU32 | PU64 | PU128 | PUsize | PF32 | PF64 =>
    de_prim_via_arms widen p [] <> None
  | _ => True
  end.
Proof. exact de_arms_cover. Qed.

(* non-vacuity: enum E { A, B { x: u8, y: i16 } } inside Option inside Vec, with a float *)
Example C17_example :
  let s := STuple [SSeq (SOption (SEnum [69] [([65], DUnit, []); ([66], DStruct, [([120], SPrim PU8); ([121], SPrim PI16)])])); SPrim PF32] in
  let v := NTuple [NSeq [NSome (NVariant [69] 1 [66] (NStruct [66] [([120], NInt U8 7); ([121], NInt I16 (-2))])); NNone;
                         NSome (NVariant [69] 0 [65] (NUnitStruct [65]))]; NF32 1069547520] in
  conforms 1 v s = true /\ unamb v = true /\ in_scope s = true /\ small_seqs v = true /\
  from_slice_dyn (fun b => 4609434218613702656) s (enc (erase v)) = DOk (json_of (fun b => 4609434218613702656) v) /\
  dyn_ser (fun _ => 0) (fun b => 1069547520) s (json_of (fun b => 4609434218613702656) v) = DOk (enc (erase v)).
Proof. repeat split; vm_compute; reflexivity. Qed.

(* the non-scalar arms of both walks (strings, chars, byte arrays, options, sequences, tuples,
   maps, structs, enums, pointer-sized integers, the schema kind) are, token for token up to
   renaming of locals, the code the hand model Dyn.v was written from
   (tools/dyn_arm_templates.json), with the same error kinds and tag bytes at the holes *)
Theorem C17_composite_arms_are_the_source :
  dyn_ser_composite_holes = dyn_ser_composite_expected /\ dyn_de_composite_holes = dyn_de_composite_expected.
Proof. exact dyn_composite_is_source. Qed.

(* ... and so are the helpers around them (to_stdvec_dyn / from_slice_dyn, Option::right and
   From<TryFromIntError> with their error kind, the bounds-checked take_one / take_n) *)
Theorem C17_helpers_are_the_source :
  dynser_fns_matched = [[102; 114; 111; 109]; [114; 105; 103; 104; 116]; [116; 111; 95; 115; 116; 100; 118; 101; 99; 95; 100; 121; 110]] /\
  dynde_fns_matched = [[102; 114; 111; 109; 95; 115; 108; 105; 99; 101; 95; 100; 121; 110]; [114; 105; 103; 104; 116]; [116; 97; 107; 101; 95; 111; 110; 101]].
Proof. exact dyn_helpers_are_source. Qed.

Print Assumptions C17_encode_agrees.
Print Assumptions C17_decode_agrees.
Print Assumptions C17_private_copies_agree.
Print Assumptions C17_scalar_arms_are_the_source.
Print Assumptions C17_scalar_arms_cover.
Print Assumptions C17_decoder_scalar_arms_are_the_source.
Print Assumptions C17_decoder_scalar_arms_cover.
Print Assumptions C17_composite_arms_are_the_source.
Print Assumptions C17_helpers_are_the_source.
Print Assumptions C17_decode_agrees_any_size.
