(* C17: placeholder while the dynamic-codec model is being validated against the crate. *)
From PV Require Import Base MachineInt VarintParams GenArith GenLoops Varint VarintCore.
Theorem C17_private_copies_agree : dyn_writers = core_writers.
Proof. exact dyn_writers_std. Qed.
Print Assumptions C17_private_copies_agree.
