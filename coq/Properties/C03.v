(* C03: the decoder accepts exactly the encodings the specification allows. *)
From PV Require Import Base MachineInt VarintParams GenArith GenLoops Varint Utf8 DataModel Ser De
  WireFormat VarintFacts VarintCore DeFacts DeSpec Locality DeMethods DeMethodFacts.
From PV Require Import GenErrorImpls.
Open Scope N_scope.

(* On every input the bit-level decoder of the implementation (varint loops with the
   constants found in the source, translated zig-zag expressions, `as i8` cast) computes
   exactly what the arithmetic reference decoder written from wire-format.md computes:
   same acceptance, same value, same remainder, same error kind. *)
Theorem C03_de_is_spec : forall (t : ty) (l : list byte),
  bytes_ok l -> de_slice t l = spec_de t l.
Proof. exact de_is_spec. Qed.

(* the reference varint reader accepts exactly the permitted encodings: at most
   ceil(w/7) bytes, continuation flags right, value below 2^w - non-minimal ones included -
   and returns the value together with the untouched rest *)
Theorem C03_varint_exact : forall (w : N) (l : list byte) (n : N) (rest : list byte),
  bytes_ok l ->
  (sd_varint w l = Ok (n, rest) <-> exists bs, l = bs ++ rest /\ valid_varint w bs n).
Proof.
  intros w l n rest Hl. unfold sd_varint. rewrite <- (spec_vread_iff w l n rest Hl).
  destruct (spec_vread w l); cbn [vspec_res]; split; intro H; inversion H; subst; reflexivity.
Qed.

(* truncation is reported as unexpected end exactly when the input is a run of
   continuation bytes shorter than the maximum; everything else that is not accepted is a
   bad varint (over-long or over-range) *)
Theorem C03_varint_errors : forall (w : N) (l : list byte),
  bytes_ok l ->
  (sd_varint w l = Err DeserializeUnexpectedEnd <->
   Forall (fun b => 128 <= b) l /\ N.of_nat (length l) < varint_max_len w) /\
  (forall e, sd_varint w l = Err e -> e = DeserializeUnexpectedEnd \/ e = DeserializeBadVarint).
Proof.
  intros w l Hl. split.
  - rewrite <- (spec_vread_end_iff w l Hl). unfold sd_varint.
    destruct (spec_vread w l); cbn [vspec_res]; split; intro H; try discriminate; reflexivity.
  - intros e. unfold sd_varint. destruct (spec_vread w l); cbn [vspec_res]; intro H; inversion H; auto.
Qed.

(* completeness on canonical encodings, with any trailing bytes handed back untouched *)
Theorem C03_accepts_encodings : forall (v : value) (t : ty) (rest : list byte),
  has_type v t = true -> bytes_ok rest -> spec_de t (spec_enc v ++ rest) = Ok (v, rest).
Proof.
  intros v t rest Ht Hr. rewrite <- de_is_spec.
  - apply roundtrip_spec; assumption.
  - apply BaseFacts.bytes_ok_app. split; [eapply spec_enc_ok; eassumption|assumption].
Qed.

(* the first violated rule names the error, per primitive (read off the reference decoder) *)
Theorem C03_primitive_errors : forall (b : byte) (r : list byte) (t : ty),
  (b <> 0 -> b <> 1 -> spec_de TBool (b :: r) = Err DeserializeBadBool) /\
  (b <> 0 -> b <> 1 -> spec_de (TOption t) (b :: r) = Err DeserializeBadOption) /\
  spec_de TBool [] = Err DeserializeUnexpectedEnd /\
  spec_de (TOption t) [] = Err DeserializeUnexpectedEnd /\
  spec_de TF32 [b; b; b] = Err DeserializeUnexpectedEnd /\
  spec_de TChar (5 :: r) = Err DeserializeBadChar /\
  spec_de TChar [2; 97; 98] = Err DeserializeBadChar /\       (* two scalars *)
  spec_de TStr [1; 255] = Err DeserializeBadUtf8.
Proof.
  intros b r t. repeat split; try reflexivity; intros H0 H1; cbn [spec_de sd_byte bind];
    destruct (N.eqb_spec b 0); try contradiction; destruct (N.eqb_spec b 1); try contradiction; reflexivity.
Qed.

Example C03_example_nonminimal :
  spec_de (TInt U16) [128; 128; 0; 9] = Ok (VInt U16 0, [9]) /\      (* padded zero: legal *)
  spec_de (TInt U16) [255; 255; 3] = Ok (VInt U16 65535, []) /\
  spec_de (TInt U16) [255; 255; 4] = Err DeserializeBadVarint /\     (* over range *)
  spec_de (TInt U16) [128; 128; 128; 0] = Err DeserializeBadVarint /\ (* over long *)
  spec_de (TInt U16) [128; 128] = Err DeserializeUnexpectedEnd.
Proof. repeat split; vm_compute; reflexivity. Qed.

(* the remaining bytes never influence the result: a successful decode consumes a prefix of
   the input that alone determines value and consumption *)
Theorem C03_remaining_bytes_irrelevant : forall (t : ty) (l : list byte) (v : value) (rest : list byte),
  bytes_ok l -> de_slice t l = Ok (v, rest) ->
  exists p, l = p ++ rest /\ forall rest', bytes_ok rest' -> de_slice t (p ++ rest') = Ok (v, rest').
Proof. exact de_rest_never_matters. Qed.

(* every strict prefix of a valid message fails with unexpected-end, for every shape *)
Theorem C03_strict_prefix_unexpected_end : forall (t : ty) (p : list byte) (v : value),
  bytes_ok p -> de_slice t p = Ok (v, []) ->
  forall q q', p = q ++ q' -> q' <> [] -> de_slice t q = Err DeserializeUnexpectedEnd.
Proof. exact de_strict_prefix_unexpected_end. Qed.

(* the decoder model is not only run against the code: each of its clauses is what the body of
   the corresponding method of de/deserializer.rs computes.  dvm drives an interpreter over the
   method bodies the translator reads on every run (all 31 deserialize_* methods, the four
   VariantAccess methods and variant_seed; SeqAccess / MapAccess by template) the way serde's
   visitors call them, over any flavour whose try_take_n(n) hands out n bytes *)
Theorem C03_model_is_the_method_bodies : forall (St : Type) (pop : St -> res (byte * St)) (take_n : N -> St -> res (list byte * St)),
  (forall n s bs s', take_n n s = Ok (bs, s') -> length bs = N.to_nat n) ->
  forall t s, dvm pop take_n t s = de pop take_n t s.
Proof. exact @de_methods_agree. Qed.
Theorem C03_slice_decoder_is_the_method_bodies : forall (t : ty) (l : list byte),
  dvm slice_pop slice_take_n t l = de_slice t l.
Proof. exact de_slice_is_the_method_bodies. Qed.

(* what serde's `custom` errors become (the model's SerdeSerCustom / SerdeDeCustom outcomes for a
   failing Serialize / Deserialize impl): the two impls of error.rs match their template *)
Theorem C03_custom_errors_are_the_source :
  error_fns_matched = [[64; 105; 109; 112; 108; 32; 115; 101; 114; 100; 101; 58; 58; 115; 101; 114; 58; 58; 69; 114; 114; 111; 114; 32; 102; 111; 114; 32; 69; 114; 114; 111; 114]].
Proof. exact (eq_refl error_fns_matched). Qed.

Print Assumptions C03_de_is_spec.
Print Assumptions C03_varint_exact.
Print Assumptions C03_varint_errors.
Print Assumptions C03_accepts_encodings.
Print Assumptions C03_primitive_errors.
Print Assumptions C03_remaining_bytes_irrelevant.
Print Assumptions C03_strict_prefix_unexpected_end.
Print Assumptions C03_model_is_the_method_bodies.
Print Assumptions C03_slice_decoder_is_the_method_bodies.
Print Assumptions C03_custom_errors_are_the_source.
