(* C01: encode/decode round trip is the identity for every serde data-model value. *)
From PV Require Import Base MachineInt DataModel Ser De DeFacts SerMethods SerMethodFacts DeMethods DeMethodFacts.
Open Scope N_scope.

(* for every shape t (all 29 kinds, any nesting), every value v of that shape and every
   byte string `rest` that follows the message: decoding the produced bytes returns exactly
   v (floats are bit patterns, so NaN payloads and signed zeros are compared bit for bit)
   and hands back exactly `rest`. *)
Theorem C01_roundtrip : forall (v : value) (t : ty) (rest : list byte),
  has_type v t = true -> bytes_ok rest ->
  de_slice t (enc v ++ rest) = Ok (v, rest).
Proof. exact roundtrip. Qed.

(* the slice entry points *)
Theorem C01_take_from_bytes : forall (v : value) (t : ty) (rest : list byte),
  has_type v t = true -> bytes_ok rest ->
  take_from_bytes t (enc v ++ rest) = Ok (v, rest) /\ from_bytes t (enc v ++ rest) = Ok v.
Proof.
  intros v t rest Ht Hr. unfold take_from_bytes, from_bytes. rewrite (roundtrip v t rest Ht Hr).
  split; reflexivity.
Qed.

(* the encoder of these theorems is what the method bodies of ser/serializer.rs compute (the
   bodies are re-read from the source on every run; see C02_model_is_the_method_bodies) *)
Theorem C01_encoder_is_the_method_bodies : forall v : value,
  flatten_ops (fst (ser_via_methods v)) = enc v /\ snd (ser_via_methods v) = ser_err v.
Proof. exact enc_via_methods. Qed.

(* ... and the decoder is what the method bodies of de/deserializer.rs compute (see
   C03_model_is_the_method_bodies) *)
Theorem C01_decoder_is_the_method_bodies : forall (t : ty) (l : list byte),
  dvm slice_pop slice_take_n t l = de_slice t l.
Proof. exact de_slice_is_the_method_bodies. Qed.

(* non-vacuity: a deep mixed value satisfies the premises *)
Example C01_example :
  let v := VStruct [VInt U16 300; VSome (VStr [104; 105]);
                    VVariant 2 (VTupleStruct [VInt I32 (-3); VBool true]);
                    VSeq [VChar 8364; VChar 65]; VMap [(VInt U8 1, VF32 4290772992)];
                    VTuple []; VNewtype (VInt I128 (-170141183460469231731687303715884105728))] in
  let t := TStruct [TInt U16; TOption TStr; TEnum [TUnitStruct; TUnitStruct; TTupleStruct [TInt I32; TBool]];
                    TSeq TChar; TMap (TInt U8) TF32; TTuple []; TNewtype (TInt I128)] in
  has_type v t = true /\ de_slice t (enc v ++ [7; 7]) = Ok (v, [7; 7]).
Proof. split; vm_compute; reflexivity. Qed.

Print Assumptions C01_roundtrip.
Print Assumptions C01_take_from_bytes.
Print Assumptions C01_encoder_is_the_method_bodies.
Print Assumptions C01_decoder_is_the_method_bodies.
