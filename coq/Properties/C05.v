(* C05: bounded-buffer serialisation: exact capacity threshold, never out of bounds. *)
From PV Require Import Base MachineInt DataModel Ser De Cobs CobsRef Crc SerFlavors Sinks Thresholds PtrDecl GenPtrCode PtrInterp PtrCodeFacts StorageDecl GenStorages StorageInterp StorageFacts.
Open Scope N_scope.

(* caller slice (raw start/cursor/end pointers; a write outside the buffer is Fault):
   succeeds exactly when the capacity is at least the output length, and then the output is
   the plain encoding at the front of the buffer with the rest of the buffer untouched;
   otherwise buffer-full - never Panic, never Fault *)
Theorem C05_slice : forall (v : value) (buf : list byte),
  ordinary_value v ->
  if Nat.leb (length (enc v)) (length buf)
  then to_slice v buf = Ok (enc v, enc v ++ skipn (length (enc v)) buf)
  else to_slice v buf = Err SerializeBufferFull.
Proof. exact to_slice_threshold. Qed.

Theorem C05_heapless : forall (cap : nat) (v : value),
  ordinary_value v ->
  if Nat.leb (length (enc v)) cap then to_vec cap v = Ok (enc v) else to_vec cap v = Err SerializeBufferFull.
Proof. exact to_vec_threshold. Qed.

(* with COBS framing the threshold is the length of the complete frame *)
Theorem C05_slice_cobs : forall (v : value) (buf : list byte),
  ordinary_value v ->
  if Nat.leb (length (cobs_frame (enc v))) (length buf)
  then exists whole, to_slice_cobs v buf = Ok (cobs_frame (enc v), whole)
  else to_slice_cobs v buf = Err SerializeBufferFull.
Proof. exact to_slice_cobs_threshold. Qed.
Theorem C05_heapless_cobs : forall (cap : nat) (v : value),
  ordinary_value v ->
  if Nat.leb (length (cobs_frame (enc v))) cap then to_vec_cobs cap v = Ok (cobs_frame (enc v))
  else to_vec_cobs cap v = Err SerializeBufferFull.
Proof. exact to_vec_cobs_threshold. Qed.

(* with CRC framing: output length + checksum bytes *)
Theorem C05_slice_crc : forall (alg : crc_alg) (nb : nat) (v : value) (buf : list byte),
  ordinary_value v ->
  if Nat.leb (length (enc v) + nb) (length buf)
  then exists whole, to_slice_crc alg nb v buf = Ok (enc v ++ le_bytes nb (crc alg (enc v)), whole)
  else to_slice_crc alg nb v buf = Err SerializeBufferFull.
Proof. exact to_slice_crc_threshold. Qed.
Theorem C05_heapless_crc : forall (alg : crc_alg) (nb cap : nat) (v : value),
  ordinary_value v ->
  if Nat.leb (length (enc v) + nb) cap then to_vec_crc alg nb cap v = Ok (enc v ++ le_bytes nb (crc alg (enc v)))
  else to_vec_crc alg nb cap v = Err SerializeBufferFull.
Proof. exact to_vec_crc_threshold. Qed.

(* unbounded storages and the size-measuring call *)
Theorem C05_growable : forall (v : value) (pre : list byte),
  ser_err v = None -> to_allocvec v = Ok (enc v) /\ to_extend v pre = Ok (pre ++ enc v).
Proof. intros v pre H. split; [apply to_allocvec_is_enc|apply to_extend_is_enc]; exact H. Qed.
Theorem C05_size : forall v : value, ser_err v = None -> serialized_size v = Ok (N.of_nat (length (enc v))).
Proof. exact size_counts. Qed.

Example C05_example :
  to_slice (VInt U16 300) [9; 9; 9] = Ok ([172; 2], [172; 2; 9]) /\
  to_slice (VInt U16 300) [9] = Err SerializeBufferFull /\
  to_slice_cobs (VInt U16 300) [9; 9; 9; 9] = Ok ([3; 172; 2; 0], [3; 172; 2; 0]) /\
  to_slice_cobs (VInt U16 300) [9; 9; 9] = Err SerializeBufferFull /\
  to_slice_cobs (VInt U16 300) [] = Err SerializeBufferFull /\
  to_slice (VCollectStr [[104]; [105]]) [9; 9] = Err CollectStrError.
Proof. repeat split; vm_compute; reflexivity. Qed.

(* the slice storage of these theorems is the code: try_push, try_extend, finalize and index_mut
   of ser/flavors.rs's Slice are re-read from the source on every run as statement trees over
   the raw pointers and interpreted with pointers as indices *)
Theorem C05_try_push_is_the_source : forall (s : slice_st) (b : byte),
  slice_push s b = let* '(m, r) := prun ser_slice_try_push [PvByte b] (mach_of_s s) in
                   match r with QUnit => Ok (s_of m) | _ => Panic end.
Proof. exact slice_push_is_source. Qed.
Theorem C05_try_extend_is_the_source : forall (s : slice_st) (bs : list byte),
  slice_extend s bs = let* '(m, r) := prun ser_slice_try_extend [PvBs bs] (mach_of_s s) in
                      match r with QUnit => Ok (s_of m) | _ => Panic end.
Proof. exact slice_extend_is_source. Qed.
Theorem C05_finalize_is_the_source : forall s : slice_st, (sl_cursor s <= length (sl_buf s))%nat ->
  slice_finalize s = let* '(m, r) := prun ser_slice_finalize [] (mach_of_s s) in
                     match r with QBytes bs => Ok (bs, pm_buf m) | _ => Panic end.
Proof. exact slice_finalize_is_source. Qed.
Theorem C05_index_mut_is_the_source : forall (s : slice_st) (idx : nat) (b : byte), (sl_start s <= sl_end s)%nat ->
  slice_set s idx b =
  let* '(m, r) := prun ser_slice_index_mut [PvN idx] (mach_of_s s) in
  match r with
  | QPlace at_ => match write_at (pm_buf m) at_ b with
                  | Some buf' => Ok {| sl_buf := buf'; sl_start := pm_start m; sl_cursor := pm_cursor m; sl_end := pm_end m |}
                  | None => Fault
                  end
  | _ => Panic
  end.
Proof. exact slice_set_is_source. Qed.

(* the bounded and the growable vector storages are the method bodies of ser/flavors.rs as read
   on this run (GenStorages.v), interpreted over heapless::Vec's all-or-nothing push /
   extend_from_slice and alloc's Vec: on every state and every argument *)
Theorem C05_hvec_is_the_source : forall cap v,
  (forall b, sf_push (hvec_flavor cap) v b = unvec (run_method nm_HVec nm_try_push (SVec (Some cap) v) (AByte b))) /\
  (forall bs, sf_extend (hvec_flavor cap) v bs = unvec (run_method nm_HVec nm_try_extend (SVec (Some cap) v) (ABytes bs))) /\
  sf_finalize (hvec_flavor cap) v = unvec (run_method nm_HVec nm_finalize (SVec (Some cap) v) ANone) /\
  (forall i b, sf_set (hvec_flavor cap) v i b = unvec (run_method nm_HVec_IndexMut nm_index_mut (SVec (Some cap) v) (ASet i b))).
Proof. exact hvec_is_source. Qed.
Theorem C05_allocvec_is_the_source : forall v,
  (forall b, sf_push alloc_flavor v b = unvec (run_method nm_AllocVec nm_try_push (SVec None v) (AByte b))) /\
  (forall bs, sf_extend alloc_flavor v bs = unvec (run_method nm_AllocVec nm_try_extend (SVec None v) (ABytes bs))) /\
  sf_finalize alloc_flavor v = unvec (run_method nm_AllocVec nm_finalize (SVec None v) ANone) /\
  (forall i b, sf_set alloc_flavor v i b = unvec (run_method nm_AllocVec_IndexMut nm_index_mut (SVec None v) (ASet i b))).
Proof. exact allocvec_is_source. Qed.

Print Assumptions C05_slice.
Print Assumptions C05_heapless.
Print Assumptions C05_slice_cobs.
Print Assumptions C05_heapless_cobs.
Print Assumptions C05_slice_crc.
Print Assumptions C05_heapless_crc.
Print Assumptions C05_growable.
Print Assumptions C05_size.
Print Assumptions C05_try_push_is_the_source.
Print Assumptions C05_try_extend_is_the_source.
Print Assumptions C05_finalize_is_the_source.
Print Assumptions C05_index_mut_is_the_source.
Print Assumptions C05_hvec_is_the_source.
Print Assumptions C05_allocvec_is_the_source.
