(* C02: the encoder emits exactly the published wire format, with canonical varints. *)
From PV Require Import Base MachineInt VarintParams GenArith GenLoops Varint Utf8 DataModel Ser De
  WireFormat VarintFacts VarintCore ZigZagFacts SerFacts SerMethods SerMethodFacts.
From PV Require Import GenErrorImpls.
Open Scope N_scope.

(* every typed value serialises (no refusal) to exactly the wire-format.md encoding *)
Theorem C02_encode_is_spec : forall (v : value) (t : ty),
  has_type v t = true -> ser_err v = None /\ enc v = spec_enc v.
Proof. exact enc_is_spec_aux. Qed.

(* the specification's varint, by its defining equation: 7 bits per byte, least significant
   group first, continuation flag on every byte but the last *)
Theorem C02_spec_varint_equation : forall n : N,
  spec_varint n = if n <? 128 then [n] else (n mod 128 + 128) :: spec_varint (n / 128).
Proof. exact spec_varint_unfold. Qed.

(* it is a permitted encoding of n, and no permitted encoding of n is shorter: canonical *)
Theorem C02_varint_canonical : forall (w n : N) (bs : list byte),
  n < 2 ^ w -> 1 <= w ->
  valid_varint w (spec_varint n) n /\
  (bytes_ok bs -> varint_shape bs = true -> varint_value bs = n ->
   (length (spec_varint n) <= length bs)%nat).
Proof.
  intros w n bs Hn Hw. split; [exact (spec_varint_valid w n Hn Hw)|].
  intros Hb Hs Hv. exact (spec_varint_minimal bs n Hb Hs Hv).
Qed.

(* the bit-level zig-zag expressions of the source are the arithmetic zig-zag *)
Theorem C02_zigzag : forall (k : ikind) (W : Z) (z : Z),
  signed_width k = Some W -> in_range (ik_ity k) z ->
  zig_zag k z = Z.of_N (Z.to_N (if (0 <=? z)%Z then 2 * z else - 2 * z - 1)%Z).
Proof. exact zig_zag_spec. Qed.

(* pointer-sized integers use the 64-bit varint on this host (writer and reader) *)
Theorem C02_usize_is_u64 :
  core_writer_usize = core_writer_u64 /\ usize_reader = core_reader_u64.
Proof. split; reflexivity. Qed.

(* a sequence or map of unknown length is refused before anything is emitted for it *)
Theorem C02_unknown_length_refused : forall vs kvs,
  ser_ops (VSeqNoLen vs) = ([], Some SerializeSeqLengthUnknown) /\
  ser_ops (VMapNoLen kvs) = ([], Some SerializeSeqLengthUnknown).
Proof. intros; split; reflexivity. Qed.

(* a Display-collected string encodes exactly like the formatted text *)
Theorem C02_collect_str : forall pieces : list (list byte),
  enc (VCollectStr pieces) = enc (VStr (concat pieces)) /\ ser_err (VCollectStr pieces) = None.
Proof. exact collect_str_is_str. Qed.

(* every copy of the varint loops in the source has the constants the proofs are about *)
Theorem C02_source_loops_are_standard :
  core_writers = [std_writer u16; std_writer u32; std_writer u64; std_writer u128; std_writer usize] /\
  core_readers = [std_reader u16 DeserializeBadVarint; std_reader u32 DeserializeBadVarint;
                  std_reader u64 DeserializeBadVarint; std_reader u128 DeserializeBadVarint].
Proof. exact (conj core_writers_std core_readers_std). Qed.

(* the serializer model is not only run against the code: each of its clauses is what the body
   of the corresponding method of ser/serializer.rs computes.  ser_via_methods drives an
   interpreter over the method bodies the translator reads on every run (all 30 serialize_*
   methods, the five try_push_varint_* helpers, the eight element / field / key / value
   methods; collect_str by template) the way serde's Serialize impls call them *)
Theorem C02_model_is_the_method_bodies : forall v : value,
  ser_via_methods v = ser_ops v.
Proof. exact ser_methods_agree. Qed.
Theorem C02_encoding_of_the_method_bodies : forall v : value,
  flatten_ops (fst (ser_via_methods v)) = enc v /\ snd (ser_via_methods v) = ser_err v.
Proof. exact enc_via_methods. Qed.

Example C02_example :
  has_type (VStruct [VInt I32 (-300); VSome (VStr [104; 105]); VVariant 1 (VNewtype (VF32 1065353216))])
           (TStruct [TInt I32; TOption TStr; TEnum [TUnitStruct; TNewtype TF32]]) = true /\
  enc (VStruct [VInt I32 (-300); VSome (VStr [104; 105]); VVariant 1 (VNewtype (VF32 1065353216))])
  = [215; 4; 1; 2; 104; 105; 1; 0; 0; 128; 63].
Proof. split; vm_compute; reflexivity. Qed.

(* what serde's `custom` errors become (the model's SerdeSerCustom / SerdeDeCustom outcomes for a
   failing Serialize / Deserialize impl): the two impls of error.rs match their template *)
Theorem C02_custom_errors_are_the_source :
  error_fns_matched = [[64; 105; 109; 112; 108; 32; 115; 101; 114; 100; 101; 58; 58; 115; 101; 114; 58; 58; 69; 114; 114; 111; 114; 32; 102; 111; 114; 32; 69; 114; 114; 111; 114]].
Proof. exact (eq_refl error_fns_matched). Qed.

Print Assumptions C02_encode_is_spec.
Print Assumptions C02_spec_varint_equation.
Print Assumptions C02_varint_canonical.
Print Assumptions C02_zigzag.
Print Assumptions C02_usize_is_u64.
Print Assumptions C02_unknown_length_refused.
Print Assumptions C02_collect_str.
Print Assumptions C02_source_loops_are_standard.
Print Assumptions C02_model_is_the_method_bodies.
Print Assumptions C02_encoding_of_the_method_bodies.
Print Assumptions C02_custom_errors_are_the_source.
