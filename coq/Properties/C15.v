(* C15: borrowed and owned schemas are the same thing on the wire.
   Only statements, `exact`, and Print Assumptions live here.

   B / O: what derive(Serialize) writes for a schema tree under the borrowed (mod.rs) and
   the owned (owned.rs) declarations AS THE TRANSLATOR READ THEM NOW (GenSchemaDecl.v);
   conv: the From<&DataModelType> family interpreted from its arm tables; oty d: the owned
   enum unfolded d levels (what derive(Deserialize) accepts); read_back: the decoded value
   as a tree. *)
From PV Require Import Base DataModel Schema SchemaDecl GenSchemaDecl SchemaSer SchemaConv Ser De SchemaOps SchemaFacts.
Open Scope N_scope.

(* the two declarations agree variant for variant, field for field, in order *)
Theorem C15_decl_agree :
  borrowed_dmt = owned_dmt /\ borrowed_data = owned_data /\
  borrowed_named_field = owned_named_field /\ borrowed_variant = owned_variant.
Proof. exact decl_agree. Qed.

(* the conversion preserves every kind, name, order and nesting: on the common tree view
   it is the identity *)
Theorem C15_conversion_faithful : forall s, conv s = Some s.
Proof. exact to_owned_id. Qed.

(* identical bytes *)
Theorem C15_same_bytes : forall s s', conv s = Some s' -> enc (B s) = enc (O s').
Proof. exact owned_same_bytes. Qed.

(* those bytes (followed by anything) deserialise to the conversion, consuming exactly them *)
Theorem C15_roundtrip : forall s s' d rest,
  conv s = Some s' -> schema_ok s = true -> schema_wf s = true -> (depth s < d)%nat -> bytes_ok rest ->
  de_slice (oty d) (enc (B s) ++ rest) = Ok (O s', rest).
Proof. exact owned_roundtrip. Qed.

(* and the decoded value determines the tree: distinct schemas never share an encoding *)
Theorem C15_read_back : forall s, schema_wf s = true -> read_back (O s) = Some s.
Proof. exact read_back_sval. Qed.

(* the executable decoder the runner compares with from_bytes::<OwnedDataModelType> (the owned
   enum unfolded length+1 levels: every level of nesting costs at least one byte) returns the
   tree itself and hands back what follows *)
Theorem C15_decoder_complete : forall s rest,
  schema_ok s = true -> schema_wf s = true -> bytes_ok rest -> schema_de (enc (B s) ++ rest) = Ok (s, rest).
Proof. exact schema_de_complete. Qed.

(* non-vacuity: a tree using every data kind, its bytes, and the way back *)
Definition C15_ex : schema :=
  SStruct [66] DStruct
    [([97], SPrim PU8); ([98], SOption (SSeq (SPrim PString)));
     ([99], SEnum [69] [([120], DUnit, []); ([121], DNewtype, [([], SMap (SPrim PI8) (SPrim PSchema))]);
                        ([122], DTuple, [([], SPrim PU8); ([], STuple [SPrim PBool])]);
                        ([119], DStruct, [([113], SPrim PUsize)])])].
Example C15_example :
  schema_ok C15_ex = true /\ schema_wf C15_ex = true /\ depth C15_ex = 3%nat /\
  enc (B C15_ex) = [23; 1; 66; 3; 3; 1; 97; 2; 1; 98; 18; 20; 16; 1; 99; 24; 1; 69; 4; 1; 120; 0; 1; 121; 1; 22; 1; 25;
                    1; 122; 2; 2; 2; 21; 1; 0; 1; 119; 3; 1; 1; 113; 11] /\
  de_slice (oty 4) (enc (B C15_ex) ++ [7]) = Ok (O C15_ex, [7]).
Proof. repeat split; vm_compute; reflexivity. Qed.

Print Assumptions C15_decl_agree.
Print Assumptions C15_conversion_faithful.
Print Assumptions C15_same_bytes.
Print Assumptions C15_roundtrip.
Print Assumptions C15_read_back.
Print Assumptions C15_decoder_complete.
