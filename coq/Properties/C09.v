(* C09: the accumulator survives overflow and garbage and resyncs at the next sentinel. *)
From PV Require Import Base MachineInt DataModel De Cobs CobsRef DeFlavors Accumulator CobsEntry AccFacts AccInterp AccAstFacts.
Open Scope N_scope.

(* whatever is fed, in whatever state: never a panic, never an index outside the buffer
   (extend_unchecked's slice, the overflow arithmetic, the in-place decoder), and the
   buffer keeps its capacity *)
Theorem C09_feed_total : forall (t : ty) (st : acc_st) (input : list byte),
  acc_inv st -> benign (feed t st input) /\
  (forall st' r, feed t st input = Ok (st', r) -> acc_inv st' /\ cap_of st' = cap_of st).
Proof. exact feed_total. Qed.

(* after every zero byte the accumulator is back in its initial state, and the remainder is
   exactly what follows that zero: a well-formed frame that follows any zero byte is then
   delivered intact (C08 applies from the initial state) *)
Theorem C09_reset_after_zero : forall (t : ty) (st : acc_st) (input : list byte) (st' : acc_st) (r : feed_result),
  acc_inv st -> In 0 input -> feed t st input = Ok (st', r) ->
  a_idx st' = 0%nat /\ buffered st' = [] /\
  exists seg, Forall (fun b => b <> 0) seg /\ input = seg ++ [0] ++ remaining r.
Proof. exact reset_after_zero. Qed.

(* a segment longer than the capacity is reported as overflow, for every chunking *)
Theorem C09_overflow_reported : forall (t : ty) (chunks : list (list byte)) (st : acc_st) (s more : list byte),
  acc_inv st -> (1 <= cap_of st)%nat ->
  nonzero s -> concat chunks = s ++ [0] ++ more -> (cap_of st < a_idx st + length s + 1)%nat ->
  exists st' rs, drive_all t st chunks = Ok (st', rs) /\ In EvOver (events_of rs).
Proof. exact overflow_reported. Qed.

(* the documented feed loop always makes progress and terminates for every capacity >= 1:
   the iteration budget 2 * len + 2 is never exhausted *)
Theorem C09_loop_terminates : forall (t : ty) (st : acc_st) (chunk : list byte),
  acc_inv st -> (1 <= cap_of st)%nat ->
  exists st' rs, drive_chunk t st chunk = Ok (st', rs) /\ acc_inv st' /\ cap_of st' = cap_of st.
Proof. exact drive_chunk_total. Qed.

(* with capacity 0 it does not: the reason for "at least one byte" *)
Theorem C09_capacity_zero_stalls :
  feed TUnit (acc_new 0) [1] = Ok (acc_new 0, OverFull [1]) /\ drive_chunk TUnit (acc_new 0) [1] = OutOfFuel.
Proof. exact drive_capacity_zero_stalls. Qed.

Example C09_example :
  drive_all (TInt U8) (acc_new 3) [[5; 5; 5; 5]; [5; 0; 2; 7; 0]] =
  Ok ({| a_buf := [7; 7; 0]; a_idx := 0 |},
      [OverFull [5]; Consumed; DeserError [2; 7; 0]; Success (VInt U8 7) []]).
Proof. vm_compute. reflexivity. Qed.

(* the accumulator step of these theorems is what the body of CobsAccumulator::feed_ref computes:
   the body is re-read from accumulator.rs on every run as a statement tree (conditions,
   assignments to idx, extend_unchecked, the decode, every return) and interpreted *)
Theorem C09_step_is_the_source : forall (t : ty) (st : acc_st) (input : list byte),
  feed_ast t st input = feed t st input.
Proof. exact feed_ast_is_feed. Qed.

Print Assumptions C09_feed_total.
Print Assumptions C09_reset_after_zero.
Print Assumptions C09_overflow_reported.
Print Assumptions C09_loop_terminates.
Print Assumptions C09_capacity_zero_stalls.
Print Assumptions C09_step_is_the_source.
