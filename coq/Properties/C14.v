(* C14: a type's Schema describes exactly what its Serialize writes.
   Only statements, `exact`, and Print Assumptions live here.

   nvalue: the data-model items a Serialize impl emits, WITH the names serde passes along;
   conforms d v s: kinds, field names and order, variant names and indices, arity and element
   types of v are those of schema s (struct/enum TYPE names are not compared); schema_ty: the
   shape a schema prescribes; schema_skip: the reader that knows nothing but the schema.

   The first two theorems hold for EVERY schema and EVERY item tree.  The per-type layer:
   sty is the language of type expressions over the built-in impls (and the plain derive forms);
   schema_of evaluates the `impl Schema for X` rows the translator read from postcard-schema
   (GenSchemaImpls.v, regenerated on every run); emit_ok d t v says v is a tree of items a value
   of type t serialises as (hand model of serde's Serialize impls and of serde_derive, compared
   with the recorded call tree of every corpus value on every run, as is schema_of with the
   real SCHEMA constant).  C14_builtin_rows_conform then says: the rows give every such type a
   schema that its own items conform to. *)
From PV Require Import Base DataModel Schema SchemaDecl SchemaConv SchemaOps Conform Ser De ConformFacts GenSchemaImpls SchemaImpls SchemaImplFacts GenDeriveSchema.
Open Scope N_scope.

(* conforming items have exactly the shape the schema prescribes *)
Theorem C14_conforms_typed : forall d v s,
  conforms d v s = true -> has_type (erase v) (schema_ty d s) = true.
Proof. exact conforms_typed. Qed.

(* consequently a schema-driven reader parses every encoding of a conforming value, consuming
   it exactly: whatever follows is handed back untouched *)
Theorem C14_schema_reader_exact : forall d v s rest,
  conforms d v s = true -> bytes_ok rest ->
  ser_err (erase v) = None /\ schema_skip d s (enc (erase v) ++ rest) = Ok rest.
Proof. exact conforms_skip. Qed.

(* every type expression in range has a row, for any nesting *)
Theorem C14_builtin_rows_total : forall t, sty_ok t = true -> exists s, schema_of t = Some s.
Proof. exact schema_of_total. Qed.
(* and what a value of the type serialises as conforms to the schema its row builds: element
   kinds (i16 is I16, NonZeroU32 is U32, ...), tuple and array arity, field names and order of
   the ranges, variant names and indices of Result, map key/value kinds, at any nesting *)
Theorem C14_builtin_rows_conform : forall d t s v,
  sty_ok t = true -> schema_of t = Some s -> emit_ok d t v = true -> conforms d v s = true.
Proof. intros d t s v Hok Hs He. exact (builtin_conforms d t Hok s v Hs He). Qed.
(* the rows compiled under the alloc feature, and those for heapless 0.8, are the same rows *)
Theorem C14_alias_rows :
  Forall (fun ab => assoc (fst ab) schema_impls = assoc (snd ab) schema_impls /\ assoc (snd ab) schema_impls <> None) alias_rows.
Proof. exact rows_alias. Qed.
Example C14_builtin_example :
  let t := YBTreeMap YString (YResult (YTuple [YNonZero I16; YArray YBool 2]) (YOption (YRangeTo YChar))) in
  let v := NMap [(NStr [107], NVariant [] 0 [79; 107] (NNewtypeStruct [] (NTuple [NInt I16 (-5); NTuple [NBool true; NBool false]])));
                 (NStr [], NVariant [] 1 [69; 114; 114] (NNewtypeStruct [] (NSome (NStruct [] [([101; 110; 100], NChar 233)]))))] in
  sty_ok t = true /\ emit_ok 1 t v = true /\
  schema_of t = Some (SMap (SPrim PString)
    (SEnum [82; 101; 115; 117; 108; 116; 60; 84; 44; 32; 69; 62]
       [([79; 107], DNewtype, [([], STuple [SPrim PI16; STuple [SPrim PBool; SPrim PBool]])]);
        ([69; 114; 114], DNewtype, [([], SOption (SStruct [82; 97; 110; 103; 101; 84; 111; 60; 84; 62] DStruct [([101; 110; 100], SPrim PChar)]))])])).
Proof. repeat split; vm_compute; reflexivity. Qed.

(* non-vacuity: enum E { A, B { x: u8, y: i16 } } inside an Option inside a Vec; a renamed field
   or a wrong variant index does not conform *)
Definition C14_schema : schema :=
  SSeq (SOption (SEnum [69] [([65], DUnit, []); ([66], DStruct, [([120], SPrim PU8); ([121], SPrim PI16)])])).
Example C14_example :
  let good := NSeq [NSome (NVariant [69] 1 [66] (NStruct [66] [([120], NInt U8 7); ([121], NInt I16 (-2))])); NNone;
                    NSome (NVariant [69] 0 [65] (NUnitStruct [65]))] in
  conforms 1 good C14_schema = true /\
  schema_skip 1 C14_schema (enc (erase good) ++ [9; 9]) = Ok [9; 9] /\
  conforms 1 (NSeq [NSome (NVariant [69] 1 [66] (NStruct [66] [([121], NInt U8 7); ([120], NInt I16 (-2))]))]) C14_schema = false /\
  conforms 1 (NSeq [NSome (NVariant [69] 0 [66] (NUnitStruct [66]))]) C14_schema = false.
Proof. repeat split; vm_compute; reflexivity. Qed.

(* the Schema derive of postcard-derive/src/schema.rs (do_derive_schema, Generator::new,
   generate_type, generate_struct, generate_variants, add_trait_bounds) is, token for token up to
   renaming of locals, the code whose output the harness's restated declarations (src/sty.rs) and
   the model's emit rules were written against (tools/fn_templates.json) *)
Theorem C14_derive_is_the_source :
  derive_schema_fns_matched =
  [[97; 100; 100; 95; 116; 114; 97; 105; 116; 95; 98; 111; 117; 110; 100; 115];
   [100; 111; 95; 100; 101; 114; 105; 118; 101; 95; 115; 99; 104; 101; 109; 97];
   [103; 101; 110; 101; 114; 97; 116; 101; 95; 115; 116; 114; 117; 99; 116];
   [103; 101; 110; 101; 114; 97; 116; 101; 95; 116; 121; 112; 101];
   [103; 101; 110; 101; 114; 97; 116; 101; 95; 118; 97; 114; 105; 97; 110; 116; 115];
   [110; 101; 119]].
Proof. exact (eq_refl derive_schema_fns_matched). Qed.

Print Assumptions C14_conforms_typed.
Print Assumptions C14_schema_reader_exact.
Print Assumptions C14_builtin_rows_total.
Print Assumptions C14_builtin_rows_conform.
Print Assumptions C14_alias_rows.
Print Assumptions C14_derive_is_the_source.
