(* C14: a type's Schema describes exactly what its Serialize writes.
   Only statements, `exact`, and Print Assumptions live here.

   nvalue: the data-model items a Serialize impl emits, WITH the names serde passes along;
   conforms d v s: kinds, field names and order, variant names and indices, arity and element
   types of v are those of schema s (struct/enum TYPE names are not compared); schema_ty: the
   shape a schema prescribes; schema_skip: the reader that knows nothing but the schema.

   What is proved here holds for EVERY schema and EVERY item tree.  That the items a given
   Rust type emits do conform to that type's SCHEMA constant is a statement about rustc,
   serde's impls and two proc-macros; it is checked by running `conforms` (extracted) and an
   independent checker on the captured items of a corpus covering every built-in impl and the
   derive (see DESIGN.md, C14: partial on the "programs" axis). *)
From PV Require Import Base DataModel Schema SchemaConv SchemaOps Conform Ser De ConformFacts.
Open Scope N_scope.

(* conforming items have exactly the shape the schema prescribes *)
Theorem C14_conforms_typed : forall d v s,
  conforms d v s = true -> has_type (erase v) (schema_ty d s) = true.
Proof. exact conforms_typed. Qed.

(* consequently a schema-driven reader parses every encoding of a conforming value, consuming
   it exactly: whatever follows is handed back untouched *)
Theorem C14_schema_reader_exact : forall d v s rest,
  conforms d v s = true -> bytes_ok rest ->
  ser_err (erase v) = None /\ schema_skip d s (enc (erase v) ++ rest) = Ok rest.
Proof. exact conforms_skip. Qed.

(* non-vacuity: enum E { A, B { x: u8, y: i16 } } inside an Option inside a Vec; a renamed field
   or a wrong variant index does not conform *)
Definition C14_schema : schema :=
  SSeq (SOption (SEnum [69] [([65], DUnit, []); ([66], DStruct, [([120], SPrim PU8); ([121], SPrim PI16)])])).
Example C14_example :
  let good := NSeq [NSome (NVariant [69] 1 [66] (NStruct [66] [([120], NInt U8 7); ([121], NInt I16 (-2))])); NNone;
                    NSome (NVariant [69] 0 [65] (NUnitStruct [65]))] in
  conforms 1 good C14_schema = true /\
  schema_skip 1 C14_schema (enc (erase good) ++ [9; 9]) = Ok [9; 9] /\
  conforms 1 (NSeq [NSome (NVariant [69] 1 [66] (NStruct [66] [([121], NInt U8 7); ([120], NInt I16 (-2))]))]) C14_schema = false /\
  conforms 1 (NSeq [NSome (NVariant [69] 0 [66] (NUnitStruct [66]))]) C14_schema = false.
Proof. repeat split; vm_compute; reflexivity. Qed.

Print Assumptions C14_conforms_typed.
Print Assumptions C14_schema_reader_exact.
