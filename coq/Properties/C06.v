(* C06: COBS-framed output is one well-formed frame and decodes back, frame by frame. *)
From PV Require Import Base MachineInt DataModel Ser De Cobs CobsRef SerFlavors DeFlavors CobsEncFacts Sinks Thresholds Cobs Crc SerFlavors ModDecl GenModifiers ModInterp ModFacts GenEntryPoints SchemaDecl SerEntryDecl GenSerEntry StorageInterp SerEntryInterp SerEntryFacts.
Open Scope N_scope.

(* the streaming encoder with its placeholder back-patching, on growable storage, produces
   exactly the block definition of COBS applied to the plain encoding, plus the sentinel *)
Theorem C06_output_is_cobs : forall v : value,
  ser_err v = None -> to_allocvec_cobs v = Ok (cobs_ref (enc v) ++ [0]).
Proof. exact to_allocvec_cobs_is_ref. Qed.

(* same bytes on the fixed storages whenever they fit (threshold: C05) *)
Theorem C06_output_heapless : forall (cap : nat) (v : value),
  ordinary_value v ->
  if Nat.leb (length (cobs_frame (enc v))) cap then to_vec_cobs cap v = Ok (cobs_frame (enc v))
  else to_vec_cobs cap v = Err SerializeBufferFull.
Proof. exact to_vec_cobs_threshold. Qed.
Theorem C06_output_slice : forall (v : value) (buf : list byte),
  ordinary_value v ->
  if Nat.leb (length (cobs_frame (enc v))) (length buf)
  then exists whole, to_slice_cobs v buf = Ok (cobs_frame (enc v), whole)
  else to_slice_cobs v buf = Err SerializeBufferFull.
Proof. exact to_slice_cobs_threshold. Qed.

(* the frame contains exactly one zero byte: its last *)
Theorem C06_one_zero : forall m : list byte,
  Forall (fun b => b <> 0) (cobs_ref m) /\ cobs_frame m = cobs_ref m ++ [0].
Proof. intro m. split; [apply cobs_ref_nonzero|reflexivity]. Qed.

(* n + floor(n/254) + 2 bytes for an n-byte message: exact when the message has no zero
   byte, an upper bound otherwise (a zero byte closes a block early) *)
Theorem C06_length : forall m : list byte,
  (length (cobs_frame m) <= length m + length m / 254 + 2)%nat /\
  (Forall (fun b => b <> 0) m -> length (cobs_frame m) = (length m + length m / 254 + 2)%nat).
Proof. exact cobs_frame_length. Qed.

(* it decodes back, with or without the sentinel, handing back what follows the frame *)
Theorem C06_roundtrip : forall (t : ty) (v : value) (rest : list byte),
  has_type v t = true ->
  take_from_bytes_cobs t (cobs_frame (enc v) ++ rest) = Ok (v, rest) /\
  take_from_bytes_cobs t (cobs_ref (enc v)) = Ok (v, []).
Proof. exact cobs_frame_roundtrip. Qed.

(* several frames back to back: each value in order, with exactly the bytes after its frame *)
Theorem C06_frames : forall (tvs : list (ty * value)) (rest : list byte),
  Forall (fun tv => has_type (snd tv) (fst tv) = true) tvs ->
  take_frames (map fst tvs) (flat_map (fun tv => cobs_frame (enc (snd tv))) tvs ++ rest) = Ok (map snd tvs, rest).
Proof. exact frames_roundtrip. Qed.
Theorem C06_frames_no_last_sentinel : forall (tvs : list (ty * value)) (t : ty) (v : value),
  Forall (fun tv => has_type (snd tv) (fst tv) = true) tvs -> has_type v t = true ->
  take_frames (map fst tvs ++ [t]) (flat_map (fun tv => cobs_frame (enc (snd tv))) tvs ++ cobs_ref (enc v))
  = Ok (map snd tvs ++ [v], []).
Proof. exact frames_roundtrip_no_last_sentinel. Qed.

Example C06_example :
  to_allocvec_cobs (VTuple [VInt U8 0; VInt U8 7; VInt U8 0]) = Ok [1; 2; 7; 1; 0] /\
  length (cobs_frame (repeat 9 254)) = 257%nat /\ length (cobs_frame (repeat 9 253)) = 255%nat.
Proof. repeat split; vm_compute; reflexivity. Qed.

(* the COBS modifier of these theorems is the code: try_push and finalize of ser/flavors.rs's
   Cobs<B> are re-read from the source on every run (the match on the encoder's push result with
   each arm's writes, which results are propagated with `?`) and interpreted over any inner flavour *)
Theorem C06_cobs_try_push_is_the_source : forall (St Out : Type) (inner : sflavor St Out) (alg : crc_alg) (nb : nat)
    (s : St) (e : enc_state) (d : N) (data : byte),
  cobs_push inner (s, e) data =
  let* '(m, _) := mrun inner alg nb cobs_try_push [MvByte data] {| ms_inner := s; ms_cobs := e; ms_digest := d |} in
  Ok (ms_inner m, ms_cobs m).
Proof. exact @cobs_push_is_source. Qed.
Theorem C06_cobs_finalize_is_the_source : forall (St Out : Type) (inner : sflavor St Out) (alg : crc_alg) (nb : nat)
    (s : St) (e : enc_state) (d : N),
  cobs_finalize inner (s, e) =
  let* '(_, out) := mrun inner alg nb cobs_finalize_steps [] {| ms_inner := s; ms_cobs := e; ms_digest := d |} in
  match out with Some o => Ok o | None => Panic end.
Proof. exact @cobs_finalize_is_source. Qed.

Theorem C06_modifiers_define_exactly :
  cobs_methods = [nm_try_push; nm_finalize] /\ crc_ser_methods = [nm_try_push; nm_finalize] /\
  crc_de_entry_points_finalize_through_the_modifier = true.
Proof. exact modifiers_define_exactly. Qed.

(* from_bytes, take_from_bytes, from_bytes_cobs and take_from_bytes_cobs of de/mod.rs match, token
   for token up to renaming of locals, the code DeFlavors.from_bytes_cobs / take_from_bytes_cobs
   were written from: decode_in_place[_report], the optional sentinel after src_used, the two
   split_at_mut, from_bytes on the decoded prefix (re-checked on every run) *)
Theorem C06_entry_points_are_the_source : de_entry_points_standard = true.
Proof. reflexivity. Qed.

(* the serialising entry points are the code of ser/mod.rs (and of the crc module of
   ser/flavors.rs) as read on this run (GenSerEntry.v): the flavour stack each one builds from its
   own arguments (Slice::new(buf), HVec::default(), AllocVec::new(), Cobs::try_new(..)?,
   CrcModifier::new(.., digest), the aliases to_stdvec* and to_*_crc32 resolved through the macro
   instances), handed to serialize_with_flavor as matched against its template (serialize, then
   finalize with the error kind read from the source) *)
Theorem C06_cobs_entry_points_are_the_source : forall a v,
  omap EOSlice (to_slice_cobs v (ea_buf a)) = run_entry a v e_to_slice_cobs /\
  omap EOVec (to_vec_cobs (ea_cap a) v) = run_entry a v e_to_vec_cobs /\
  omap EOVec (to_allocvec_cobs v) = run_entry a v e_to_allocvec_cobs /\
  omap EOVec (to_allocvec_cobs v) = run_entry a v e_to_stdvec_cobs.
Proof. exact cobs_entries_are_source. Qed.

Print Assumptions C06_output_is_cobs.
Print Assumptions C06_output_heapless.
Print Assumptions C06_output_slice.
Print Assumptions C06_one_zero.
Print Assumptions C06_length.
Print Assumptions C06_roundtrip.
Print Assumptions C06_frames.
Print Assumptions C06_frames_no_last_sentinel.
Print Assumptions C06_cobs_try_push_is_the_source.
Print Assumptions C06_cobs_finalize_is_the_source.
Print Assumptions C06_modifiers_define_exactly.
Print Assumptions C06_entry_points_are_the_source.
Print Assumptions C06_cobs_entry_points_are_the_source.
