(* C11: reader/writer transports are equivalent to the slice path and never over-read
   (partial: read_exact / write_all are std's loops, modelled here, not translated; the
   harness drives real readers and writers that move 1 byte, random short pieces or
   everything, with interruptions, and failures injected at every offset, and replays each
   reader run on the model's chunked reader event by event). *)
From PV Require Import Base MachineInt DataModel Ser De SerFlavors DeFlavors IoChunks Simulation IoFacts IoChunkFacts StorageDecl GenStorages StorageInterp StorageFacts VarintParams IoReaderDecl GenIoReaders IoReaderSrc IoReaderFacts.
Open Scope N_scope.

(* writing through a writer produces exactly the plain encoding *)
Theorem C11_to_io_is_encode : forall v : value,
  ser_err v = None -> to_io v None false = Ok (enc v).
Proof. exact to_io_is_encode. Qed.

(* a writer that stops accepting before the end: an error, never a panic *)
Theorem C11_to_io_failure : forall (v : value) (k : nat),
  ser_err v = None -> (k < length (enc v))%nat ->
  to_io v (Some k) false = Err SerializeBufferFull \/ to_io v (Some k) false = Err CollectStrError.
Proof. exact to_io_failure. Qed.

(* whatever the writer accepted is a prefix of the plain encoding, and no more than it allows *)
Theorem C11_writer_prefix : forall (acc : list byte) (k : nat) (ff : bool) (ops : list op),
  match run_ops writer_flavor {| w_accepted := acc; w_limit := Some k; w_flush_fails := ff |} ops with
  | Ok w => w_accepted w = acc ++ flatten_ops ops /\ (length (w_accepted w) <= Nat.max k (length acc))%nat
  | Err e => (k < length (acc ++ flatten_ops ops))%nat /\ (e = SerializeBufferFull \/ e = CollectStrError)
  | _ => False
  end.
Proof. exact writer_run_ops_limited. Qed.

(* reading through a reader that does not fail, with enough scratch, yields exactly what
   slice decoding yields, and leaves in the reader exactly the bytes after the message:
   not one byte more is consumed, so consecutive messages can be read from one stream *)
Theorem C11_from_io_is_slice : forall (t : ty) (input scratch : list byte),
  (length input <= length scratch)%nat ->
  match from_io t {| rd_data := input; rd_limit := None |} scratch, de_slice t input with
  | Ok (v, (rd, _, _)), Ok (v', rest) => v = v' /\ rd_data rd = rest /\ rd_limit rd = None
  | Err e, Err e' => e = e'
  | _, _ => False
  end.
Proof. exact from_io_is_slice. Qed.

(* every way a writer accepts data in pieces: a schedule decides, call by call, how many bytes
   `write` takes (at least one) and when it is interrupted; write_all (std's loop, modelled in
   IoChunks.v) runs over it.  Whatever the schedule, the writer ends up holding exactly the plain
   encoding *)
Theorem C11_any_write_chunking_is_encode : forall (v : value) (sched : list wr_event),
  wgentle sched = true -> ser_err v = None -> to_io_c v sched false = Ok (enc v).
Proof. exact to_io_chunked_is_encode. Qed.
(* and with Ok(0) or a failure at any call, or a failing flush: a value or an error, never a panic *)
Theorem C11_any_write_schedule_total : forall (v : value) (sched : list wr_event) (flush_fails : bool),
  benign (to_io_c v sched flush_fails).
Proof. exact to_io_chunked_total. Qed.

(* every way a reader delivers its data in pieces: a schedule decides, call by call, how many
   bytes `read` hands over (at least one, never more than asked) and when it is interrupted;
   read_exact (std's loop, modelled in IoChunks.v) runs over it.  Whatever the schedule,
   decoding yields what slice decoding yields and leaves in the reader exactly the bytes
   after the message *)
Theorem C11_any_chunking_is_slice : forall (t : ty) (input : list byte) (sched : list rd_event) (scratch : list byte),
  gentle sched = true -> (length input <= length scratch)%nat ->
  match from_io_c t {| cr_data := input; cr_sched := sched |} scratch, de_slice t input with
  | Ok (v, (rd, _, _)), Ok (v', rest) => v = v' /\ cr_data rd = rest
  | Err e, Err e' => e = e'
  | _, _ => False
  end.
Proof. exact from_io_chunked_is_slice. Qed.
(* and with end-of-stream reports and failures at any call, any scratch size: a value or an
   error, never a panic, never a write outside the scratch buffer, and the loop terminates *)
Theorem C11_any_schedule_total : forall (t : ty) (r : creader) (scratch : list byte),
  benign (from_io_c t r scratch).
Proof. exact from_io_chunked_total. Qed.

(* any reader (failing at any point), any scratch size: a value or an error, never a panic,
   never a write outside the scratch buffer *)
Theorem C11_from_io_total : forall (t : ty) (r : reader) (scratch : list byte),
  benign (from_io t r scratch).
Proof. exact from_io_total. Qed.

(* borrowed data occupy consecutive disjoint slots of the scratch buffer, in decode order *)
Theorem C11_scratch_slots : forall (n : N) (s : ioreader) (bs : list byte) (s' : ioreader),
  io_inv s -> io_take_n n s = Ok (bs, s') ->
  io_cursor s' = (io_cursor s + N.to_nat n)%nat /\ (io_cursor s' <= length (io_scratch s'))%nat /\
  length (io_scratch s') = length (io_scratch s) /\
  firstn (io_cursor s) (io_scratch s') = firstn (io_cursor s) (io_scratch s) /\
  firstn (N.to_nat n) (skipn (io_cursor s) (io_scratch s')) = bs.
Proof. exact scratch_slots. Qed.

Example C11_example :
  from_io (TTuple [TStr; TInt U16]) {| rd_data := [2; 104; 105; 172; 2; 9; 9]; rd_limit := None |} [0; 0; 0]
  = Ok (VTuple [VStr [104; 105]; VInt U16 300], ({| rd_data := [9; 9]; rd_limit := None |}, [104; 105; 0], 2%nat)) /\
  from_io (TTuple [TStr; TInt U16]) {| rd_data := [2; 104; 105; 172; 2; 9; 9]; rd_limit := Some 3%nat |} [0; 0; 0]
  = Err DeserializeUnexpectedEnd /\
  from_io TStr {| rd_data := [2; 104; 105]; rd_limit := None |} [0] = Err DeserializeUnexpectedEnd.
Proof. repeat split; vm_compute; reflexivity. Qed.
Example C11_chunked_example :
  from_io_c (TTuple [TStr; TInt U16]) {| cr_data := [2; 104; 105; 172; 2; 9; 9]; cr_sched := [RdGive 0; RdInterrupted; RdGive 0; RdInterrupted; RdGive 5; RdGive 0] |} [0; 0; 0]
  = Ok (VTuple [VStr [104; 105]; VInt U16 300], ({| cr_data := [9; 9]; cr_sched := [] |}, [104; 105; 0], 2%nat)) /\
  from_io_c (TTuple [TStr; TInt U16]) {| cr_data := [2; 104; 105; 172; 2; 9; 9]; cr_sched := [RdGive 0; RdGive 0; RdFail] |} [0; 0; 0]
  = Err DeserializeUnexpectedEnd.
Proof. split; vm_compute; reflexivity. Qed.

(* the two writer flavours are the method bodies of ser/flavors.rs as read on this run
   (GenStorages.v): write_all of the one byte / of the whole slice, the error mapped to
   SerializeBufferFull, flush on finalize - on every writer state and every argument *)
Theorem C11_writers_are_the_source : forall w impl, impl = nm_io_Write \/ impl = nm_eio_Write ->
  (forall b, sf_push writer_flavor w b = unwriter (run_method impl nm_try_push (SWriter w) (AByte b))) /\
  (forall bs, sf_extend writer_flavor w bs = unwriter (run_method impl nm_try_extend (SWriter w) (ABytes bs))) /\
  sf_finalize writer_flavor w = unwriter_out (run_method impl nm_finalize (SWriter w) ANone).
Proof. exact writers_are_source. Qed.

(* IOReader and EIOReader are the code of de/flavors.rs as matched on this run (GenIoReaders.v:
   SlidingBuffer::new / size / take_n / complete and the readers' new / pop / size_hint / try_take_n /
   finalize token for token up to renaming of locals; the comparison and the error kinds are the
   holes): pop reads exactly one byte and maps a failed read to the error read from the source,
   try_take_n refuses when the scratch space left compares as the source says and then reads
   exactly ct bytes - over the whole-read reader and over the reader that delivers in chunks *)
Theorem C11_readers_are_the_source : forall s ct rp, rp = ioreader_src \/ rp = eioreader_src ->
  io_pop s = io_pop_with rp s /\ io_take_n ct s = io_take_n_with sliding_src rp ct s.
Proof. exact ioreader_is_source. Qed.
Theorem C11_chunked_readers_are_the_source : forall s ct rp, rp = ioreader_src \/ rp = eioreader_src ->
  cio_pop s = cio_pop_with rp s /\ cio_take_n ct s = cio_take_n_with sliding_src rp ct s.
Proof. exact chunked_ioreader_is_source. Qed.

Print Assumptions C11_to_io_is_encode.
Print Assumptions C11_to_io_failure.
Print Assumptions C11_writer_prefix.
Print Assumptions C11_from_io_is_slice.
Print Assumptions C11_from_io_total.
Print Assumptions C11_scratch_slots.
Print Assumptions C11_any_chunking_is_slice.
Print Assumptions C11_any_schedule_total.
Print Assumptions C11_any_write_chunking_is_encode.
Print Assumptions C11_any_write_schedule_total.
Print Assumptions C11_writers_are_the_source.
Print Assumptions C11_readers_are_the_source.
Print Assumptions C11_chunked_readers_are_the_source.
