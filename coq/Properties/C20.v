(* C20: stacked flavours compose as byte-stream transformers. *)
From PV Require Import Base MachineInt DataModel Ser De Cobs CobsRef Crc SerFlavors DeFlavors Sinks Thresholds CrcFacts Cobs Crc SerFlavors ModDecl GenModifiers ModInterp ModFacts StorageDecl GenStorages StorageInterp StorageFacts SchemaDecl SerEntryDecl GenSerEntry StorageInterp SerEntryInterp SerEntryFacts.
Open Scope N_scope.

(* checksum-then-COBS: the output is the COBS frame of (plain bytes followed by their
   checksum).  (Cobs<Crc<..>> does not type-check in Rust: CrcModifier has no IndexMut.) *)
Theorem C20_crc_inside_cobs : forall (alg : crc_alg) (nb : nat) (v : value),
  ser_err v = None ->
  to_allocvec_crc_cobs alg nb v = Ok (cobs_frame (enc v ++ le_bytes nb (crc alg (enc v)))).
Proof. exact crc_cobs_stack_alloc. Qed.

(* each single modifier is its transformation of the plain encoding, whatever the storage *)
Theorem C20_cobs_any_storage : forall (v : value) (cap : nat) (buf : list byte),
  ordinary_value v -> (length (cobs_frame (enc v)) <= cap)%nat -> (length (cobs_frame (enc v)) <= length buf)%nat ->
  to_allocvec_cobs v = Ok (cobs_frame (enc v)) /\ to_vec_cobs cap v = Ok (cobs_frame (enc v)) /\
  exists whole, to_slice_cobs v buf = Ok (cobs_frame (enc v), whole).
Proof.
  intros v cap buf Ho H1 H2. split; [apply to_allocvec_cobs_is_ref, Ho|]. split.
  - pose proof (to_vec_cobs_threshold cap v Ho) as H. apply Nat.leb_le in H1. rewrite H1 in H. exact H.
  - pose proof (to_slice_cobs_threshold v buf Ho) as H. apply Nat.leb_le in H2. rewrite H2 in H. exact H.
Qed.
Theorem C20_crc_any_storage : forall (alg : crc_alg) (nb : nat) (v : value) (cap : nat) (buf : list byte),
  ordinary_value v -> (length (enc v) + nb <= cap)%nat -> (length (enc v) + nb <= length buf)%nat ->
  to_allocvec_crc alg nb v = Ok (enc v ++ le_bytes nb (crc alg (enc v))) /\
  to_vec_crc alg nb cap v = Ok (enc v ++ le_bytes nb (crc alg (enc v))) /\
  exists whole, to_slice_crc alg nb v buf = Ok (enc v ++ le_bytes nb (crc alg (enc v)), whole).
Proof.
  intros alg nb v cap buf Ho H1 H2. split; [apply crc_output, Ho|]. split.
  - pose proof (to_vec_crc_threshold alg nb cap v Ho) as H. apply Nat.leb_le in H1. rewrite H1 in H. exact H.
  - pose proof (to_slice_crc_threshold alg nb v buf Ho) as H. apply Nat.leb_le in H2. rewrite H2 in H. exact H.
Qed.

(* undoing the layers in reverse order recovers the value: un-COBS (C06/C07), then the CRC
   check (C10), then plain decoding (C01) *)
Theorem C20_unstack : forall (alg : crc_alg) (nb : nat) (t : ty) (v : value),
  wf_alg alg -> 2 ^ c_width alg <= 256 ^ N.of_nat nb -> has_type v t = true ->
  CobsRef.cobs_dec_ref (CobsRef.take_frame (cobs_frame (enc v ++ le_bytes nb (crc alg (enc v)))))
  = Some (enc v ++ le_bytes nb (crc alg (enc v))) /\
  take_from_bytes_crc alg nb t (enc v ++ le_bytes nb (crc alg (enc v))) = Ok (v, []).
Proof. exact unstack. Qed.

(* a user-supplied flavour receives exactly the plain encoding, in order, whether or not it
   overrides the block method *)
Theorem C20_user_flavour : forall (overrides : bool) (v : value),
  ser_err v = None -> exists calls, to_recorder overrides v = Ok calls /\ flat_map call_bytes calls = enc v.
Proof. exact recorder_sees_plain. Qed.

(* the COBS modifier of these theorems is the code: try_push and finalize of ser/flavors.rs's
   Cobs<B> are re-read from the source on every run (the match on the encoder's push result with
   each arm's writes, which results are propagated with `?`) and interpreted over any inner flavour *)
Theorem C20_cobs_try_push_is_the_source : forall (St Out : Type) (inner : sflavor St Out) (alg : crc_alg) (nb : nat)
    (s : St) (e : enc_state) (d : N) (data : byte),
  cobs_push inner (s, e) data =
  let* '(m, _) := mrun inner alg nb cobs_try_push [MvByte data] {| ms_inner := s; ms_cobs := e; ms_digest := d |} in
  Ok (ms_inner m, ms_cobs m).
Proof. exact @cobs_push_is_source. Qed.
Theorem C20_cobs_finalize_is_the_source : forall (St Out : Type) (inner : sflavor St Out) (alg : crc_alg) (nb : nat)
    (s : St) (e : enc_state) (d : N),
  cobs_finalize inner (s, e) =
  let* '(_, out) := mrun inner alg nb cobs_finalize_steps [] {| ms_inner := s; ms_cobs := e; ms_digest := d |} in
  match out with Some o => Ok o | None => Panic end.
Proof. exact @cobs_finalize_is_source. Qed.
(* the CRC modifier of these theorems is the code: try_push and finalize of ser/flavors.rs's
   CrcModifier are re-read from the source on every run and interpreted over any inner flavour;
   the deserialisation side is matched against a template with holes (which bytes reach the
   digest, how many checksum bytes are read, the two error kinds, the five widths) *)
Theorem C20_crc_try_push_is_the_source : forall (St Out : Type) (inner : sflavor St Out) (alg : crc_alg) (nb : nat)
    (s : St) (e : enc_state) (d : N) (b : byte),
  crcm_push inner alg (s, d) b =
  let* '(m, _) := mrun inner alg nb crc_try_push [MvByte b] {| ms_inner := s; ms_cobs := e; ms_digest := d |} in
  Ok (ms_inner m, ms_digest m).
Proof. exact @crc_push_is_source. Qed.
Theorem C20_crc_finalize_is_the_source : forall (St Out : Type) (inner : sflavor St Out) (alg : crc_alg) (nb : nat)
    (s : St) (e : enc_state) (d : N),
  crcm_finalize inner alg nb (s, d) =
  let* '(_, out) := mrun inner alg nb crc_finalize_steps [] {| ms_inner := s; ms_cobs := e; ms_digest := d |} in
  match out with Some o => Ok o | None => Panic end.
Proof. exact @crc_finalize_is_source. Qed.
Theorem C20_crc_de_is_the_source :
  crc_de_pop_updates_digest_with_the_byte = true /\ crc_de_take_updates_digest_with_the_bytes = true /\
  crc_de_finalize = (DeserializeBadEncoding, DeserializeBadCrc) /\ crc_de_widths = crc_ser_widths.
Proof. exact crc_de_is_source. Qed.

Theorem C20_modifiers_define_exactly :
  cobs_methods = [nm_try_push; nm_finalize] /\ crc_ser_methods = [nm_try_push; nm_finalize] /\
  crc_de_entry_points_finalize_through_the_modifier = true.
Proof. exact modifiers_define_exactly. Qed.

(* the storages under the modifiers are the method bodies of ser/flavors.rs as read on this run
   (GenStorages.v: which store operation each try_push / try_extend / finalize / index_mut
   performs, on which argument, what becomes of its result, which error is reported),
   interpreted over the documented behaviour of heapless::Vec, alloc's Vec, an Extend<u8> sink, a
   usize counter and an io / embedded-io writer: on every state and every argument *)
Theorem C20_hvec_is_the_source : forall cap v,
  (forall b, sf_push (hvec_flavor cap) v b = unvec (run_method nm_HVec nm_try_push (SVec (Some cap) v) (AByte b))) /\
  (forall bs, sf_extend (hvec_flavor cap) v bs = unvec (run_method nm_HVec nm_try_extend (SVec (Some cap) v) (ABytes bs))) /\
  sf_finalize (hvec_flavor cap) v = unvec (run_method nm_HVec nm_finalize (SVec (Some cap) v) ANone) /\
  (forall i b, sf_set (hvec_flavor cap) v i b = unvec (run_method nm_HVec_IndexMut nm_index_mut (SVec (Some cap) v) (ASet i b))).
Proof. exact hvec_is_source. Qed.
Theorem C20_allocvec_is_the_source : forall v,
  (forall b, sf_push alloc_flavor v b = unvec (run_method nm_AllocVec nm_try_push (SVec None v) (AByte b))) /\
  (forall bs, sf_extend alloc_flavor v bs = unvec (run_method nm_AllocVec nm_try_extend (SVec None v) (ABytes bs))) /\
  sf_finalize alloc_flavor v = unvec (run_method nm_AllocVec nm_finalize (SVec None v) ANone) /\
  (forall i b, sf_set alloc_flavor v i b = unvec (run_method nm_AllocVec_IndexMut nm_index_mut (SVec None v) (ASet i b))).
Proof. exact allocvec_is_source. Qed.
Theorem C20_extend_flavor_is_the_source : forall v,
  (forall b, sf_push extend_flavor v b = unvec (run_method nm_ExtendFlavor nm_try_push (SIter v) (AByte b))) /\
  (forall bs, sf_extend extend_flavor v bs = unvec (run_method nm_ExtendFlavor nm_try_extend (SIter v) (ABytes bs))) /\
  sf_finalize extend_flavor v = unvec (run_method nm_ExtendFlavor nm_finalize (SIter v) ANone).
Proof. exact extend_flavor_is_source. Qed.
Theorem C20_size_is_the_source : forall n,
  (forall b, sf_push size_flavor n b = unsize (run_method nm_Size nm_try_push (SSize n) (AByte b))) /\
  (forall bs, sf_extend size_flavor n bs = unsize (run_method nm_Size nm_try_extend (SSize n) (ABytes bs))) /\
  sf_finalize size_flavor n = unsize (run_method nm_Size nm_finalize (SSize n) ANone).
Proof. exact size_is_source. Qed.
Theorem C20_writers_are_the_source : forall w impl, impl = nm_io_Write \/ impl = nm_eio_Write ->
  (forall b, sf_push writer_flavor w b = unwriter (run_method impl nm_try_push (SWriter w) (AByte b))) /\
  (forall bs, sf_extend writer_flavor w bs = unwriter (run_method impl nm_try_extend (SWriter w) (ABytes bs))) /\
  sf_finalize writer_flavor w = unwriter_out (run_method impl nm_finalize (SWriter w) ANone).
Proof. exact writers_are_source. Qed.
(* a flavour without its own try_extend (a user flavour, Cobs, CrcModifier) gets the trait's
   default body: byte by byte through its own try_push *)
Theorem C20_default_extend_is_the_source : forall push s bs,
  storage_method nm_Flavor nm_try_extend = Some ODefaultExtend /\
  run_sop push ODefaultExtend s (ABytes bs) = extend_by_push push s bs.
Proof. exact default_extend_is_source. Qed.
Theorem C20_storage_impls_define :
  map (fun im => (fst im, map fst (snd im))) storage_methods =
  [(nm_Flavor, [nm_try_extend]);
   (nm_HVec, [nm_finalize; nm_try_extend; nm_try_push]); (nm_AllocVec, [nm_finalize; nm_try_extend; nm_try_push]);
   (nm_ExtendFlavor, [nm_finalize; nm_try_extend; nm_try_push]); (nm_Size, [nm_finalize; nm_try_extend; nm_try_push]);
   (nm_eio_Write, [nm_finalize; nm_try_extend; nm_try_push]); (nm_io_Write, [nm_finalize; nm_try_extend; nm_try_push]);
   (nm_HVec_IndexMut, [nm_index_mut]); (nm_AllocVec_IndexMut, [nm_index_mut])].
Proof. exact storage_impls_define. Qed.

(* the serialising entry points are the code of ser/mod.rs (and of the crc module of
   ser/flavors.rs) as read on this run (GenSerEntry.v): the flavour stack each one builds from its
   own arguments (Slice::new(buf), HVec::default(), AllocVec::new(), Cobs::try_new(..)?,
   CrcModifier::new(.., digest), the aliases to_stdvec* and to_*_crc32 resolved through the macro
   instances), handed to serialize_with_flavor as matched against its template (serialize, then
   finalize with the error kind read from the source) *)
Theorem C20_plain_entry_points_are_the_source : forall a v,
  omap EOSlice (to_slice v (ea_buf a)) = run_entry a v e_to_slice /\
  omap EOVec (to_vec (ea_cap a) v) = run_entry a v e_to_vec /\
  omap EOVec (to_allocvec v) = run_entry a v e_to_allocvec /\
  omap EOVec (to_allocvec v) = run_entry a v e_to_stdvec /\
  omap EOVec (to_extend v (ea_sink a)) = run_entry a v e_to_extend /\
  omap EOVec (to_io v (ea_limit a) (ea_flush_fails a)) = run_entry a v e_to_io /\
  omap EOVec (to_io v (ea_limit a) (ea_flush_fails a)) = run_entry a v e_to_eio /\
  omap EOSize (serialized_size v) = run_entry a v e_serialized_size.
Proof. exact plain_entries_are_source. Qed.
Theorem C20_cobs_entry_points_are_the_source : forall a v,
  omap EOSlice (to_slice_cobs v (ea_buf a)) = run_entry a v e_to_slice_cobs /\
  omap EOVec (to_vec_cobs (ea_cap a) v) = run_entry a v e_to_vec_cobs /\
  omap EOVec (to_allocvec_cobs v) = run_entry a v e_to_allocvec_cobs /\
  omap EOVec (to_allocvec_cobs v) = run_entry a v e_to_stdvec_cobs.
Proof. exact cobs_entries_are_source. Qed.
Theorem C20_crc32_entry_points_are_the_source : forall a v, ea_nb a = 4%nat ->
  omap EOSlice (to_slice_crc (ea_alg a) 4 v (ea_buf a)) = run_entry a v e_to_slice_crc32 /\
  omap EOVec (to_vec_crc (ea_alg a) 4 (ea_cap a) v) = run_entry a v e_to_vec_crc32 /\
  omap EOVec (to_allocvec_crc (ea_alg a) 4 v) = run_entry a v e_to_allocvec_crc32 /\
  omap EOVec (to_allocvec_crc (ea_alg a) 4 v) = run_entry a v e_to_stdvec_crc32.
Proof. exact crc32_entries_are_source. Qed.

Print Assumptions C20_crc_inside_cobs.
Print Assumptions C20_cobs_any_storage.
Print Assumptions C20_crc_any_storage.
Print Assumptions C20_unstack.
Print Assumptions C20_user_flavour.
Print Assumptions C20_cobs_try_push_is_the_source.
Print Assumptions C20_cobs_finalize_is_the_source.
Print Assumptions C20_crc_try_push_is_the_source.
Print Assumptions C20_crc_finalize_is_the_source.
Print Assumptions C20_crc_de_is_the_source.
Print Assumptions C20_modifiers_define_exactly.
Print Assumptions C20_hvec_is_the_source.
Print Assumptions C20_allocvec_is_the_source.
Print Assumptions C20_extend_flavor_is_the_source.
Print Assumptions C20_size_is_the_source.
Print Assumptions C20_writers_are_the_source.
Print Assumptions C20_default_extend_is_the_source.
Print Assumptions C20_storage_impls_define.
Print Assumptions C20_plain_entry_points_are_the_source.
Print Assumptions C20_cobs_entry_points_are_the_source.
Print Assumptions C20_crc32_entry_points_are_the_source.
