(* C12: POSTCARD_MAX_SIZE is an upper bound on the encoded size of every value.
   Only statements, `exact`, and Print Assumptions live here.

   mty: type expressions for every built-in `impl MaxSize` and the derive; max_size evaluates
   the impl rows the translator reads from max_size.rs on every run (GenMaxSize.v) with
   varint_max / varint_size / max / varint_size_discriminant translated from the sources
   (GenArith.v); mhas v t: v is a value of t as serde presents it (capacities, non-zero);
   enc: the encoder of C01/C02. *)
From PV Require Import Base MachineInt GenArith DataModel MaxSizeDecl GenMaxSize MaxSize Ser WireFormat MaxSizeFacts GenDeriveMaxSize.
From Coq Require Import Lia.
Open Scope N_scope.

(* every value of every such type serialises, and to at most the declared maximum: a buffer of
   that size always suffices (C05: to_slice succeeds iff capacity >= length) *)
Theorem C12_bound : forall t v b,
  mty_ok t = true -> mhas v t = true -> max_size t = Some b ->
  ser_err v = None /\ N.of_nat (length (enc v)) <= b.
Proof. exact max_size_bound_enc. Qed.

(* the two size helpers mean what their comments say *)
Theorem C12_varint_size : forall m n, m <= n -> n < 2 ^ 64 ->
  N.of_nat (length (spec_varint m)) <= Z.to_N (Core.varint_size (Z.of_N n)).
Proof. exact len_prefix_le. Qed.
Theorem C12_discriminant : forall idx count, idx < count -> count < 2 ^ 32 ->
  N.of_nat (length (spec_varint idx)) <= Z.to_N (Derive.varint_size_discriminant (Z.of_N count)).
Proof. exact discriminant_le. Qed.

(* tightness: for integers (and the NonZero types), floats, bool, char, unit, arrays, tuples, options,
   fixed-capacity strings and vectors, references/smart pointers to those, and derived structs
   of those, the maximum is attained - by an explicit value (extremes of every width, U+10FFFF,
   full containers) *)
Theorem C12_tight : forall t,
  tight_kind t = true -> mty_ok t = true ->
  exists b, max_size t = Some b /\ mhas (max_value t) t = true /\
            N.of_nat (length (spec_enc (max_value t))) = b.
Proof. exact max_size_attained. Qed.
(* the length prefix of a full fixed-capacity container is exactly varint_size(capacity) *)
Theorem C12_varint_size_exact : forall n, n < 2 ^ 64 ->
  N.of_nat (length (spec_varint n)) = Z.to_N (Core.varint_size (Z.of_N n)).
Proof. exact varint_size_exact. Qed.

(* enums are safe but not tight: the derive sizes the discriminant by the variant COUNT, so an
   enum with 128 unit variants declares 2 bytes although every value takes 1 *)
Example C12_enum_not_tight :
  max_size (MEnum (repeat [] 128)) = Some 2 /\
  forall idx, idx < 128 -> length (spec_enc (VVariant idx (VStruct []))) = 1%nat.
Proof.
  split; [vm_compute; reflexivity|]. intros idx H. cbn [spec_enc flat_map]. rewrite app_nil_r.
  rewrite VarintFacts.spec_varint_unfold. destruct (N.ltb_spec idx 128); [reflexivity|lia].
Qed.

(* non-vacuity: a derived enum inside a fixed-capacity vector *)
Example C12_example :
  let t := MHVec (MEnum [[]; [MInt U8; MInt I128]; [MOption MChar]]) 130 in
  let v := VSeq [VVariant 1 (VStruct [VInt U8 255; VInt I128 (- 2 ^ 127)]); VVariant 0 (VStruct [])] in
  mty_ok t = true /\ mhas v t = true /\ max_size t = Some (21 * 130 + 2) /\ length (enc v) = 23%nat.
Proof. repeat split; vm_compute; reflexivity. Qed.

(* the derive of postcard-derive/src/max_size.rs (do_derive_max_size, add_trait_bounds, max_size_sum,
   sum_fields) is, token for token up to renaming of locals, the code the derive rule of the model
   was written from (tools/fn_templates.json); varint_size_discriminant is translated (GenArith.v) *)
Theorem C12_derive_is_the_source :
  derive_ms_fns_matched =
  [[97; 100; 100; 95; 116; 114; 97; 105; 116; 95; 98; 111; 117; 110; 100; 115];
   [100; 111; 95; 100; 101; 114; 105; 118; 101; 95; 109; 97; 120; 95; 115; 105; 122; 101];
   [109; 97; 120; 95; 115; 105; 122; 101; 95; 115; 117; 109];
   [115; 117; 109; 95; 102; 105; 101; 108; 100; 115]].
Proof. exact (eq_refl derive_ms_fns_matched). Qed.

Print Assumptions C12_bound.
Print Assumptions C12_varint_size.
Print Assumptions C12_discriminant.
Print Assumptions C12_tight.
Print Assumptions C12_varint_size_exact.
Print Assumptions C12_derive_is_the_source.
