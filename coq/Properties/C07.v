(* C07: COBS decoding of arbitrary bytes is total and agrees with the COBS definition. *)
From PV Require Import Base MachineInt DataModel De Cobs CobsRef DeFlavors CobsDecFacts CobsEntry GenEntryPoints.
Open Scope N_scope.

(* For every buffer, the in-place decoder (one buffer, explicit read and write indices, every
   index checked: an out-of-range access is Panic) computes the reference decoding of the
   first frame (the bytes before the first zero, or all of them): it fails exactly when
   the reference decoder does (a code byte points past the end of the frame); otherwise the
   decoded payload is at the front of the buffer, src_used is the frame length, the buffer
   keeps its length and everything from the end of the frame on is untouched. *)
Theorem C07_decoder_is_reference : forall buf : list byte,
  match cobs_dec_ref (take_frame buf) with
  | None => decode_in_place_report buf = Ok None
  | Some p =>
    exists buf', decode_in_place_report buf
                 = Ok (Some (buf', {| dst_used := length p; src_used := length (take_frame buf) |})) /\
                 length buf' = length buf /\ firstn (length p) buf' = p /\
                 skipn (length (take_frame buf)) buf' = skipn (length (take_frame buf)) buf /\
                 (length p <= length (take_frame buf))%nat
  end.
Proof. exact decode_in_place_spec. Qed.

(* frame-at-a-time decoding = reference COBS decoding of the first frame followed by plain
   decoding; ill-formed COBS is a bad-encoding error; the remainder begins immediately
   after the frame's sentinel (empty when there is none) *)
Theorem C07_take_from_bytes_cobs : forall (t : ty) (buf : list byte),
  take_from_bytes_cobs t buf =
  match cobs_dec_ref (take_frame buf) with
  | None => Err DeserializeBadEncoding
  | Some payload =>
    let* '(v, _) := de_slice t payload in
    Ok (v, skipn (S (length (take_frame buf))) buf)
  end.
Proof. exact take_from_bytes_cobs_spec. Qed.

Theorem C07_from_bytes_cobs : forall (t : ty) (buf : list byte),
  match from_bytes_cobs t buf, cobs_then_plain t buf with
  | Ok (v, buf'), Ok (v', _) => v = v' /\ length buf' = length buf
  | Err e, Err e' => e = e'
  | _, _ => False
  end.
Proof. exact from_bytes_cobs_spec. Qed.

(* never a panic, never an access outside the buffer, never out of fuel: for every byte string *)
Theorem C07_total : forall (t : ty) (buf : list byte),
  benign (decode_in_place_report buf) /\ benign (take_from_bytes_cobs t buf) /\ benign (from_bytes_cobs t buf).
Proof.
  intros t buf. split; [apply decode_in_place_total|apply cobs_entry_total].
Qed.

Example C07_example :
  take_from_bytes_cobs (TTuple [TInt U8; TInt U8]) [3; 17; 34; 0; 9; 9] = Ok (VTuple [VInt U8 17; VInt U8 34], [9; 9]) /\
  take_from_bytes_cobs (TTuple [TInt U8; TInt U8]) [4; 17; 34; 0; 9; 9] = Err DeserializeBadEncoding /\
  take_from_bytes_cobs (TTuple [TInt U8; TInt U8]) [2; 17; 2; 34] = Ok (VTuple [VInt U8 17; VInt U8 0], []) /\
  take_from_bytes_cobs (TInt U8) [] = Err DeserializeUnexpectedEnd.
Proof. repeat split; vm_compute; reflexivity. Qed.

(* from_bytes, take_from_bytes, from_bytes_cobs and take_from_bytes_cobs of de/mod.rs match, token
   for token up to renaming of locals, the code DeFlavors.from_bytes_cobs / take_from_bytes_cobs
   were written from: decode_in_place[_report], the optional sentinel after src_used, the two
   split_at_mut, from_bytes on the decoded prefix (re-checked on every run) *)
Theorem C07_entry_points_are_the_source : de_entry_points_standard = true.
Proof. reflexivity. Qed.

Print Assumptions C07_decoder_is_reference.
Print Assumptions C07_take_from_bytes_cobs.
Print Assumptions C07_from_bytes_cobs.
Print Assumptions C07_total.
Print Assumptions C07_entry_points_are_the_source.
