(* C13: fixed-width integer adapters emit exactly size_of bytes in the chosen byte order.
   Only statements, `exact`, and Print Assumptions live here. *)
From PV Require Import Base MachineInt DataModel Ser De Fixint FixintFacts GenFixint FixintSrc.
Open Scope N_scope.

(* a field marked le/be serialises as one try_push per byte of the integer's little/big
   endian representation: never a varint, never a length prefix *)
Theorem C13_ops : forall (be : bool) (k : ikind) (z : Z),
  ser_ops (fix_value be k z) = (map Push (fix_bytes be k z), None).
Proof. exact fixint_ops. Qed.

Theorem C13_bytes : forall (be : bool) (k : ikind) (z : Z),
  enc (fix_value be k z) =
  if be then rev (le_bytes (nbytes k) (bit_pattern k z)) else le_bytes (nbytes k) (bit_pattern k z).
Proof. exact fixint_enc. Qed.

Theorem C13_length : forall (be : bool) (k : ikind) (z : Z),
  length (enc (fix_value be k z)) = Z.to_nat (bits (ik_ity k) / 8).
Proof. intros be k z. rewrite fixint_enc. exact (fixint_length be k z). Qed.

(* decoding returns the original integer and hands back the remainder *)
Theorem C13_roundtrip : forall (be : bool) (k : ikind) (z : Z) (rest : list byte),
  in_range (ik_ity k) z ->
  exists v, de_slice (fix_ty k) (enc (fix_value be k z) ++ rest) = Ok (v, rest)
            /\ fix_decode be k v = Some z.
Proof. exact fixint_roundtrip. Qed.

(* non-vacuity: a concrete negative i32 in both orders *)
Example C13_example :
  enc (fix_value true I32 (-2)) = [255; 255; 255; 254] /\
  enc (fix_value false I32 (-2)) = [254; 255; 255; 255] /\
  in_range (ik_ity I32) (-2).
Proof. repeat split; vm_compute; congruence. Qed.

(* fixint.rs says what Fixint.v models: read from the source on every run, the `le` module goes
   through LE<T>, whose Serialize uses to_le_bytes and whose Deserialize uses from_le_bytes, `be`
   likewise with the big-endian pair, and the wrappers exist for exactly i16..i128, u16..u128 *)
Theorem C13_source_is_what_is_modelled : fixint_ok = true.
Proof. reflexivity. Qed.

(* positional form of "in the chosen byte order": offset i of an LE<T> field holds bits 8i..8i+7 of
   the two's-complement pattern, offset i of a BE<T> field holds bits 8(size_of-1-i).. *)
Theorem C13_byte_at : forall (be : bool) (k : ikind) (z : Z) (i : nat), (i < nbytes k)%nat ->
  nth_error (enc (fix_value be k z)) i =
  Some ((bit_pattern k z / 256 ^ N.of_nat (if be then nbytes k - 1 - i else i)) mod 256).
Proof. exact fixint_byte_at. Qed.

Theorem C13_be_is_reversed_le : forall (k : ikind) (z : Z),
  enc (fix_value true k z) = rev (enc (fix_value false k z)).
Proof. exact fixint_be_is_rev_le. Qed.

Print Assumptions C13_ops.
Print Assumptions C13_bytes.
Print Assumptions C13_length.
Print Assumptions C13_roundtrip.
Print Assumptions C13_source_is_what_is_modelled.
Print Assumptions C13_byte_at.
Print Assumptions C13_be_is_reversed_le.
