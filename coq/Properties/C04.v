(* C04: decoding untrusted bytes is total, in bounds and resource-bounded (partial: the
   machine-level effect of the unsafe reads and the real allocator are observed by the
   harness under guard pages and a counting allocator, not proved; what IS proved about
   resources: the pre-allocation hint never exceeds the remaining input, and the size of
   whatever a decode returns is linear in the bytes it consumed). *)
From PV Require Import Base MachineInt DataModel De DeFlavors WireFormat Simulation PtrSlice SizeBound PtrDecl GenPtrCode PtrInterp PtrCodeFacts.
Open Scope N_scope.

(* For every byte string and every shape, decoding through the raw-pointer slice flavour
   (cursor/end indices, reads that would be out of bounds modelled as Fault, over-wide
   shifts and bad slices as Panic) returns exactly what the reference decoder returns, and
   that is always a value or an error: never Panic, never Fault (no byte outside the input
   is read), never out of fuel. *)
Theorem C04_total_in_bounds : forall (t : ty) (input : list byte),
  bytes_ok input ->
  take_from_bytes_ptr t input = spec_de t input /\ benign (take_from_bytes_ptr t input).
Proof. exact decode_total. Qed.

(* the pointer-level decoder and the list-level one agree on every input, unconditionally *)
Theorem C04_ptr_is_slice : forall (t : ty) (input : list byte),
  take_from_bytes_ptr t input = de_slice t input.
Proof. exact take_from_bytes_ptr_is_slice. Qed.

(* every borrowed string / byte slice is the sub-list of the input at the cursor, i.e. right
   after its length prefix, and the cursor never leaves the input *)
Theorem C04_borrowed_in_input : forall (n : N) (s : dslice) (l bs : list byte) (s' : dslice),
  ptr_inv s l -> dslice_take_n n s = Ok (bs, s') ->
  bs = firstn (N.to_nat n) (skipn (ds_cursor s) (ds_input s)) /\
  ds_cursor s' = (ds_cursor s + N.to_nat n)%nat /\ (ds_cursor s' <= length (ds_input s))%nat /\
  ds_input s' = ds_input s.
Proof. exact take_n_in_input. Qed.

(* the sequence size hint (what collection visitors pre-allocate from) never exceeds the
   number of input bytes that remain, whatever length the input claims *)
Theorem C04_hint_sound : forall (s : dslice) (l : list byte) (n len : N),
  ptr_inv s l -> seq_size_hint (dslice_hint s) len = Some n -> n <= N.of_nat (length l) /\ n = len.
Proof. exact hint_sound. Qed.

(* whatever lengths the input claims: the value a successful decode builds (one unit per node,
   one per byte of string / byte-buffer content: what the collection visitors allocate) is at
   most slope(t) * consumed + offset(t), two constants of the shape alone, for every shape in
   which no sequence or map has elements that occupy no bytes (no_zero_width: the property's
   own exclusion) *)
Theorem C04_decoded_size_linear : forall (t : ty) (input : list byte) (v : value) (rest : list byte),
  bytes_ok input -> no_zero_width t = true ->
  take_from_bytes_ptr t input = Ok (v, rest) ->
  exists consumed, input = consumed ++ rest /\ vsize v <= slope t * N.of_nat (length consumed) + offset t.
Proof. exact ptr_decoded_size_linear. Qed.
(* the exclusion is necessary: nine bytes decode to 2^63 - 1 units ... the model's loop would
   not finish; a small instance shows the growth: 3 bytes, 16 384 elements *)
Example C04_zero_width_unbounded :
  no_zero_width (TSeq TUnit) = false /\
  match take_from_bytes_ptr (TSeq TUnit) [128; 128; 1] with Ok (v, _) => vsize v | _ => 0 end = 16385.
Proof. split; vm_compute; reflexivity. Qed.
Example C04_size_example :
  let t := TSeq (TStruct [TStr; TOption (TInt U16)]) in
  no_zero_width t = true /\ slope t = 7 /\ offset t = 1.
Proof. repeat split; vm_compute; reflexivity. Qed.

(* the pointer-level flavour of these theorems is the code: pop, try_take_n, size_hint and
   finalize of de/flavors.rs's Slice are re-read from the source on every run as statement trees
   over the raw pointers (comparisons, the usize differences, from_raw_parts, cursor updates)
   and interpreted with pointers as indices (an access outside the buffer: Fault) *)
Theorem C04_pop_is_the_source : forall s : dslice,
  dslice_pop s = let* '(m, r) := prun de_slice_pop [] (mach_of_d s) in
                 match r with QByte b => Ok (b, d_of m) | _ => Panic end.
Proof. exact dslice_pop_is_source. Qed.
Theorem C04_try_take_n_is_the_source : forall (ct : N) (s : dslice),
  dslice_take_n ct s = let* '(m, r) := prun de_slice_try_take_n [PvN (N.to_nat ct)] (mach_of_d s) in
                       match r with QBytes bs => Ok (bs, d_of m) | _ => Panic end.
Proof. exact dslice_take_n_is_source. Qed.
Theorem C04_finalize_is_the_source : forall s : dslice,
  dslice_finalize s = let* '(_, r) := prun de_slice_finalize [] (mach_of_d s) in
                      match r with QBytes bs => Ok bs | _ => Panic end.
Proof. exact dslice_finalize_is_source. Qed.
Theorem C04_size_hint_is_the_source : forall s : dslice, (ds_cursor s <= ds_end s)%nat ->
  (let* '(_, r) := prun de_slice_size_hint [] (mach_of_d s) in match r with QSome k => Ok (Some (N.of_nat k)) | _ => Panic end)
  = Ok (dslice_hint s).
Proof. exact dslice_hint_is_source. Qed.

Example C04_example :
  take_from_bytes_ptr (TSeq (TInt U8)) [255; 255; 255; 255; 255; 255; 255; 255; 255; 1; 1; 2]
  = Err DeserializeUnexpectedEnd /\
  take_from_bytes_ptr (TStruct [TStr; TInt U16]) [2; 104; 105; 172; 2; 9] = Ok (VStruct [VStr [104; 105]; VInt U16 300], [9]).
Proof. split; vm_compute; reflexivity. Qed.

Print Assumptions C04_total_in_bounds.
Print Assumptions C04_ptr_is_slice.
Print Assumptions C04_borrowed_in_input.
Print Assumptions C04_hint_sound.
Print Assumptions C04_decoded_size_linear.
Print Assumptions C04_pop_is_the_source.
Print Assumptions C04_try_take_n_is_the_source.
Print Assumptions C04_finalize_is_the_source.
Print Assumptions C04_size_hint_is_the_source.
