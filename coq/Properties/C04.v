(* C04: decoding untrusted bytes is total, in bounds and resource-bounded (partial: the
   machine-level effect of the unsafe reads and the real allocator are observed by the
   harness under guard pages and a counting allocator, not proved). *)
From PV Require Import Base MachineInt DataModel De DeFlavors WireFormat Simulation PtrSlice.
Open Scope N_scope.

(* For every byte string and every shape, decoding through the raw-pointer slice flavour
   (cursor/end indices, reads that would be out of bounds modelled as Fault, over-wide
   shifts and bad slices as Panic) returns exactly what the reference decoder returns, and
   that is always a value or an error: never Panic, never Fault (no byte outside the input
   is read), never out of fuel. *)
Theorem C04_total_in_bounds : forall (t : ty) (input : list byte),
  bytes_ok input ->
  take_from_bytes_ptr t input = spec_de t input /\ benign (take_from_bytes_ptr t input).
Proof. exact decode_total. Qed.

(* the pointer-level decoder and the list-level one agree on every input, unconditionally *)
Theorem C04_ptr_is_slice : forall (t : ty) (input : list byte),
  take_from_bytes_ptr t input = de_slice t input.
Proof. exact take_from_bytes_ptr_is_slice. Qed.

(* every borrowed string / byte slice is the sub-list of the input at the cursor, i.e. right
   after its length prefix, and the cursor never leaves the input *)
Theorem C04_borrowed_in_input : forall (n : N) (s : dslice) (l bs : list byte) (s' : dslice),
  ptr_inv s l -> dslice_take_n n s = Ok (bs, s') ->
  bs = firstn (N.to_nat n) (skipn (ds_cursor s) (ds_input s)) /\
  ds_cursor s' = (ds_cursor s + N.to_nat n)%nat /\ (ds_cursor s' <= length (ds_input s))%nat /\
  ds_input s' = ds_input s.
Proof. exact take_n_in_input. Qed.

(* the sequence size hint (what collection visitors pre-allocate from) never exceeds the
   number of input bytes that remain, whatever length the input claims *)
Theorem C04_hint_sound : forall (s : dslice) (l : list byte) (n len : N),
  ptr_inv s l -> seq_size_hint (dslice_hint s) len = Some n -> n <= N.of_nat (length l) /\ n = len.
Proof. exact hint_sound. Qed.

Example C04_example :
  take_from_bytes_ptr (TSeq (TInt U8)) [255; 255; 255; 255; 255; 255; 255; 255; 255; 1; 1; 2]
  = Err DeserializeUnexpectedEnd /\
  take_from_bytes_ptr (TStruct [TStr; TInt U16]) [2; 104; 105; 172; 2; 9] = Ok (VStruct [VStr [104; 105]; VInt U16 300], [9]).
Proof. split; vm_compute; reflexivity. Qed.

Print Assumptions C04_total_in_bounds.
Print Assumptions C04_ptr_is_slice.
Print Assumptions C04_borrowed_in_input.
Print Assumptions C04_hint_sound.
