(* C19: schema inspection helpers are total and faithful for every schema.
   Only statements, `exact`, and Print Assumptions live here.

   pseudocode: to_pseudocode / Display (fmt_owned_dmt_to_buf, top_level = true); used_types:
   all_used_types (discover_tys) as the list of set insertions.  Literals and panicking arms
   are the tables the translator reads from fmt.rs (GenFmt.v, GenPanicArms.v). *)
From PV Require Import Base DataModel Schema SchemaDecl GenFmt GenFnTemplates GenPanicArms SchemaFmt FmtOps SchemaNest FmtFacts.
Open Scope N_scope.

(* rendering terminates with text for every schema (no panicking arm, no index out of range) *)
Theorem C19_render_total : forall s, schema_wf s = true -> exists bs, pseudocode s = Ok bs.
Proof. exact render_total. Qed.

(* collecting the used types terminates with a set for every schema, including the pointer-sized
   integers and the schema-of-schema kind *)
Theorem C19_used_types_total : forall s, exists l, used_types s = Ok l.
Proof. exact used_types_total. Qed.

(* the collected set contains the schema itself and every schema nested inside it, and nothing else *)
Theorem C19_used_types_exact : forall s l, used_types s = Ok l -> forall x, In x l <-> subschema x s.
Proof. exact used_types_spec. Qed.

(* the rendering of a top-level struct mentions its name and each field name *)
Theorem C19_struct_mentions : forall n k fs,
  schema_wf (SStruct n k fs) = true ->
  exists bs, pseudocode (SStruct n k fs) = Ok bs /\ infix n bs /\
             (k = DStruct -> forall f, In f fs -> infix (fst f) bs).
Proof. exact render_struct_mentions. Qed.

(* the rendering of a top-level enum mentions its name, each variant name and each field name *)
Theorem C19_enum_mentions : forall n vs,
  schema_wf (SEnum n vs) = true ->
  exists bs, pseudocode (SEnum n vs) = Ok bs /\ infix n bs /\
             (forall v, In v vs -> infix (fst (fst v)) bs /\
                        (snd (fst v) = DStruct -> forall f, In f (snd v) -> infix (fst f) bs)).
Proof. exact render_enum_mentions. Qed.

(* non-vacuity: "struct B { a: usize, s: Schema }" and its three used types *)
Example C19_example :
  let s := SStruct [66] DStruct [([97], SPrim PUsize); ([115], SPrim PSchema)] in
  schema_wf s = true /\
  pseudocode s = Ok [115; 116; 114; 117; 99; 116; 32; 66; 32; 123; 32; 97; 58; 32; 117; 115; 105; 122; 101; 44; 32;
                     115; 58; 32; 83; 99; 104; 101; 109; 97; 32; 125] /\
  used_types s = Ok [s; SPrim PUsize; SPrim PSchema].
Proof. repeat split; vm_compute; reflexivity. Qed.

(* the three functions of schema/fmt.rs the model follows (is_prim, fmt_owned_dmt_to_buf with its
   fmt_data closure, discover_tys with its closure) are, token for token up to renaming of locals
   and parameters, the code the hand model SchemaFmt.v was written from (tools/fn_templates.json);
   the string literals, which are holes of that template, are the ones of GenFmt.v *)
Theorem C19_formatter_is_the_source :
  fmt_fns_matched = [[100; 105; 115; 99; 111; 118; 101; 114; 95; 116; 121; 115];
                     [102; 109; 116; 95; 111; 119; 110; 101; 100; 95; 100; 109; 116; 95; 116; 111; 95; 98; 117; 102];
                     [105; 115; 95; 112; 114; 105; 109]].
Proof. exact (eq_refl fmt_fns_matched). Qed.

Print Assumptions C19_render_total.
Print Assumptions C19_used_types_total.
Print Assumptions C19_used_types_exact.
Print Assumptions C19_struct_mentions.
Print Assumptions C19_enum_mentions.
Print Assumptions C19_formatter_is_the_source.
