(* C10: CRC framing appends the right checksum and never accepts a wrong one (partial: the
   burst-error theorem - a burst no longer than the width changes the checksum - is not
   proved; the harness checks every single-bit flip and sampled/exhaustive bursts of every
   frame against an independent bitwise CRC). *)
From PV Require Import Base MachineInt DataModel Ser De Crc SerFlavors DeFlavors CrcFacts.
Open Scope N_scope.

(* CRC-framed output = plain encoding ++ little-endian checksum of exactly those bytes *)
Theorem C10_output : forall (alg : crc_alg) (nb : nat) (v : value),
  ser_err v = None ->
  to_allocvec_crc alg nb v = Ok (enc v ++ le_bytes nb (crc alg (enc v))).
Proof. exact crc_output. Qed.

(* CRC-checked decoding of it returns the value and the bytes after the checksum *)
Theorem C10_roundtrip : forall (alg : crc_alg) (nb : nat) (t : ty) (v : value) (rest : list byte),
  wf_alg alg -> 2 ^ c_width alg <= 256 ^ N.of_nat nb ->
  has_type v t = true -> bytes_ok rest ->
  take_from_bytes_crc alg nb t (enc v ++ le_bytes nb (crc alg (enc v)) ++ rest) = Ok (v, rest).
Proof. exact crc_roundtrip. Qed.

(* conversely, whenever CRC-checked decoding succeeds on ANY input, the bytes it consumed
   for the value are followed by their correct checksum, and value and consumed length are
   those of plain decoding: the digest covers exactly the consumed bytes, through pop and
   through multi-byte try_take_n *)
Theorem C10_accept_sound : forall (alg : crc_alg) (nb : nat) (t : ty) (input : list byte) (v : value) (rest : list byte),
  take_from_bytes_crc alg nb t input = Ok (v, rest) ->
  exists c crcb,
    input = c ++ crcb ++ rest /\ length crcb = nb /\
    of_le_bytes crcb = crc alg c /\
    de_slice t input = Ok (v, crcb ++ rest).
Proof. exact crc_accept_sound. Qed.

(* hence a corruption confined to the checksum bytes is rejected: acceptance pins them *)
Theorem C10_checksum_pinned : forall (alg : crc_alg) (nb : nat) (t : ty) (c crcb rest : list byte) (v : value),
  length crcb = nb ->
  take_from_bytes_crc alg nb t (c ++ crcb ++ rest) = Ok (v, rest) ->
  of_le_bytes crcb = crc alg c /\ de_slice t (c ++ crcb ++ rest) = Ok (v, crcb ++ rest).
Proof. exact crc_accept_pins. Qed.

(* checksums fit their width (so the little-endian bytes lose nothing) *)
Theorem C10_crc_bound : forall (a : crc_alg) (bs : list byte), wf_alg a -> crc a bs < 2 ^ c_width a.
Proof. exact crc_bound. Qed.

Definition crc32_iso_hdlc : crc_alg :=
  {| c_width := 32; c_poly := 79764919; c_init := 4294967295; c_refin := true; c_refout := true; c_xorout := 4294967295 |}.
Example C10_example :
  crc crc32_iso_hdlc [49; 50; 51; 52; 53; 54; 55; 56; 57] = 3421780262 /\      (* the catalogue check value 0xCBF43926 *)
  to_allocvec_crc crc32_iso_hdlc 4 (VInt U16 300) = Ok [172; 2; 54; 128; 101; 173] /\
  take_from_bytes_crc crc32_iso_hdlc 4 (TInt U16) [172; 2; 54; 128; 101; 173; 7] = Ok (VInt U16 300, [7]) /\
  take_from_bytes_crc crc32_iso_hdlc 4 (TInt U16) [172; 2; 54; 128; 101; 172; 7] = Err DeserializeBadCrc.
Proof. repeat split; vm_compute; reflexivity. Qed.

Print Assumptions C10_output.
Print Assumptions C10_roundtrip.
Print Assumptions C10_accept_sound.
Print Assumptions C10_checksum_pinned.
Print Assumptions C10_crc_bound.
