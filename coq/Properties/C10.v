(* C10: CRC framing appends the right checksum and never accepts a wrong one. *)
From PV Require Import Base MachineInt DataModel Ser De Crc SerFlavors DeFlavors CrcFacts CrcBurst Cobs Crc SerFlavors ModDecl GenModifiers ModInterp ModFacts SchemaDecl SerEntryDecl GenSerEntry StorageInterp SerEntryInterp SerEntryFacts.
Open Scope N_scope.

(* CRC-framed output = plain encoding ++ little-endian checksum of exactly those bytes *)
Theorem C10_output : forall (alg : crc_alg) (nb : nat) (v : value),
  ser_err v = None ->
  to_allocvec_crc alg nb v = Ok (enc v ++ le_bytes nb (crc alg (enc v))).
Proof. exact crc_output. Qed.

(* CRC-checked decoding of it returns the value and the bytes after the checksum *)
Theorem C10_roundtrip : forall (alg : crc_alg) (nb : nat) (t : ty) (v : value) (rest : list byte),
  wf_alg alg -> 2 ^ c_width alg <= 256 ^ N.of_nat nb ->
  has_type v t = true -> bytes_ok rest ->
  take_from_bytes_crc alg nb t (enc v ++ le_bytes nb (crc alg (enc v)) ++ rest) = Ok (v, rest).
Proof. exact crc_roundtrip. Qed.

(* conversely, whenever CRC-checked decoding succeeds on ANY input, the bytes it consumed
   for the value are followed by their correct checksum, and value and consumed length are
   those of plain decoding: the digest covers exactly the consumed bytes, through pop and
   through multi-byte try_take_n *)
Theorem C10_accept_sound : forall (alg : crc_alg) (nb : nat) (t : ty) (input : list byte) (v : value) (rest : list byte),
  take_from_bytes_crc alg nb t input = Ok (v, rest) ->
  exists c crcb,
    input = c ++ crcb ++ rest /\ length crcb = nb /\
    of_le_bytes crcb = crc alg c /\
    de_slice t input = Ok (v, crcb ++ rest).
Proof. exact crc_accept_sound. Qed.

(* hence a corruption confined to the checksum bytes is rejected: acceptance pins them *)
Theorem C10_checksum_pinned : forall (alg : crc_alg) (nb : nat) (t : ty) (c crcb rest : list byte) (v : value),
  length crcb = nb ->
  take_from_bytes_crc alg nb t (c ++ crcb ++ rest) = Ok (v, rest) ->
  of_le_bytes crcb = crc alg c /\ de_slice t (c ++ crcb ++ rest) = Ok (v, crcb ++ rest).
Proof. exact crc_accept_pins. Qed.

(* checksums fit their width (so the little-endian bytes lose nothing) *)
Theorem C10_crc_bound : forall (a : crc_alg) (bs : list byte), wf_alg a -> crc a bs < 2 ^ c_width a.
Proof. exact crc_bound. Qed.

(* detection.  msg_bits: the bit stream a message feeds into the register (per byte most
   significant bit first, or least significant first for a reflected algorithm).  Two messages
   whose streams agree outside a window of at most `width` bits and differ inside it have
   different checksums, for every algorithm whose polynomial has a non-zero constant term
   (alg_okb: evaluated by the correspondence on each catalogue algorithm the driver uses) *)
Theorem C10_burst_detected : forall (a : crc_alg) (bs bs' : list byte) (p w1 w2 s : list bool),
  wf_alg a -> N.odd (c_poly a) = true ->
  msg_bits a bs = p ++ w1 ++ s -> msg_bits a bs' = p ++ w2 ++ s ->
  length w1 = length w2 -> N.of_nat (length w1) <= c_width a -> w1 <> w2 ->
  crc a bs <> crc a bs'.
Proof. exact crc_burst. Qed.
Theorem C10_single_bit_detected : forall (a : crc_alg) (p s : list byte) (b : byte) (j : N),
  wf_alg a -> N.odd (c_poly a) = true -> b < 256 -> j < 8 ->
  crc a (p ++ b :: s) <> crc a (p ++ N.lxor b (2 ^ j) :: s).
Proof. exact crc_single_bit. Qed.
(* hence: a frame accepted with payload c is not accepted, at the same decoded length, with a
   payload that differs from c by a burst no longer than the width, or by one flipped bit *)
Theorem C10_burst_rejected : forall alg nb t (c c' crcb rest : list byte) (v v' : value) (p w1 w2 s : list bool),
  wf_alg alg -> N.odd (c_poly alg) = true -> length crcb = nb ->
  take_from_bytes_crc alg nb t (c ++ crcb ++ rest) = Ok (v, rest) ->
  msg_bits alg c = p ++ w1 ++ s -> msg_bits alg c' = p ++ w2 ++ s ->
  length w1 = length w2 -> N.of_nat (length w1) <= c_width alg -> w1 <> w2 ->
  take_from_bytes_crc alg nb t (c' ++ crcb ++ rest) <> Ok (v', rest).
Proof. exact crc_burst_rejected. Qed.
Theorem C10_bit_flip_rejected : forall alg nb t (p s crcb rest : list byte) (b : byte) (j : N) (v v' : value),
  wf_alg alg -> N.odd (c_poly alg) = true -> length crcb = nb -> b < 256 -> j < 8 ->
  take_from_bytes_crc alg nb t ((p ++ b :: s) ++ crcb ++ rest) = Ok (v, rest) ->
  take_from_bytes_crc alg nb t ((p ++ N.lxor b (2 ^ j) :: s) ++ crcb ++ rest) <> Ok (v', rest).
Proof. exact crc_bit_flip_rejected. Qed.
Theorem C10_alg_ok : forall a, alg_okb a = true -> wf_alg a /\ N.odd (c_poly a) = true.
Proof. exact alg_okb_spec. Qed.

Definition crc32_iso_hdlc : crc_alg :=
  {| c_width := 32; c_poly := 79764919; c_init := 4294967295; c_refin := true; c_refout := true; c_xorout := 4294967295 |}.
Example C10_example :
  crc crc32_iso_hdlc [49; 50; 51; 52; 53; 54; 55; 56; 57] = 3421780262 /\      (* the catalogue check value 0xCBF43926 *)
  to_allocvec_crc crc32_iso_hdlc 4 (VInt U16 300) = Ok [172; 2; 54; 128; 101; 173] /\
  take_from_bytes_crc crc32_iso_hdlc 4 (TInt U16) [172; 2; 54; 128; 101; 173; 7] = Ok (VInt U16 300, [7]) /\
  take_from_bytes_crc crc32_iso_hdlc 4 (TInt U16) [172; 2; 54; 128; 101; 172; 7] = Err DeserializeBadCrc.
Proof. repeat split; vm_compute; reflexivity. Qed.
(* the hypotheses of the detection theorems hold of a catalogue algorithm, and a flipped payload
   bit (300 -> 301: same decoded length) is rejected *)
Example C10_detection_example :
  alg_okb crc32_iso_hdlc = true /\
  take_from_bytes_crc crc32_iso_hdlc 4 (TInt U16) [173; 2; 54; 128; 101; 173; 7] = Err DeserializeBadCrc.
Proof. split; vm_compute; reflexivity. Qed.

(* the CRC modifier of these theorems is the code: try_push and finalize of ser/flavors.rs's
   CrcModifier are re-read from the source on every run and interpreted over any inner flavour;
   the deserialisation side is matched against a template with holes (which bytes reach the
   digest, how many checksum bytes are read, the two error kinds, the five widths) *)
Theorem C10_crc_try_push_is_the_source : forall (St Out : Type) (inner : sflavor St Out) (alg : crc_alg) (nb : nat)
    (s : St) (e : enc_state) (d : N) (b : byte),
  crcm_push inner alg (s, d) b =
  let* '(m, _) := mrun inner alg nb crc_try_push [MvByte b] {| ms_inner := s; ms_cobs := e; ms_digest := d |} in
  Ok (ms_inner m, ms_digest m).
Proof. exact @crc_push_is_source. Qed.
Theorem C10_crc_finalize_is_the_source : forall (St Out : Type) (inner : sflavor St Out) (alg : crc_alg) (nb : nat)
    (s : St) (e : enc_state) (d : N),
  crcm_finalize inner alg nb (s, d) =
  let* '(_, out) := mrun inner alg nb crc_finalize_steps [] {| ms_inner := s; ms_cobs := e; ms_digest := d |} in
  match out with Some o => Ok o | None => Panic end.
Proof. exact @crc_finalize_is_source. Qed.
Theorem C10_crc_de_is_the_source :
  crc_de_pop_updates_digest_with_the_byte = true /\ crc_de_take_updates_digest_with_the_bytes = true /\
  crc_de_finalize = (DeserializeBadEncoding, DeserializeBadCrc) /\ crc_de_widths = crc_ser_widths.
Proof. exact crc_de_is_source. Qed.

Theorem C10_modifiers_define_exactly :
  cobs_methods = [nm_try_push; nm_finalize] /\ crc_ser_methods = [nm_try_push; nm_finalize] /\
  crc_de_entry_points_finalize_through_the_modifier = true.
Proof. exact modifiers_define_exactly. Qed.

(* the serialising entry points are the code of ser/mod.rs (and of the crc module of
   ser/flavors.rs) as read on this run (GenSerEntry.v): the flavour stack each one builds from its
   own arguments (Slice::new(buf), HVec::default(), AllocVec::new(), Cobs::try_new(..)?,
   CrcModifier::new(.., digest), the aliases to_stdvec* and to_*_crc32 resolved through the macro
   instances), handed to serialize_with_flavor as matched against its template (serialize, then
   finalize with the error kind read from the source) *)
Theorem C10_crc32_entry_points_are_the_source : forall a v, ea_nb a = 4%nat ->
  omap EOSlice (to_slice_crc (ea_alg a) 4 v (ea_buf a)) = run_entry a v e_to_slice_crc32 /\
  omap EOVec (to_vec_crc (ea_alg a) 4 (ea_cap a) v) = run_entry a v e_to_vec_crc32 /\
  omap EOVec (to_allocvec_crc (ea_alg a) 4 v) = run_entry a v e_to_allocvec_crc32 /\
  omap EOVec (to_allocvec_crc (ea_alg a) 4 v) = run_entry a v e_to_stdvec_crc32.
Proof. exact crc32_entries_are_source. Qed.

Print Assumptions C10_output.
Print Assumptions C10_roundtrip.
Print Assumptions C10_accept_sound.
Print Assumptions C10_checksum_pinned.
Print Assumptions C10_crc_bound.
Print Assumptions C10_burst_detected.
Print Assumptions C10_single_bit_detected.
Print Assumptions C10_burst_rejected.
Print Assumptions C10_bit_flip_rejected.
Print Assumptions C10_alg_ok.
Print Assumptions C10_crc_try_push_is_the_source.
Print Assumptions C10_crc_finalize_is_the_source.
Print Assumptions C10_crc_de_is_the_source.
Print Assumptions C10_modifiers_define_exactly.
Print Assumptions C10_crc32_entry_points_are_the_source.
