(* C16: schema keys: both hashers agree and equal the documented FNV-1a stream.
   Only statements, `exact`, and Print Assumptions live here.

   key_const / key_owned: the two walks of key/hash.rs, each interpreting the tag table the
   translator read from ITS OWN copy of the code (GenHashTags.v) with the FNV constants
   from GenArith.v; spec_key / stream: the documented key (Spec/KeySpec.v). *)
From PV Require Import Base DataModel Schema SchemaDecl GenHashTags Key KeyOps KeySpec SchemaConv SchemaOps KeyFacts.
From PV Require Import GenKeyFns.
Open Scope N_scope.

(* compile-time hasher = documented stream; run-time hasher = documented stream *)
Theorem C16_const_is_documented : forall path s,
  schema_wf s = true -> key_const path s = Some (spec_key path s).
Proof. exact key_const_is_spec. Qed.
Theorem C16_owned_is_documented : forall path s,
  schema_wf s = true -> key_owned path s = Some (spec_key path s).
Proof. exact key_owned_is_spec. Qed.
(* hence the key of the static schema equals the key of its owned conversion *)
Theorem C16_hashers_agree : forall path s s',
  schema_wf s = true -> conv s = Some s' -> key_const path s = key_owned path s'.
Proof. exact hashers_agree. Qed.

(* struct and enum type names do not enter the key *)
Theorem C16_type_names_ignored : forall path s, spec_key path (strip_type_names s) = spec_key path s.
Proof. exact key_ignores_type_names. Qed.

(* sensitivity, the part that is a theorem: changing exactly one byte of what is hashed - one
   byte of the path, one byte of a field or variant name, or the kind tag of one node (the tags
   are pairwise distinct) - always changes the key: every FNV-1a step is a bijection of the
   64-bit state and injective in the byte *)
Theorem C16_one_byte_changes_key : forall pre b1 b2 post,
  bytes_ok pre -> b1 < 256 -> b2 < 256 -> bytes_ok post -> b1 <> b2 ->
  le_bytes 8 (spec_fnv1a64 (pre ++ b1 :: post)) <> le_bytes 8 (spec_fnv1a64 (pre ++ b2 :: post)).
Proof. exact key_single_byte_sensitive. Qed.
Theorem C16_tags_distinct : NoDup all_tags.
Proof. exact all_tags_distinct. Qed.

(* sensitivity, the part that is false on the unchanged tree (known finding F10): the stream is
   unframed, so adjacent fields whose encodings commute as byte strings can be swapped without
   changing the key.  Longer edits can also collide outright (2^64 keys), which no theorem can
   exclude; the run-time check records those as collisions, not as violations. *)
Theorem C16_order_sensitivity_refuted :
  exists a b path, a <> b /\ strip_type_names a <> strip_type_names b /\
                   schema_wf a = true /\ schema_wf b = true /\ spec_key path a = spec_key path b.
Proof. exact order_sensitive_refuted. Qed.
Theorem C16_swap_condition : forall (named : bool) (f g : list N * schema) r,
  ((if named then fst f else []) ++ stream (snd f)) ++ ((if named then fst g else []) ++ stream (snd g))
  = ((if named then fst g else []) ++ stream (snd g)) ++ ((if named then fst f else []) ++ stream (snd f)) ->
  stream_fields stream named (f :: g :: r) = stream_fields stream named (g :: f :: r).
Proof. exact stream_fields_swap. Qed.

(* non-vacuity: the repository's own hash_stability vector *)
Example C16_example :
  let bar := SStruct [] DStruct [([97], SPrim PU8)] in
  schema_wf bar = true /\ key_const [112] bar = Some (spec_key [112] bar) /\ length (spec_key [112] bar) = 8%nat.
Proof. repeat split; vm_compute; reflexivity. Qed.

(* Key::for_path / from_bytes / to_bytes / const_cmp / for_owned_schema_path of key/mod.rs match their
   templates: the key is the hasher's output for the type's SCHEMA (resp. the owned schema) and the
   path, kept as 8 bytes *)
Theorem C16_key_functions_are_the_source :
  key_fns_matched =
  [[99; 111; 110; 115; 116; 95; 99; 109; 112];
   [102; 111; 114; 95; 111; 119; 110; 101; 100; 95; 115; 99; 104; 101; 109; 97; 95; 112; 97; 116; 104];
   [102; 111; 114; 95; 112; 97; 116; 104];
   [102; 114; 111; 109; 95; 98; 121; 116; 101; 115];
   [116; 111; 95; 98; 121; 116; 101; 115]].
Proof. exact (eq_refl key_fns_matched). Qed.

Print Assumptions C16_const_is_documented.
Print Assumptions C16_owned_is_documented.
Print Assumptions C16_hashers_agree.
Print Assumptions C16_type_names_ignored.
Print Assumptions C16_one_byte_changes_key.
Print Assumptions C16_tags_distinct.
Print Assumptions C16_order_sensitivity_refuted.
Print Assumptions C16_swap_condition.
Print Assumptions C16_key_functions_are_the_source.
