(* C18: the dynamic codec is total on untrusted bytes, JSON and schemas.
   Only statements, `exact`, and Print Assumptions live here.

   dyn_de / dyn_ser: the two walks of postcard-dyn (hand-modelled control structure; varint
   constants, zig-zag expressions and the arms that can panic are translated from the source
   on every run).  Outcomes: DOk / DErr / DPanic (todo!, index, over-wide shift) / DUnbounded
   (a loop whose length is not bounded by the input).  The float conversions of the host are
   parameters; nothing here depends on them. *)
From PV Require Import Base MachineInt VarintParams GenLoops Varint DataModel Schema SchemaConv Dyn WireFormat VarintFacts DynFacts.
Open Scope N_scope.

(* decoding never panics, whatever the schema, whatever the bytes; what it hands on to the
   next field is always a suffix of the input *)
Theorem C18_decode_total : forall widen s bs,
  schema_wf s = true -> bytes_ok bs ->
  match dyn_de widen s bs with DOk (_, rest) => bytes_ok rest | DPanic => False | _ => True end.
Proof. intros widen s bs Hwf H. exact (dyn_de_total widen s Hwf bs H). Qed.

(* encoding never panics, whatever the schema, whatever the JSON value *)
Theorem C18_encode_total : forall int_to_f64 narrow s j,
  schema_wf s = true -> dyn_ser int_to_f64 narrow s j <> DPanic.
Proof. intros i n s j Hwf. exact (dyn_ser_total i n s Hwf j). Qed.

(* the crate's private copy of the varint reader accepts exactly what the reference reader
   of the wire format accepts, with the same value and remainder *)
Theorem C18_private_reader : forall t l, is_vty t -> bytes_ok l ->
  dvar (std_reader t DynSchemaMismatch) l = dspec (spec_vread (wbits t) l).
Proof. exact dvar_spec. Qed.

(* what is NOT true on the unchanged tree (known findings, see known_findings.jsonl):
   memory is not bounded by the input for sequences of zero-width elements (F9) ... *)
Example C18_allocation_bound_refuted :
  dyn_de (fun b => b) (SSeq (SPrim PUnit)) [255; 255; 255; 255; 255; 255; 255; 255; 127] = DUnbounded.
Proof. vm_compute. reflexivity. Qed.
(* ... and re-encoding changes the bytes under Option of a nullable payload (F7) and under
   duplicate field names (F8) *)
Example C18_reencode_refuted_option :
  let s := SOption (SPrim PUnit) in let ser := dyn_ser (fun _ => 0) (fun b => b) in
  ser s (JInt 5) = DOk [1] /\ dyn_de (fun b => b) s [1] = DOk (JNull, []) /\ ser s JNull = DOk [0].
Proof. repeat split; vm_compute; reflexivity. Qed.
Example C18_reencode_refuted_duplicate_fields :
  let s := SStruct [83] DStruct [([97], SPrim PU8); ([97], SPrim PU8)] in
  let ser := dyn_ser (fun _ => 0) (fun b => b) in
  ser s (JObj [([97], JInt 1); ([98], JInt 2)]) = DOk [1; 1] /\
  dyn_de (fun b => b) s [1; 1] = DOk (JObj [([97], JInt 1)], []) /\
  ser s (JObj [([97], JInt 1)]) = DErr DynSerSchemaMismatch.
Proof. repeat split; vm_compute; reflexivity. Qed.

Print Assumptions C18_decode_total.
Print Assumptions C18_encode_total.
Print Assumptions C18_private_reader.
