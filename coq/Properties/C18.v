(* C18: the dynamic codec is total on untrusted bytes, JSON and schemas.
   Only statements, `exact`, and Print Assumptions live here.

   dyn_de / dyn_ser: the two walks of postcard-dyn (hand-modelled control structure; varint
   constants, zig-zag expressions and the arms that can panic are translated from the source
   on every run).  Outcomes: DOk / DErr / DPanic (todo!, index, over-wide shift) / DUnbounded
   (a loop whose length is not bounded by the input).  The float conversions of the host are
   parameters; nothing here depends on them. *)
From PV Require Import Base MachineInt VarintParams GenLoops Varint DataModel Schema SchemaConv Dyn JsonOf WireFormat VarintFacts DynFacts DynReenc DynSizeDefs DynSize DynSerMin DynArmDecl GenDynArms DynArms DynCompositeExpected GenDynComposite GenDynHelpers DynArmFacts DynArmTotal.
Open Scope N_scope.

(* decoding never panics, whatever the schema, whatever the bytes; what it hands on to the
   next field is always a suffix of the input *)
Theorem C18_decode_total : forall widen s bs,
  schema_wf s = true -> bytes_ok bs ->
  match dyn_de widen s bs with DOk (_, rest) => bytes_ok rest | DPanic => False | _ => True end.
Proof. intros widen s bs Hwf H. exact (dyn_de_total widen s Hwf bs H). Qed.

(* encoding never panics, whatever the schema, whatever the JSON value *)
Theorem C18_encode_total : forall int_to_f64 narrow s j,
  schema_wf s = true -> dyn_ser int_to_f64 narrow s j <> DPanic.
Proof. intros i n s j Hwf. exact (dyn_ser_total i n s Hwf j). Qed.

(* the crate's private copy of the varint reader accepts exactly what the reference reader
   of the wire format accepts, with the same value and remainder *)
Theorem C18_private_reader : forall t l, is_vty t -> bytes_ok l ->
  dvar (std_reader t DynSchemaMismatch) l = dspec (spec_vread (wbits t) l).
Proof. exact dvar_spec. Qed.

(* whatever the encoder accepts, the decoder reads back, and what it returns re-encodes to the
   same bytes: for every well-formed schema outside the classes of F7 (a nullable payload
   directly under Option) and F8 (duplicate field names in one struct body), i.e. reenc_scope,
   and every JSON value as serde_json can hold one (json_wf: finite floats, UTF-8 strings,
   object keys strictly ascending, at most 65536 elements per array: beyond that the decoder's
   loop is the one of F9; objects of any size, every map entry starts with its key's length
   prefix).  The host's float conversions enter through the three
   hypotheses (widening f32 to f64 and back is exact; results are bit patterns; integers
   convert to finite doubles); the schema may have any depth and size *)
Theorem C18_reencode : forall int_to_f64 narrow widen,
  (forall b, b < 2 ^ 32 -> f32_finite b = true -> narrow (widen b) = b) ->
  (forall b, narrow b < 2 ^ 32) ->
  (forall z, int_to_f64 z < 2 ^ 64 /\ f64_finite (int_to_f64 z) = true) ->
  forall s j bs, schema_wf s = true -> reenc_scope s = true -> json_wf j = true ->
  dyn_ser int_to_f64 narrow s j = DOk bs ->
  exists j', from_slice_dyn widen s bs = DOk j' /\ dyn_ser int_to_f64 narrow s j' = DOk bs.
Proof. exact reencode. Qed.
(* the same without the bound on array lengths (json_wf_g false: arrays and objects of any
   length), for schemas that in addition have no sequence of zero-width elements (dno_zero, as in
   C18_allocation_bounded): the encoder's output under an element schema of dmin >= 1 is at
   least one byte per element (C18_encoder_output_at_least_min), so no accepted count exceeds the
   bytes that follow it and the decoder's loop guard never cuts in *)
Theorem C18_reencode_any_size : forall int_to_f64 narrow widen,
  (forall b, b < 2 ^ 32 -> f32_finite b = true -> narrow (widen b) = b) ->
  (forall b, narrow b < 2 ^ 32) ->
  (forall z, int_to_f64 z < 2 ^ 64 /\ f64_finite (int_to_f64 z) = true) ->
  forall s j bs, schema_wf s = true -> reenc_scope s = true -> dno_zero s = true -> json_wf_g false j = true ->
  dyn_ser int_to_f64 narrow s j = DOk bs ->
  exists j', from_slice_dyn widen s bs = DOk j' /\ dyn_ser int_to_f64 narrow s j' = DOk bs.
Proof. exact reencode_any_size_nz. Qed.

Example C18_reencode_any_size_nonvacuous :
  let s := SMap (SPrim PString) (SSeq (SOption (SPrim PU16))) in
  let j := JObj [([97], JArr [JInt 300; JNull]); ([98], JArr [])] in
  schema_wf s = true /\ reenc_scope s = true /\ dno_zero s = true /\ json_wf_g false j = true /\
  dyn_ser (fun _ => 0) (fun b => b) s j = DOk [2; 1; 97; 2; 1; 172; 2; 0; 1; 98; 0].
Proof. repeat split; vm_compute; reflexivity. Qed.

(* the hypotheses can be met and the encoder does accept such a value *)
Example C18_reencode_nonvacuous :
  let widen := fun b => b in let narrow := fun b => b mod 2 ^ 32 in let i2f := fun _ : Z => 0 in
  let s := SStruct [83] DStruct [([97], SOption (SPrim PU16)); ([98], SSeq (SPrim PString));
                                  ([99], SEnum [69] [([120], DUnit, []); ([121], DNewtype, [([], SPrim PI8)])])] in
  let j := JObj [([97], JInt 300); ([98], JArr [JStr [104; 105]; JStr []]); ([99], JObj [([121], JInt (-3))])] in
  (forall b, b < 2 ^ 32 -> f32_finite b = true -> narrow (widen b) = b) /\
  schema_wf s = true /\ reenc_scope s = true /\ json_wf j = true /\
  dyn_ser i2f narrow s j = DOk [1; 172; 2; 2; 2; 104; 105; 0; 1; 253].
Proof.
  cbv zeta. split; [intros b Hb _; apply N.mod_small; exact Hb|]. repeat split; vm_compute; reflexivity.
Qed.

(* what is NOT true on the unchanged tree (known findings, see known_findings.jsonl):
   memory is not bounded by the input for sequences of zero-width elements (F9) ... *)
Example C18_allocation_bound_refuted :
  dyn_de (fun b => b) (SSeq (SPrim PUnit)) [255; 255; 255; 255; 255; 255; 255; 255; 127] = DUnbounded.
Proof. vm_compute. reflexivity. Qed.
(* ... and re-encoding changes the bytes under Option of a nullable payload (F7) and under
   duplicate field names (F8) *)
Example C18_reencode_refuted_option :
  let s := SOption (SPrim PUnit) in let ser := dyn_ser (fun _ => 0) (fun b => b) in
  ser s (JInt 5) = DOk [1] /\ dyn_de (fun b => b) s [1] = DOk (JNull, []) /\ ser s JNull = DOk [0].
Proof. repeat split; vm_compute; reflexivity. Qed.
Example C18_reencode_refuted_duplicate_fields :
  let s := SStruct [83] DStruct [([97], SPrim PU8); ([97], SPrim PU8)] in
  let ser := dyn_ser (fun _ => 0) (fun b => b) in
  ser s (JObj [([97], JInt 1); ([98], JInt 2)]) = DOk [1; 1] /\
  dyn_de (fun b => b) s [1; 1] = DOk (JObj [([97], JInt 1)], []) /\
  ser s (JObj [([97], JInt 1)]) = DErr DynSerSchemaMismatch.
Proof. repeat split; vm_compute; reflexivity. Qed.

(* the scalar arms as read from the source (GenDynArms.v: postcard-dyn/src/ser.rs ser_named_type,
   postcard-dyn/src/de.rs deserialize), interpreted statement by statement, reach no panic site:
   on any JSON value for the encoder, on any byte string for the decoder; and the model's scalar
   cases are exactly those arms (C17_scalar_arms_are_the_source) *)
Theorem C18_encoder_arms_never_panic : forall int_to_f64 narrow p j r,
  ser_prim_via_arms int_to_f64 narrow p j = Some r -> r <> DPanic.
Proof. exact ser_arms_never_panic. Qed.
Theorem C18_decoder_arms_never_panic : forall widen p bs r, bytes_ok bs ->
  de_prim_via_arms widen p bs = Some r -> r <> DPanic.
Proof. exact de_arms_never_panic. Qed.
Theorem C18_decoder_arms_are_the_model : forall widen p bs,
  match de_prim_via_arms widen p bs with
  | Some r => de_prim widen p bs = r
  | None => True
  end.
Proof. exact de_prim_is_source. Qed.

(* the non-scalar arms of both walks (strings, chars, byte arrays, options, sequences, tuples,
   maps, structs, enums, pointer-sized integers, the schema kind) are, token for token up to
   renaming of locals, the code the hand model Dyn.v was written from
   (tools/dyn_arm_templates.json), with the same error kinds and tag bytes at the holes *)
Theorem C18_composite_arms_are_the_source :
  dyn_ser_composite_holes = dyn_ser_composite_expected /\ dyn_de_composite_holes = dyn_de_composite_expected.
Proof. exact dyn_composite_is_source. Qed.

(* ... and so are the helpers around them (to_stdvec_dyn / from_slice_dyn, Option::right and
   From<TryFromIntError> with their error kind, the bounds-checked take_one / take_n) *)
Theorem C18_helpers_are_the_source :
  dynser_fns_matched = [[102; 114; 111; 109]; [114; 105; 103; 104; 116]; [116; 111; 95; 115; 116; 100; 118; 101; 99; 95; 100; 121; 110]] /\
  dynde_fns_matched = [[102; 114; 111; 109; 95; 115; 108; 105; 99; 101; 95; 100; 121; 110]; [114; 105; 103; 104; 116]; [116; 97; 107; 101; 95; 111; 110; 101]].
Proof. exact dyn_helpers_are_source. Qed.

(* the allocation clause, outside the class of F9: for every schema without a sequence of
   zero-width elements (dno_zero: exactly the schemas the harness does not classify as F9, op
   dynbound) and every byte string, from_slice_dyn's loops are never cut off by the input-length
   guard of the model (they end by themselves or fail: each round consumes at least one byte), and
   the size of the JSON value built - nodes, string bytes, key bytes - is at most dslope s times the
   number of bytes consumed plus doffset s, two constants of the schema *)
Theorem C18_allocation_bounded : forall widen s l, dno_zero s = true -> bytes_ok l ->
  dyn_de widen s l <> DUnbounded /\
  forall j rest, dyn_de widen s l = DOk (j, rest) ->
    exists p, l = p ++ rest /\ jsize j <= dslope s * N.of_nat (length p) + doffset s.
Proof. exact dyn_alloc_bounded. Qed.
(* non-vacuity: Vec<Option<(u8, String)>> is in that class, decodes, and meets its bound; the
   schema of F9's witness is not in it *)
Example C18_allocation_bounded_example :
  let s := SSeq (SOption (STuple [SPrim PU8; SPrim PString])) in
  dno_zero s = true /\ dslope s = 7 /\ doffset s = 1 /\
  dyn_de (fun b => b) s [2; 1; 7; 2; 104; 105; 0; 9] = DOk (JArr [JArr [JInt 7; JStr [104; 105]]; JNull], [9]) /\
  jsize (JArr [JArr [JInt 7; JStr [104; 105]]; JNull]) = 7 /\
  dno_zero (SSeq (SPrim PUnit)) = false.
Proof. repeat split; vm_compute; reflexivity. Qed.

(* ... and the encoder never produces fewer bytes under a schema than the least a successful decode
   under that schema consumes (dmin s): every element of a sequence whose element schema has
   dmin >= 1 occupies at least one byte of the encoder's output, for every JSON value accepted *)
Theorem C18_encoder_output_at_least_min : forall int_to_f64 narrow s j bs,
  dyn_ser int_to_f64 narrow s j = DOk bs -> dmin s <= N.of_nat (length bs).
Proof. exact ser_min. Qed.

Print Assumptions C18_decode_total.
Print Assumptions C18_encode_total.
Print Assumptions C18_private_reader.
Print Assumptions C18_reencode.
Print Assumptions C18_encoder_arms_never_panic.
Print Assumptions C18_decoder_arms_never_panic.
Print Assumptions C18_decoder_arms_are_the_model.
Print Assumptions C18_composite_arms_are_the_source.
Print Assumptions C18_helpers_are_the_source.
Print Assumptions C18_allocation_bounded.
Print Assumptions C18_encoder_output_at_least_min.
Print Assumptions C18_reencode_any_size.
