(* Utf8.v: core::str::from_utf8, char::encode_utf8 and str::chars (modelled, not verified):
   well-formed UTF-8 byte sequences as in The Unicode Standard, table 3-7. *)
From PV Require Import Base.
Open Scope N_scope.

Definition in_rng (lo hi b : N) : bool := (lo <=? b) && (b <=? hi).
Definition cont (b : N) : bool := in_rng 128 191 b.

(* decode one scalar value from the front: Some (code point, rest) *)
Definition utf8_next (l : list byte) : option (N * list byte) :=
  match l with
  | [] => None
  | b0 :: r0 =>
    if b0 <? 128 then Some (b0, r0)
    else if in_rng 194 223 b0 then
      match r0 with
      | b1 :: r1 => if cont b1 then Some ((b0 - 192) * 64 + (b1 - 128), r1) else None
      | _ => None
      end
    else if in_rng 224 239 b0 then
      match r0 with
      | b1 :: b2 :: r2 =>
        let ok1 := if b0 =? 224 then in_rng 160 191 b1
                   else if b0 =? 237 then in_rng 128 159 b1 else cont b1 in
        if ok1 && cont b2 then Some ((b0 - 224) * 4096 + (b1 - 128) * 64 + (b2 - 128), r2) else None
      | _ => None
      end
    else if in_rng 240 244 b0 then
      match r0 with
      | b1 :: b2 :: b3 :: r3 =>
        let ok1 := if b0 =? 240 then in_rng 144 191 b1
                   else if b0 =? 244 then in_rng 128 143 b1 else cont b1 in
        if ok1 && cont b2 && cont b3
        then Some ((b0 - 240) * 262144 + (b1 - 128) * 4096 + (b2 - 128) * 64 + (b3 - 128), r3)
        else None
      | _ => None
      end
    else None
  end.

Fixpoint utf8_chars_fuel (fuel : nat) (l : list byte) : option (list N) :=
  match l with
  | [] => Some []
  | _ =>
    match fuel with
    | O => None
    | S f =>
      match utf8_next l with
      | None => None
      | Some (c, r) => match utf8_chars_fuel f r with Some cs => Some (c :: cs) | None => None end
      end
    end
  end.
(* str::chars() of from_utf8(l): None when l is not valid UTF-8 *)
Definition utf8_chars (l : list byte) : option (list N) := utf8_chars_fuel (length l) l.
Definition utf8_valid (l : list byte) : bool :=
  match utf8_chars l with Some _ => true | None => false end.

Definition is_scalar (c : N) : bool := (c <? 55296) || ((57343 <? c) && (c <? 1114112)).

(* char::encode_utf8 *)
Definition utf8_encode (c : N) : list byte :=
  if c <? 128 then [c]
  else if c <? 2048 then [192 + c / 64; 128 + c mod 64]
  else if c <? 65536 then [224 + c / 4096; 128 + (c / 64) mod 64; 128 + c mod 64]
  else [240 + c / 262144; 128 + (c / 4096) mod 64; 128 + (c / 64) mod 64; 128 + c mod 64].
