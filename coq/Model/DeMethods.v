(* DeMethods.v: an interpreter for the deserializer method bodies the translator reads from
   de/deserializer.rs (GenDeMethods.v), over an abstract flavour, and the deserializer as
   serde's visitors drive it through those methods.  Proofs/DeMethodFacts.v shows it equal
   to the hand-written De.v. *)
From PV Require Import Base MachineInt VarintParams GenArith GenLoops Varint Utf8 DataModel De SchemaDecl DeMethodDecl GenDeMethods.
Open Scope N_scope.

Inductive dval :=
| DZv (z : Z) | DNv (n : N) | DBsv (bs : list byte) | DBov (b : bool) | DChv (c : N)
| DStrv (bs : list byte) | DCharsv (cs : list N) | DBufv (bs : list byte) | DFieldsv (n : nat).
Inductive dout :=
| OLeaf (kind : list N) (v : dval)
| ONone | OSome | OUnit | ONewtype | OEnum | OSeed | ORetUnit
| OAccess (kind : list N) (len : N)
| OIndex (idx : N).

Definition reader_named (ty : list N) : option (rparams error) :=
  if list_N_eqb ty [117; 49; 54] then Some core_reader_u16
  else if list_N_eqb ty [117; 51; 50] then Some core_reader_u32
  else if list_N_eqb ty [117; 54; 52] then Some core_reader_u64
  else if list_N_eqb ty [117; 49; 50; 56] then Some core_reader_u128
  else if list_N_eqb ty [117; 115; 105; 122; 101] then Some usize_reader
  else None.
Definition un_zig_zag_w (w : N) (z : Z) : option Z :=
  if w =? 16 then Some (Core.de_zig_zag_i16 z) else if w =? 32 then Some (Core.de_zig_zag_i32 z)
  else if w =? 64 then Some (Core.de_zig_zag_i64 z) else if w =? 128 then Some (Core.de_zig_zag_i128 z) else None.

Definition denv := list (list N * dval).
Fixpoint dbind_params (ps : list (list N)) (args : list dval) : option denv :=
  match ps, args with
  | [], [] => Some []
  | p :: ps', a :: args' => option_map (cons (p, a)) (dbind_params ps' args')
  | _, _ => None
  end.

Section DRun.
  Context {St : Type}.
  Variable pop : St -> res (byte * St).
  Variable take_n : N -> St -> res (list byte * St).
  Variable methods : list (list N * (list (list N) * list dstep)).

  (* expressions read the input: the state is threaded; continuation-passing, so that a body
     reads as one flat sequence of reads *)
  Fixpoint devalk {R : Type} (en : denv) (e : dexp) (s : St) (k : dval -> St -> res R) : res R :=
    match e with
    | DVar n => match assoc n en with Some v => k v s | None => Panic end
    | DConst c => k (DNv c) s
    | DPop => let* '(b, s1) := pop s in k (DNv b) s1
    | DPopAsI8 => let* '(b, s1) := pop s in k (DZv (cast i8 (Z.of_N b))) s1
    | DVarint ty => match reader_named ty with
                    | Some p => let* '(n, s1) := take_varint pop p s in k (DNv n) s1
                    | None => Panic
                    end
    | DTake e' => devalk en e' s (fun v s1 => match v with DNv n => let* '(bs, s2) := take_n n s1 in k (DBsv bs) s2 | _ => Panic end)
    | DUnZigZag w v => match assoc v en with
                       | Some (DNv n) => match un_zig_zag_w w (Z.of_N n) with Some z => k (DZv z) s | None => Panic end
                       | _ => Panic
                       end
    | DFromLeBits w v => match assoc v en with
                         | Some (DBufv bs) => if N.of_nat (length bs) * 8 =? w then k (DNv (of_le_bytes bs)) s else Panic
                         | _ => Panic
                         end
    | DZeros n => k (DBufv (repeat 0 (N.to_nat n))) s
    | DLenOf v => match assoc v en with Some (DFieldsv n) => k (DNv (N.of_nat n)) s | _ => Panic end
    | DFromUtf8 v err => match assoc v en with
                         | Some (DBsv bs) => if utf8_valid bs then k (DStrv bs) s else Err err
                         | _ => Panic
                         end
    | DCharsOfUtf8 v err => match assoc v en with
                            | Some (DBsv bs) => match utf8_chars bs with Some cs => k (DCharsv cs) s | None => Err err end
                            | _ => Panic
                            end
    | DNextOrErr v err => match assoc v en with
                          | Some (DCharsv (c :: _)) => k (DChv c) s       (* the iterator advances: see DLet *)
                          | Some (DCharsv []) => Err err
                          | _ => Panic
                          end
    end.
  Fixpoint devalk_list {R : Type} (en : denv) (es : list dexp) (s : St) (k : list dval -> St -> res R) : res R :=
    match es with
    | [] => k [] s
    | e :: r => devalk en e s (fun v s1 => devalk_list en r s1 (fun vs s2 => k (v :: vs) s2))
    end.

  Fixpoint drun (fuel : nat) (name : list N) (args : list dval) (s : St) : res (dout * St) :=
    match fuel with
    | 0%nat => OutOfFuel
    | S f =>
      match assoc name methods with
      | None => Panic
      | Some (ps, steps) =>
        match dbind_params ps args with
        | None => Panic
        | Some en0 =>
          (fix go (steps : list dstep) (en : denv) (s : St) : res (dout * St) :=
             match steps with
             | [] => Panic                       (* every body ends in a visit, a delegation or a return *)
             | st :: rest =>
               match st with
               | DLet n e =>
                 match e with
                 | DNextOrErr it err =>
                   (* `it.next()` hands out the head of the iterator it names and consumes it *)
                   match assoc it en with
                   | Some (DCharsv (c :: r)) => go rest ((n, DChv c) :: (it, DCharsv r) :: en) s
                   | Some (DCharsv []) => Err err
                   | _ => Panic
                   end
                 | _ => devalk en e s (fun v s1 => go rest ((n, v) :: en) s1)
                 end
               | DLetBoolOfPop n err =>
                 let* '(b, s1) := pop s in
                 if b =? 0 then go rest ((n, DBov false) :: en) s1
                 else if b =? 1 then go rest ((n, DBov true) :: en) s1 else Err err
               | DOptionOfPop err =>
                 let* '(b, s1) := pop s in
                 if b =? 0 then Ok (ONone, s1) else if b =? 1 then Ok (OSome, s1) else Err err
               | DRejectGt v k err =>
                 match assoc v en with Some (DNv n) => if k <? n then Err err else go rest en s | _ => Panic end
               | DRejectMore v err =>
                 match assoc v en with Some (DCharsv []) => go rest en s | Some (DCharsv (_ :: _)) => Err err | _ => Panic end
               | DCopy dst src =>
                 match assoc dst en, assoc src en with
                 | Some (DBufv b), Some (DBsv bs) => if Nat.eqb (length b) (length bs) then go rest ((dst, DBufv bs) :: en) s else Panic
                 | _, _ => Panic
                 end
               | DVisitAccess kind len =>
                 match assoc len en with Some (DNv n) => Ok (OAccess kind n, s) | _ => Panic end
               | DVisitUnit => Ok (OUnit, s)
               | DVisitNewtype => Ok (ONewtype, s)
               | DVisitEnum => Ok (OEnum, s)
               | DVisit kind e => devalk en e s (fun v s1 => Ok (OLeaf kind v, s1))
               | DDelegate nm es => devalk_list en es s (fun vs s1 => drun f nm vs s1)
               | DSeedHere => Ok (OSeed, s)
               | DFail err => Err err
               | DRetUnit => Ok (ORetUnit, s)
               | DSeedOnIndex n v =>
                 match assoc v en with Some (DNv idx) => go rest ((n, DNv idx) :: en) s | _ => Panic end
               | DRetWithSelf n => match assoc n en with Some (DNv idx) => Ok (OIndex idx, s) | _ => Panic end
               end
             end) steps en0 s
        end
      end
    end.
End DRun.

(* method names *)
Definition dn (tail : list N) : list N := [100; 101; 115; 101; 114; 105; 97; 108; 105; 122; 101; 95] ++ tail.
Definition dn_bool := dn [98; 111; 111; 108].
Definition dn_int (k : ikind) : list N :=
  dn match k with
     | I8 => [105; 56] | I16 => [105; 49; 54] | I32 => [105; 51; 50] | I64 => [105; 54; 52] | I128 => [105; 49; 50; 56]
     | U8 => [117; 56] | U16 => [117; 49; 54] | U32 => [117; 51; 50] | U64 => [117; 54; 52] | U128 => [117; 49; 50; 56]
     end.
Definition dn_f32 := dn [102; 51; 50].
Definition dn_f64 := dn [102; 54; 52].
Definition dn_char := dn [99; 104; 97; 114].
Definition dn_str := dn [115; 116; 114].
Definition dn_bytes := dn [98; 121; 116; 101; 115].
Definition dn_option := dn [111; 112; 116; 105; 111; 110].
Definition dn_unit := dn [117; 110; 105; 116].
Definition dn_unit_struct := dn [117; 110; 105; 116; 95; 115; 116; 114; 117; 99; 116].
Definition dn_newtype_struct := dn [110; 101; 119; 116; 121; 112; 101; 95; 115; 116; 114; 117; 99; 116].
Definition dn_seq := dn [115; 101; 113].
Definition dn_tuple := dn [116; 117; 112; 108; 101].
Definition dn_tuple_struct := dn [116; 117; 112; 108; 101; 95; 115; 116; 114; 117; 99; 116].
Definition dn_map := dn [109; 97; 112].
Definition dn_struct := dn [115; 116; 114; 117; 99; 116].
Definition dn_enum := dn [101; 110; 117; 109].
Definition dn_variant_seed : list N := [118; 97; 114; 105; 97; 110; 116; 95; 115; 101; 101; 100].
Definition dn_unit_variant : list N := [117; 110; 105; 116; 95; 118; 97; 114; 105; 97; 110; 116].
Definition dn_newtype_variant_seed : list N := [110; 101; 119; 116; 121; 112; 101; 95; 118; 97; 114; 105; 97; 110; 116; 95; 115; 101; 101; 100].
Definition dn_tuple_variant : list N := [116; 117; 112; 108; 101; 95; 118; 97; 114; 105; 97; 110; 116].
Definition dn_struct_variant : list N := [115; 116; 114; 117; 99; 116; 95; 118; 97; 114; 105; 97; 110; 116].

(* ---- the deserializer as serde's Deserialize impls and visitors drive it (hand model of the
   serde side: which method each shape calls, what its visitor does with what it is handed) ---- *)
Section ViaMethods.
  Context {St : Type}.
  Variable pop : St -> res (byte * St).
  Variable take_n : N -> St -> res (list byte * St).
  Definition D := drun pop take_n de_methods 3.

  Section Fields.
    Variable dv : ty -> St -> res (value * St).
    (* a visitor that asks its SeqAccess for one element per field, in order; the access hands
       out `len` elements (access_hands_out_len_elements_in_order) and len is the field count *)
    Definition visit_fields (o : dout) (ts : list ty) (s : St) : res (list value * St) :=
      match o with
      | OAccess _ n => if (n =? N.of_nat (length ts)) && access_hands_out_len_elements_in_order then de_fields dv ts s else Panic
      | _ => Panic
      end.
  End Fields.

  Fixpoint dvm (t : ty) (s : St) {struct t} : res (value * St) :=
    match t with
    | TBool => let* '(o, s1) := D dn_bool [] s in
               match o with OLeaf _ (DBov b) => Ok (VBool b, s1) | _ => Panic end
    | TInt k => let* '(o, s1) := D (dn_int k) [] s in
                match o with
                | OLeaf _ (DZv z) => Ok (VInt k z, s1)
                | OLeaf _ (DNv n) => Ok (VInt k (Z.of_N n), s1)
                | _ => Panic
                end
    | TF32 => let* '(o, s1) := D dn_f32 [] s in match o with OLeaf _ (DNv b) => Ok (VF32 b, s1) | _ => Panic end
    | TF64 => let* '(o, s1) := D dn_f64 [] s in match o with OLeaf _ (DNv b) => Ok (VF64 b, s1) | _ => Panic end
    | TChar => let* '(o, s1) := D dn_char [] s in match o with OLeaf _ (DChv c) => Ok (VChar c, s1) | _ => Panic end
    | TStr => let* '(o, s1) := D dn_str [] s in match o with OLeaf _ (DStrv bs) => Ok (VStr bs, s1) | _ => Panic end
    | TBytes => let* '(o, s1) := D dn_bytes [] s in match o with OLeaf _ (DBsv bs) => Ok (VBytes bs, s1) | _ => Panic end
    | TOption t' =>
      let* '(o, s1) := D dn_option [] s in
      match o with
      | ONone => Ok (VNone, s1)
      | OSome => let* '(v, s2) := dvm t' s1 in Ok (VSome v, s2)
      | _ => Panic
      end
    | TUnit => let* '(o, s1) := D dn_unit [] s in match o with OUnit => Ok (VUnit, s1) | _ => Panic end
    | TUnitStruct => let* '(o, s1) := D dn_unit_struct [DFieldsv 0] s in match o with OUnit => Ok (VUnitStruct, s1) | _ => Panic end
    | TNewtype t' =>
      let* '(o, s1) := D dn_newtype_struct [DFieldsv 0] s in
      match o with ONewtype => let* '(v, s2) := dvm t' s1 in Ok (VNewtype v, s2) | _ => Panic end
    | TSeq t' =>
      let* '(o, s1) := D dn_seq [] s in
      match o with
      | OAccess _ n =>
        if access_hands_out_len_elements_in_order then
          let* '(racc, s2) := iter_N (fun st => let* '(v, s') := dvm t' (snd st) in Ok (v :: fst st, s')) n ([], s1) in
          Ok (VSeq (rev racc), s2)
        else Panic
      | _ => Panic
      end
    | TTuple ts =>
      let* '(o, s1) := D dn_tuple [DNv (N.of_nat (length ts))] s in
      let* '(vs, s2) := visit_fields dvm o ts s1 in Ok (VTuple vs, s2)
    | TTupleStruct ts =>
      let* '(o, s1) := D dn_tuple_struct [DFieldsv 0; DNv (N.of_nat (length ts))] s in
      let* '(vs, s2) := visit_fields dvm o ts s1 in Ok (VTupleStruct vs, s2)
    | TStruct ts =>
      let* '(o, s1) := D dn_struct [DFieldsv 0; DFieldsv (length ts)] s in
      let* '(vs, s2) := visit_fields dvm o ts s1 in Ok (VStruct vs, s2)
    | TMap tk tv =>
      let* '(o, s1) := D dn_map [] s in
      match o with
      | OAccess _ n =>
        if access_hands_out_len_elements_in_order then
          let* '(racc, s2) := iter_N (fun st => let* '(k, s') := dvm tk (snd st) in
                                                let* '(v, s'') := dvm tv s' in Ok ((k, v) :: fst st, s'')) n ([], s1) in
          Ok (VMap (rev racc), s2)
        else Panic
      | _ => Panic
      end
    | TEnum vs =>
      let* '(o, s0) := D dn_enum [DFieldsv 0; DFieldsv (length vs)] s in
      match o with
      | OEnum =>
        let* '(o1, s1) := D dn_variant_seed [] s0 in
        match o1 with
        | OIndex idx =>
          (* the derived variant identifier rejects an index it does not know *)
          if N.of_nat (length vs) <=? idx then Err SerdeDeCustom else
          (fix pick (vs : list ty) (i : nat) : res (value * St) :=
             match vs, i with
             | [], _ => Err SerdeDeCustom
             | t' :: _, 0%nat =>
               match t' with
               | TUnit | TUnitStruct =>
                 let* '(o2, s2) := D dn_unit_variant [] s1 in
                 match o2 with
                 | ORetUnit => Ok (VVariant idx (match t' with TUnit => VUnit | _ => VUnitStruct end), s2)
                 | _ => Panic
                 end
               | TTupleStruct ts =>
                 let* '(o2, s2) := D dn_tuple_variant [DNv (N.of_nat (length ts))] s1 in
                 let* '(xs, s3) := visit_fields dvm o2 ts s2 in Ok (VVariant idx (VTupleStruct xs), s3)
               | TStruct ts =>
                 let* '(o2, s2) := D dn_struct_variant [DFieldsv (length ts)] s1 in
                 let* '(xs, s3) := visit_fields dvm o2 ts s2 in Ok (VVariant idx (VStruct xs), s3)
               | TNewtype t'' =>
                 (* a newtype variant: the seed is the inner type's *)
                 let* '(o2, s2) := D dn_newtype_variant_seed [] s1 in
                 match o2 with
                 | OSeed => let* '(v, s3) := dvm t'' s2 in Ok (VVariant idx (VNewtype v), s3)
                 | _ => Panic
                 end
               | _ =>
                 let* '(o2, s2) := D dn_newtype_variant_seed [] s1 in
                 match o2 with
                 | OSeed => let* '(v, s3) := dvm t' s2 in Ok (VVariant idx v, s3)
                 | _ => Panic
                 end
               end
             | _ :: vs', S i' => pick vs' i'
             end) vs (N.to_nat idx)
        | _ => Panic
        end
      | _ => Panic
      end
    end.
End ViaMethods.
