(* SerEntryDecl.v: vocabulary of the generated table of serialising entry points (GenSerEntry.v). *)
From PV Require Import Base.
Open Scope N_scope.

Inductive sstack :=
| KStore (name : list N)          (* Slice::new(buf), HVec::default(), AllocVec::new(), ExtendFlavor::new(w), WriteFlavor::new(w), Size::default() *)
| KCobs (inner : sstack)          (* Cobs::try_new(inner)? *)
| KCrc (inner : sstack)           (* CrcModifier::new(inner, digest) *)
| KAlias (target : list N).       (* the body is a call of another entry point with the same arguments *)
