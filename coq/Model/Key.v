(* Key.v: postcard-schema key/hash.rs.  FNV-1a (64 bit) and the two schema walks (const over
   the borrowed tree, run-time over the owned tree), each interpreting the tag table the
   translator read from ITS OWN copy of the code (GenHashTags.v). *)
From PV Require Import Base MachineInt GenArith DataModel Schema SchemaDecl.
Open Scope N_scope.

Definition fnv_basis : N := Z.to_N Fnv.BASIS.
Definition fnv_prime : N := Z.to_N Fnv.PRIME.
(* state ^= b; state = state.wrapping_mul(PRIME) *)
Definition fnv_step (state : N) (b : byte) : N := (N.lxor state b * fnv_prime) mod 2 ^ 64.
Definition fnv_update (state : N) (bs : list byte) : N := fold_left fnv_step bs state.
Definition fnv1a64 (bs : list byte) : N := fnv_update fnv_basis bs.

Section Walk.
  Variable nodes : list (list N * hrule).
  Variable hstruct hvariant : bool * list (list N * N * dchild).
  Variable field_name_first : bool.

  Definition lookup3 (k : list N) (l : list (list N * N * dchild)) : option (N * dchild) :=
    (fix go l := match l with
                 | [] => None
                 | (k', tag, c) :: r => if list_N_eqb k k' then Some (tag, c) else go r
                 end) l.

  (* the bytes fed to the hasher, in order; None: a kind the walk has no arm for *)
  Section Data.
    Variable walk : schema -> option (list byte).
    Fixpoint walk_list (ts : list schema) : option (list byte) :=
      match ts with
      | [] => Some []
      | t :: r => match walk t, walk_list r with Some a, Some b => Some (a ++ b) | _, _ => None end
      end.
    Fixpoint walk_snd (fs : list (str * schema)) : option (list byte) :=
      match fs with
      | [] => Some []
      | f :: r => match walk (snd f), walk_snd r with Some a, Some b => Some (a ++ b) | _, _ => None end
      end.
    Fixpoint walk_fields (fs : list (str * schema)) : option (list byte) :=
      match fs with
      | [] => Some []
      | f :: r =>
        match walk (snd f), walk_fields r with
        | Some a, Some b => Some ((if field_name_first then fst f ++ a else a ++ fst f) ++ b)
        | _, _ => None
        end
      end.
    Definition walk_data (tbl : bool * list (list N * N * dchild)) (name : str) (k : dkind) (fields : list (str * schema))
      : option (list byte) :=
      match lookup3 (dkind_name k) (snd tbl) with
      | None => None
      | Some (tag, child) =>
        let pre := (if fst tbl then name else []) ++ [tag] in
        match child with
        | DKNone => Some pre
        | DKOne => match fields with [f] => option_map (app pre) (walk (snd f)) | _ => None end
        | DKList => option_map (app pre) (walk_snd fields)
        | DKFields => option_map (app pre) (walk_fields fields)
        end
      end.
  End Data.

  Fixpoint walk (s : schema) : option (list byte) :=
    let rule := assoc (node_name s) nodes in
    match s with
    | SPrim _ => match rule with Some (HTag tag) => Some [tag] | _ => None end
    | SOption t | SSeq t =>
      match rule with
      | Some (HTagChildren tag [_]) => option_map (cons tag) (walk t)
      | _ => None
      end
    | STuple ts =>
      match rule with Some (HTagList tag) => option_map (cons tag) (walk_list walk ts) | _ => None end
    | SMap k v =>
      match rule with
      | Some (HTagChildren tag [a; b]) =>
        (* children in the order the arm names them *)
        let wk := walk k in let wv := walk v in
        let pick := fun n => if list_N_eqb n [107; 101; 121] then wk else wv in
        match pick a, pick b with Some x, Some y => Some (tag :: x ++ y) | _, _ => None end
      | _ => None
      end
    | SStruct name k fields =>
      match rule with Some HDelegateStruct => walk_data walk hstruct name k fields | _ => None end
    | SEnum _ vs =>
      match rule with
      | Some (HTagVariants tag) =>
        option_map (cons tag)
          ((fix go (vs : list (str * dkind * list (str * schema))) : option (list byte) :=
              match vs with
              | [] => Some []
              | v :: r => match walk_data walk hvariant (fst (fst v)) (snd (fst v)) (snd v), go r with
                          | Some a, Some b => Some (a ++ b)
                          | _, _ => None
                          end
              end) vs)
      | _ => None
      end
    end.

  Definition hash_ty_path (path : str) (s : schema) : option (list byte) :=
    option_map (fun stream => le_bytes 8 (fnv_update (fnv_update fnv_basis path) stream)) (walk s).
End Walk.
