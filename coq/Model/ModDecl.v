(* ModDecl.v: vocabulary of the generated step lists of the COBS and CRC modifier flavours
   (GenModifiers.v). *)
From PV Require Import Base.
Open Scope N_scope.

Inductive mbyte := MByteVar (v : list N) | MByteConst (k : N).
Inductive mstep :=
| MSet (idx val : list N)                    (* self.flav[idx] = val *)
| MPush (b : mbyte) (propagated : bool)      (* self.flav.try_push(b): `?` / returned, or the result dropped *)
| MInnerFinalize                             (* self.flav.finalize() *)
| MDigestUpdate1 (v : list N)                (* self.digest.update(&[v]) *)
| MDigestUpdate (v : list N)                 (* self.digest.update(v) *)
| MLetCrc (v : list N)                       (* let v = self.digest.finalize() *)
| MForLePush (v : list N)                    (* for byte in v.to_le_bytes() { self.flav.try_push(byte)?; } *)
| MLetCobsFinalize (idx val : list N)        (* let (idx, val) = self.cobs.finalize() *)
| MMatchCobsPush (v : list N) (arms : list (list N * list (list N) * list mstep)).   (* match self.cobs.push(v) { .. } *)
