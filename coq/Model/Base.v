(* Base.v: bytes, outcomes, error kinds, little-endian byte strings.
   Executable definitions only (no proofs): the model still runs when a proof breaks. *)
From Coq Require Export List NArith ZArith Bool.
Export ListNotations.
Open Scope N_scope.

Notation byte := N (only parsing).
Definition byte_ok (b : byte) : Prop := b < 256.
Definition bytes_ok (l : list byte) : Prop := Forall byte_ok l.
Definition byte_okb (b : byte) : bool := b <? 256.
Definition bytes_okb (l : list byte) : bool := forallb byte_okb l.

(* postcard::Error, same variants, same order *)
Inductive error :=
| WontImplement | NotYetImplemented | SerializeBufferFull | SerializeSeqLengthUnknown
| DeserializeUnexpectedEnd | DeserializeBadVarint | DeserializeBadBool | DeserializeBadChar
| DeserializeBadUtf8 | DeserializeBadOption | DeserializeBadEnum | DeserializeBadEncoding
| DeserializeBadCrc | SerdeSerCustom | SerdeDeCustom | CollectStrError.

(* Outcomes.  Panic: assert!/index/slice out of range/todo!/over-wide shift.
   Fault: an unchecked raw access outside its buffer.  OutOfFuel: artificial. *)
Inductive res (A : Type) :=
| Ok (a : A) | Err (e : error) | Panic | Fault | OutOfFuel.
Arguments Ok {A} a.
Arguments Err {A} e.
Arguments Panic {A}.
Arguments Fault {A}.
Arguments OutOfFuel {A}.

Definition bind {A B} (r : res A) (f : A -> res B) : res B :=
  match r with
  | Ok a => f a
  | Err e => Err e
  | Panic => Panic
  | Fault => Fault
  | OutOfFuel => OutOfFuel
  end.
Notation "'let*' x ':=' r 'in' k" := (bind r (fun x => k))
  (at level 200, x name, r at level 100, k at level 200).
Notation "'let*' ' p ':=' r 'in' k" := (bind r (fun p => k))
  (at level 200, p strict pattern, r at level 100, k at level 200).

Definition map_err {A} (f : error -> error) (r : res A) : res A :=
  match r with Err e => Err (f e) | x => x end.

Definition is_ok {A} (r : res A) : bool := match r with Ok _ => true | _ => false end.
Definition benign {A} (r : res A) : Prop :=
  match r with Ok _ | Err _ => True | _ => False end.

(* n little-endian bytes of v (to_le_bytes, modelled) *)
Fixpoint le_bytes (n : nat) (v : N) : list byte :=
  match n with
  | O => []
  | S n' => (v mod 256) :: le_bytes n' (v / 256)
  end.
(* from_le_bytes (modelled) *)
Fixpoint of_le_bytes (l : list byte) : N :=
  match l with
  | [] => 0
  | b :: r => b + 256 * of_le_bytes r
  end.
Definition be_bytes (n : nat) (v : N) : list byte := rev (le_bytes n v).
Definition of_be_bytes (l : list byte) : N := of_le_bytes (rev l).

(* checked list access: no defaults anywhere in the model *)
Fixpoint read_at {A} (l : list A) (i : nat) : option A :=
  match l, i with
  | [], _ => None
  | x :: _, O => Some x
  | _ :: r, S i' => read_at r i'
  end.
Fixpoint write_at {A} (l : list A) (i : nat) (x : A) : option (list A) :=
  match l, i with
  | [], _ => None
  | _ :: r, O => Some (x :: r)
  | y :: r, S i' => match write_at r i' x with Some r' => Some (y :: r') | None => None end
  end.

(* copy a block into buf at index at_ (ptr::copy_nonoverlapping / read_exact into a slot):
   None when the block does not lie inside the buffer *)
Definition splice {A} (buf : list A) (at_ : nat) (bs : list A) : option (list A) :=
  if Nat.leb (at_ + length bs) (length buf)
  then Some (firstn at_ buf ++ bs ++ skipn (at_ + length bs) buf) else None.

(* apply f exactly n times, stopping at the first non-Ok outcome; structural on the
   binary representation so that a count of 2^64 read from the wire needs no fuel and
   costs nothing unless the iterations really succeed. *)
Section Iter.
  Context {A : Type} (f : A -> res A).
  Fixpoint iter_pos (p : positive) (a : A) : res A :=
    match p with
    | xH => f a
    | xO p' => let* a1 := iter_pos p' a in iter_pos p' a1
    | xI p' => let* a0 := f a in let* a1 := iter_pos p' a0 in iter_pos p' a1
    end.
  Definition iter_N (n : N) (a : A) : res A :=
    match n with N0 => Ok a | Npos p => iter_pos p a end.
  Fixpoint iter_nat (n : nat) (a : A) : res A :=
    match n with O => Ok a | S n' => let* a0 := f a in iter_nat n' a0 end.
End Iter.
