(* Conform.v: the data-model items a value serialises as, WITH the names serde passes along
   (type, field and variant names), conformance of such a named value to a schema, and the
   shape a schema prescribes to a reader that knows nothing else. *)
From PV Require Import Base MachineInt Utf8 DataModel Schema SchemaDecl SchemaConv SchemaOps.
Open Scope N_scope.

Inductive nvalue :=
| NBool (b : bool) | NInt (k : ikind) (z : Z) | NF32 (bits : N) | NF64 (bits : N)
| NChar (c : N) | NStr (bs : list byte) | NBytes (bs : list byte)
| NNone | NSome (v : nvalue) | NUnit
| NUnitStruct (name : list N)
| NNewtypeStruct (name : list N) (v : nvalue)
| NSeq (vs : list nvalue) | NTuple (vs : list nvalue)
| NTupleStruct (name : list N) (vs : list nvalue)
| NMap (kvs : list (nvalue * nvalue))
| NStruct (name : list N) (fields : list (list N * nvalue))
(* enum name, variant index, variant name, payload: one of the four struct forms, named after
   the variant *)
| NVariant (ename : list N) (idx : N) (vname : list N) (payload : nvalue).

(* forget the names: what reaches the wire *)
Fixpoint erase (v : nvalue) : value :=
  match v with
  | NBool b => VBool b | NInt k z => VInt k z | NF32 b => VF32 b | NF64 b => VF64 b
  | NChar c => VChar c | NStr bs => VStr bs | NBytes bs => VBytes bs
  | NNone => VNone | NSome x => VSome (erase x) | NUnit => VUnit
  | NUnitStruct _ => VUnitStruct
  | NNewtypeStruct _ x => VNewtype (erase x)
  | NSeq vs => VSeq (map erase vs) | NTuple vs => VTuple (map erase vs)
  | NTupleStruct _ vs => VTupleStruct (map erase vs)
  | NMap kvs => VMap (map (fun kv => (erase (fst kv), erase (snd kv))) kvs)
  | NStruct _ fs => VStruct (map (fun f => erase (snd f)) fs)
  | NVariant _ idx _ p => VVariant idx (erase p)
  end.

(* the shape a schema prescribes; d: how deep an embedded schema value (the Schema kind) may
   nest *)
Section SchemaTy.
  Variable d : nat.
  Definition prim_ty (p : prim) : ty :=
    match p with
    | PBool => TBool | PI8 => TInt I8 | PU8 => TInt U8 | PI16 => TInt I16 | PI32 => TInt I32
    | PI64 => TInt I64 | PI128 => TInt I128 | PU16 => TInt U16 | PU32 => TInt U32 | PU64 => TInt U64
    | PU128 => TInt U128 | PUsize => TInt U64 | PIsize => TInt I64 | PF32 => TF32 | PF64 => TF64
    | PChar => TChar | PString => TStr | PByteArray => TBytes | PUnit => TUnit | PSchema => oty d
    end.
  Definition data_shape (k : dkind) (ts : list ty) : ty :=
    match k with
    | DUnit => TUnitStruct
    | DNewtype => match ts with [t] => TNewtype t | _ => TTupleStruct ts end
    | DTuple => TTupleStruct ts
    | DStruct => TStruct ts
    end.
  Fixpoint schema_ty (s : schema) : ty :=
    match s with
    | SPrim p => prim_ty p
    | SOption t => TOption (schema_ty t)
    | SSeq t => TSeq (schema_ty t)
    | STuple ts => TTuple (map schema_ty ts)
    | SMap k v => TMap (schema_ty k) (schema_ty v)
    | SStruct _ k fs => data_shape k (map (fun f => schema_ty (snd f)) fs)
    | SEnum _ vs => TEnum (map (fun v => data_shape (snd (fst v)) (map (fun f => schema_ty (snd f)) (snd v))) vs)
    end.
End SchemaTy.

(* the reader that knows only the schema: consumes one value, returns what follows *)
Definition schema_skip (d : nat) (s : schema) (bs : list byte) : res (list byte) :=
  let* '(_, rest) := De.de_slice (schema_ty d s) bs in Ok rest.

(* ---- conformance of the named items to the schema ---- *)
Definition prim_conforms (d : nat) (v : nvalue) (p : prim) : bool :=
  match p, v with
  | PSchema, _ => has_type (erase v) (oty d)
  | _, (NBool _ | NInt _ _ | NF32 _ | NF64 _ | NChar _ | NStr _ | NBytes _ | NUnit) => has_type (erase v) (prim_ty d p)
  | _, _ => false
  end.

Section Conforms.
  Variable d : nat.
  Section Data.
    Variable conforms : nvalue -> schema -> bool.
    Fixpoint conforms_list (vs : list nvalue) (ts : list schema) : bool :=
      match vs, ts with
      | [], [] => true
      | v :: vs', t :: ts' => conforms v t && conforms_list vs' ts'
      | _, _ => false
      end.
    Fixpoint conforms_unnamed (vs : list nvalue) (fs : list (str * schema)) : bool :=
      match vs, fs with
      | [], [] => true
      | v :: vs', f :: fs' => conforms v (snd f) && conforms_unnamed vs' fs'
      | _, _ => false
      end.
    Fixpoint conforms_named (vs : list (list N * nvalue)) (fs : list (str * schema)) : bool :=
      match vs, fs with
      | [], [] => true
      | v :: vs', f :: fs' => list_N_eqb (fst v) (fst f) && conforms (snd v) (snd f) && conforms_named vs' fs'
      | _, _ => false
      end.
    (* a struct-form item against a data kind and its fields *)
    Definition conforms_data (v : nvalue) (k : dkind) (fs : list (str * schema)) : bool :=
      match k, v with
      | DUnit, NUnitStruct _ => match fs with [] => true | _ => false end
      | DNewtype, NNewtypeStruct _ x => match fs with [f] => conforms x (snd f) | _ => false end
      | DTuple, NTupleStruct _ xs => conforms_unnamed xs fs
      | DStruct, NStruct _ xs => conforms_named xs fs
      | _, _ => false
      end.
  End Data.

  Fixpoint conforms (v : nvalue) (s : schema) {struct v} : bool :=
    match s, v with
    | SPrim p, _ => prim_conforms d v p
    | SOption _, NNone => true
    | SOption t, NSome x => conforms x t
    | SSeq t, NSeq xs => forallb (fun x => conforms x t) xs && (N.of_nat (length xs) <? 2 ^ 64)
    | STuple ts, NTuple xs => conforms_list conforms xs ts
    | SMap k t, NMap kvs =>
      forallb (fun kv => conforms (fst kv) k && conforms (snd kv) t) kvs && (N.of_nat (length kvs) <? 2 ^ 64)
    | SStruct _ k fs, _ =>
      match k, v with
      | DUnit, NUnitStruct _ => match fs with [] => true | _ => false end
      | DNewtype, NNewtypeStruct _ x => match fs with [f] => conforms x (snd f) | _ => false end
      | DTuple, NTupleStruct _ xs => conforms_unnamed conforms xs fs
      | DStruct, NStruct _ xs => conforms_named conforms xs fs
      | _, _ => false
      end
    | SEnum _ vs, NVariant _ idx vname p =>
      (idx <? 2 ^ 32) &&
      match nth_error vs (N.to_nat idx) with
      | Some (vn, k, fs) =>
        list_N_eqb vname vn &&
        match k, p with
        | DUnit, NUnitStruct _ => match fs with [] => true | _ => false end
        | DNewtype, NNewtypeStruct _ x => match fs with [f] => conforms x (snd f) | _ => false end
        | DTuple, NTupleStruct _ xs => conforms_unnamed conforms xs fs
        | DStruct, NStruct _ xs => conforms_named conforms xs fs
        | _, _ => false
        end
      | None => false
      end
    | _, _ => false
    end.
End Conforms.
