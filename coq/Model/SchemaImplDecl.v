(* SchemaImplDecl.v: vocabulary of the generated table of `impl Schema for X` rows
   (GenSchemaImpls.v): the constant expressions that build each SCHEMA, as data. *)
From PV Require Import Base.
Open Scope N_scope.

(* a type named inside `<T as Schema>::SCHEMA` *)
Inductive tyx := TxName (n : list N) | TxArray (t : tyx) (len : N).

Inductive sexpr :=
| XPrim (name : list N)                      (* DataModelType::U8, ... *)
| XParam (name : list N)                     (* T::SCHEMA, T a type parameter of the impl *)
| XOfTy (t : tyx)                            (* <[u8; 8] as Schema>::SCHEMA: the row of another type *)
| XOpaque                                    (* a row outside the translated fragment *)
| XOption (e : sexpr) | XSeq (e : sexpr)
| XTuple (es : list sexpr)                   (* &[A::SCHEMA, B::SCHEMA] *)
| XTupleRep (e : sexpr) (len : list N)       (* &[T::SCHEMA; N], N a const parameter *)
| XMap (k v : sexpr)
| XStruct (name : list N) (d : xdata)
| XEnum (name : list N) (vs : list (list N * xdata))
with xdata :=
| XDUnit | XDNewtype (e : sexpr) | XDTuple (es : list sexpr) | XDStruct (fs : list (list N * sexpr)).
