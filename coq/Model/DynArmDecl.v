(* DynArmDecl.v: vocabulary of the generated table of postcard-dyn's scalar encoder arms
   (GenDynArms.v). *)
From PV Require Import Base.
Open Scope N_scope.

Inductive dconv :=
| CNone
| CTryFrom (ty : list N)        (* let val = T::try_from(val)? *)
| CFrom (ty : list N)           (* let val = T::from(val) *)
| CNarrow                       (* let val = val as f32 *)
| CNarrowFinite.                (* ... ; if !val.is_finite() { return Err(SchemaMismatch) } *)
Inductive demit :=
| EPushBool                     (* out.push(if val { 0x01 } else { 0x00 }) *)
| EPushAsU8                     (* out.push(val as u8) *)
| EPush                         (* out.push(val) *)
| EVarint (maxty fnty : list N) (* let mut buf = [0u8; varint_max::<maxty>()]; let used = varint_<fnty>(val, &mut buf); out.extend_from_slice(used) *)
| ELeBytes.                     (* let val = val.to_le_bytes(); out.extend_from_slice(&val) *)
Inductive dser_arm := DA (accessor : list N) (conv : dconv) (zigzag : option N) (emit : demit).

(* postcard-dyn/src/de.rs: the scalar arms of `deserialize` *)
Inductive dtake :=
| TOne                          (* let (one, rest) = data.take_one()? *)
| TVarint (fnty : list N)       (* let (val, rest) = try_take_varint_<fnty>(data)? *)
| TTakeN (n : N).               (* let (val, rest) = data.take_n(n)? *)
Inductive dde_step :=
| KMatchBool                    (* let val = match one { 0 => Value::Bool(false), 1 => Value::Bool(true), _ => return Err(SchemaMismatch) } *)
| KAsI8                         (* one as i8 *)
| KZigZag (w : N)               (* let val = de_zig_zag_i<w>(val) *)
| KTryFrom (ty err : list N)    (* let val = T::try_from(val).map_err(|_| Error::<err>)? *)
| KFromLe (n : N) (ty : list N). (* let mut buf = [0u8; n]; buf.copy_from_slice(val); let f = <ty>::from_le_bytes(buf) *)
Inductive dde_final :=
| FVal                          (* Ok((val, rest)) with val already a Value *)
| FNumber                       (* let val = Value::Number(Number::from(val)) *)
| FFromF64 (into : bool).       (* let val = Value::Number(Number::from_f64(f [.into()]).right()?) *)
Inductive dde_arm := DDA (take : dtake) (steps : list dde_step) (final : dde_final).
