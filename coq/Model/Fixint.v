(* Fixint.v: fixint.rs.  LE<T> / BE<T> serialise self.0.to_le_bytes() / to_be_bytes(), a
   [u8; size_of::<T>()], which serde serialises as a tuple of u8 (modelled); they
   deserialise the same array and apply from_le_bytes / from_be_bytes. *)
From PV Require Import Base MachineInt DataModel Ser De.
Open Scope N_scope.

Definition nbytes (k : ikind) : nat := Z.to_nat (size_of (ik_ity k)).
(* the two's complement bit pattern of z in k's width *)
Definition bit_pattern (k : ikind) (z : Z) : N := Z.to_N (z mod 2 ^ bits (ik_ity k)).
Definition fix_bytes (be : bool) (k : ikind) (z : Z) : list byte :=
  if be then be_bytes (nbytes k) (bit_pattern k z) else le_bytes (nbytes k) (bit_pattern k z).
Definition bytes_value (bs : list byte) : value := VTuple (map (fun b => VInt U8 (Z.of_N b)) bs).
Definition fix_value (be : bool) (k : ikind) (z : Z) : value := bytes_value (fix_bytes be k z).
Definition fix_ty (k : ikind) : ty := TTuple (repeat (TInt U8) (nbytes k)).

Fixpoint value_bytes (vs : list value) : option (list byte) :=
  match vs with
  | [] => Some []
  | VInt U8 z :: r => match value_bytes r with Some bs => Some (Z.to_N z :: bs) | None => None end
  | _ => None
  end.
Definition fix_decode (be : bool) (k : ikind) (v : value) : option Z :=
  match v with
  | VTuple vs =>
    match value_bytes vs with
    | Some bs => Some (wrap (ik_ity k) (Z.of_N (if be then of_be_bytes bs else of_le_bytes bs)))
    | None => None
    end
  | _ => None
  end.
