(* Cobs.v: crate cobs 0.2.3 (modelled): the streaming EncoderState of enc.rs and the
   in-place decoder of dec.rs (decode_raw! with source = destination). *)
From PV Require Import Base.
Open Scope N_scope.

(* ---- enc.rs ---- *)
Record enc_state := { code_idx : nat; num_bt_sent : N; offset_idx : N }.
Definition enc_init : enc_state := {| code_idx := 0; num_bt_sent := 1; offset_idx := 1 |}.
Inductive push_result :=
| AddSingle (b : byte)
| ModifyFromStartAndSkip (idx : nat) (mval : byte)
| ModifyFromStartAndPushAndSkip (idx : nat) (mval nval : byte).

Definition enc_push (s : enc_state) (data : byte) : push_result * enc_state :=
  if data =? 0 then
    (ModifyFromStartAndSkip (code_idx s) (num_bt_sent s),
     {| code_idx := code_idx s + N.to_nat (offset_idx s); num_bt_sent := 1; offset_idx := 1 |})
  else
    let nbs := num_bt_sent s + 1 in
    let off := offset_idx s + 1 in
    if 255 =? nbs then
      (ModifyFromStartAndPushAndSkip (code_idx s) nbs data,
       {| code_idx := code_idx s + N.to_nat off; num_bt_sent := 1; offset_idx := 1 |})
    else (AddSingle data, {| code_idx := code_idx s; num_bt_sent := nbs; offset_idx := off |}).
Definition enc_finalize (s : enc_state) : nat * byte := (code_idx s, num_bt_sent s).

(* ---- dec.rs: decode_raw!(buff, buff) ---- *)
Record decode_report := { dst_used : nat; src_used : nat }.

Fixpoint index_of_zero (l : list byte) : option nat :=
  match l with
  | [] => None
  | b :: r => if b =? 0 then Some O else option_map S (index_of_zero r)
  end.

(* for _ in 1..code { dst[dest_index] = src[source_index]; source_index += 1; dest_index += 1 }
   on one buffer; an index out of range panics *)
Fixpoint copy_run (n : nat) (buf : list byte) (si di : nat) : res (list byte * nat * nat) :=
  match n with
  | O => Ok (buf, si, di)
  | S n' =>
    match read_at buf si with
    | None => Panic
    | Some x =>
      match write_at buf di x with
      | None => Panic
      | Some buf' => copy_run n' buf' (S si) (S di)
      end
    end
  end.

(* the while loop; fuel = src_end + 1 iterations always suffice (source_index grows) *)
Fixpoint decode_loop (fuel : nat) (src_end : nat) (buf : list byte) (si di : nat)
  : res (option (list byte * decode_report)) :=
  if Nat.leb src_end si then Ok (Some (buf, {| dst_used := di; src_used := si |}))
  else
    match fuel with
    | O => OutOfFuel
    | S f =>
      match read_at buf si with
      | None => Panic
      | Some code =>
        if (Nat.ltb src_end (si + N.to_nat code)) && negb (code =? 1) then Ok None   (* Err(()) *)
        else
          let* '(buf1, si1, di1) := copy_run (N.to_nat code - 1) buf (S si) di in
          if negb (255 =? code) && Nat.ltb si1 src_end then
            match write_at buf1 di1 0 with
            | None => Panic
            | Some buf2 => decode_loop f src_end buf2 si1 (S di1)
            end
          else decode_loop f src_end buf1 si1 di1
      end
    end.

Definition decode_in_place_report (buf : list byte) : res (option (list byte * decode_report)) :=
  let src_end := match index_of_zero buf with Some e => e | None => length buf end in
  decode_loop (S src_end) src_end buf 0 0.
