(* PtrDecl.v: vocabulary of the generated statement trees of the raw-pointer methods
   (GenPtrCode.v). *)
From PV Require Import Base.
Open Scope N_scope.

Inductive pexp :=
| PField (f : list N)                (* self.start / self.cursor / self.end *)
| PVar (v : list N) | PConst (k : N)
| PDiff (a b : pexp)                 (* (a as usize) - (b as usize) *)
| PAddP (p n : pexp)                 (* p.add(n) *)
| PLenOf (v : list N).               (* v.len() *)
Inductive pcond := PEq (a b : pexp) | PLt (a b : pexp) | PGt (a b : pexp) | PLe (a b : pexp) | PGe (a b : pexp).
Inductive pstmt :=
| PIf (c : pcond) (th el : list pstmt)
| PLet (v : list N) (e : pexp)
| PSetField (f : list N) (e : pexp)
| PWrite (p : pexp) (v : list N)                 (* p.write(v) *)
| PCopy (src : list N) (p n : pexp)              (* core::ptr::copy_nonoverlapping(src.as_ptr(), p, n) *)
| PAssert (c : pcond)
| PLetOkDeref (v : list N) (p : pexp)            (* let v = Ok( *p ) *)
| PLetSlice (v : list N) (p n : pexp)            (* let v = core::slice::from_raw_parts[_mut](p, n) *)
| PRetErr (e : error) | PRetUnit
| PRetVar (v : list N)                           (* Ok(v) / v *)
| PRetSlice (p n : pexp)                         (* Ok(from_raw_parts(p, n)) *)
| PRetSome (e : pexp)
| PRetPlace (p : pexp).                          (* &mut *p *)
