(* SchemaOps.v: the schema-side operations with the generated declaration tables plugged in
   (what the runner evaluates and what the theorems are about). *)
From PV Require Import Base DataModel Schema SchemaDecl GenSchemaDecl SchemaSer SchemaConv Ser De.
Open Scope N_scope.

(* the value a schema tree serialises as, under the borrowed / the owned declarations *)
Definition B := sval borrowed_dmt borrowed_data borrowed_named_field borrowed_variant.
Definition O := sval owned_dmt owned_data owned_named_field owned_variant.
(* OwnedDataModelType unfolded d levels *)
Definition oty := decl_ty owned_dmt owned_data owned_named_field owned_variant.
(* From<&DataModelType> for OwnedDataModelType *)
Definition conv := to_owned conv_dmt conv_data conv_named_field conv_variant.
Definition read_back := of_value owned_dmt owned_data owned_named_field owned_variant.

(* from_bytes / take_from_bytes::<OwnedDataModelType>: every level of nesting costs at
   least one input byte, so unfolding the type length+1 levels loses nothing *)
Definition schema_de (bs : list byte) : res (schema * list byte) :=
  let* '(v, rest) := de_slice (oty (S (length bs))) bs in
  match read_back v with
  | Some s => Ok (s, rest)
  | None => Panic                       (* a typed value always reads back *)
  end.
