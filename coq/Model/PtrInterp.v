(* PtrInterp.v: an interpreter for the raw-pointer methods of the two Slice flavours as read
   from ser/flavors.rs and de/flavors.rs (GenPtrCode.v).  Pointers are indices into the
   buffer; a write, a read or a slice outside the buffer is Fault, a pointer difference that
   would wrap is Fault, a failed assert! is Panic.  Proofs/PtrCodeFacts.v shows the
   hand-written slice flavours of SerFlavors.v / DeFlavors.v equal to it. *)
From PV Require Import Base DataModel DeFlavors SchemaDecl PtrDecl GenPtrCode.
Open Scope N_scope.

Record pmach := { pm_buf : list byte; pm_start : nat; pm_cursor : nat; pm_end : nat }.
Inductive pval := PvN (n : nat) | PvBs (bs : list byte) | PvByte (b : byte).
Inductive pret := QUnit | QBytes (bs : list byte) | QByte (b : byte) | QSome (n : nat) | QPlace (idx : nat).
Definition penv := list (list N * pval).

Definition f_start : list N := [115; 116; 97; 114; 116].
Definition f_cursor : list N := [99; 117; 114; 115; 111; 114].
Definition f_end : list N := [101; 110; 100].

Fixpoint peval (m : pmach) (en : penv) (e : pexp) : res nat :=
  match e with
  | PField f => if list_N_eqb f f_start then Ok (pm_start m)
                else if list_N_eqb f f_cursor then Ok (pm_cursor m)
                else if list_N_eqb f f_end then Ok (pm_end m) else Panic
  | PVar v => match assoc v en with Some (PvN n) => Ok n | _ => Panic end
  | PConst k => Ok (N.to_nat k)
  | PDiff a b => let* x := peval m en a in let* y := peval m en b in
                 if Nat.ltb x y then Fault else Ok (x - y)%nat           (* the subtraction would wrap *)
  | PAddP p n => let* x := peval m en p in let* y := peval m en n in Ok (x + y)%nat
  | PLenOf v => match assoc v en with Some (PvBs bs) => Ok (length bs) | _ => Panic end
  end.
Definition pcond_eval (m : pmach) (en : penv) (c : pcond) : res bool :=
  match c with
  | PEq a b => let* x := peval m en a in let* y := peval m en b in Ok (Nat.eqb x y)
  | PLt a b => let* x := peval m en a in let* y := peval m en b in Ok (Nat.ltb x y)
  | PGt a b => let* x := peval m en a in let* y := peval m en b in Ok (Nat.ltb y x)
  | PLe a b => let* x := peval m en a in let* y := peval m en b in Ok (Nat.leb x y)
  | PGe a b => let* x := peval m en a in let* y := peval m en b in Ok (Nat.leb y x)
  end.
Definition set_field (m : pmach) (f : list N) (v : nat) : res pmach :=
  if list_N_eqb f f_start then Ok {| pm_buf := pm_buf m; pm_start := v; pm_cursor := pm_cursor m; pm_end := pm_end m |}
  else if list_N_eqb f f_cursor then Ok {| pm_buf := pm_buf m; pm_start := pm_start m; pm_cursor := v; pm_end := pm_end m |}
  else if list_N_eqb f f_end then Ok {| pm_buf := pm_buf m; pm_start := pm_start m; pm_cursor := pm_cursor m; pm_end := v |}
  else Panic.

Definition pstate := (pmach * penv)%type.
Fixpoint pexec_stmt (s : pstmt) (sg : pstate) {struct s} : res (pstate * option pret) :=
  let pexec_list :=
      fix pexec_list (l : list pstmt) (sg : pstate) : res (pstate * option pret) :=
        match l with
        | [] => Ok (sg, None)
        | x :: r => let* '(sg1, ret) := pexec_stmt x sg in
                    match ret with Some _ => Ok (sg1, ret) | None => pexec_list r sg1 end
        end in
  let '(m, en) := sg in
  match s with
  | PIf c th el => let* b := pcond_eval m en c in if b then pexec_list th sg else pexec_list el sg
  | PLet v e => let* x := peval m en e in Ok ((m, (v, PvN x) :: en), None)
  | PSetField f e => let* x := peval m en e in let* m1 := set_field m f x in Ok ((m1, en), None)
  | PWrite p v =>
    let* at_ := peval m en p in
    match assoc v en with
    | Some (PvByte b) =>
      match write_at (pm_buf m) at_ b with
      | Some buf' => Ok (({| pm_buf := buf'; pm_start := pm_start m; pm_cursor := pm_cursor m; pm_end := pm_end m |}, en), None)
      | None => Fault
      end
    | _ => Panic
    end
  | PCopy src p n =>
    let* at_ := peval m en p in
    let* k := peval m en n in
    match assoc src en with
    | Some (PvBs bs) =>
      if Nat.ltb (length bs) k then Fault                                     (* reads past the source *)
      else match splice (pm_buf m) at_ (firstn k bs) with
           | Some buf' => Ok (({| pm_buf := buf'; pm_start := pm_start m; pm_cursor := pm_cursor m; pm_end := pm_end m |}, en), None)
           | None => Fault
           end
    | _ => Panic
    end
  | PAssert c => let* b := pcond_eval m en c in if b then Ok (sg, None) else Panic
  | PLetOkDeref v p =>
    let* at_ := peval m en p in
    match read_at (pm_buf m) at_ with Some b => Ok ((m, (v, PvByte b) :: en), None) | None => Fault end
  | PLetSlice v p n =>
    let* at_ := peval m en p in let* k := peval m en n in
    match read_run (pm_buf m) at_ k with Some bs => Ok ((m, (v, PvBs bs) :: en), None) | None => Fault end
  | PRetErr e => Err e
  | PRetUnit => Ok (sg, Some QUnit)
  | PRetVar v => match assoc v en with
                 | Some (PvBs bs) => Ok (sg, Some (QBytes bs))
                 | Some (PvByte b) => Ok (sg, Some (QByte b))
                 | _ => Panic
                 end
  | PRetSlice p n =>
    let* at_ := peval m en p in let* k := peval m en n in
    match read_run (pm_buf m) at_ k with Some bs => Ok (sg, Some (QBytes bs)) | None => Fault end
  | PRetSome e => let* x := peval m en e in Ok (sg, Some (QSome x))
  | PRetPlace p => let* x := peval m en p in Ok (sg, Some (QPlace x))
  end.
Fixpoint pexec_list (l : list pstmt) (sg : pstate) : res (pstate * option pret) :=
  match l with
  | [] => Ok (sg, None)
  | x :: r => let* '(sg1, ret) := pexec_stmt x sg in
              match ret with Some _ => Ok (sg1, ret) | None => pexec_list r sg1 end
  end.
Fixpoint pbind (ps : list (list N)) (args : list pval) : option penv :=
  match ps, args with
  | [], [] => Some []
  | p :: ps', a :: args' => option_map (cons (p, a)) (pbind ps' args')
  | _, _ => None
  end.
Definition prun (method : list (list N) * list pstmt) (args : list pval) (m : pmach) : res (pmach * pret) :=
  match pbind (fst method) args with
  | None => Panic
  | Some en => let* '(sg, ret) := pexec_list (snd method) (m, en) in
               match ret with Some r => Ok (fst sg, r) | None => Panic end
  end.
