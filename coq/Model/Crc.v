(* Crc.v: crate crc 3.x Digest (modelled) as the bitwise Rocksoft-model CRC. *)
From PV Require Import Base.
Open Scope N_scope.

Record crc_alg := { c_width : N; c_poly : N; c_init : N; c_refin : bool; c_refout : bool; c_xorout : N }.

Fixpoint reflect_bits (n : nat) (v : N) : N :=
  match n with
  | O => 0
  | S n' => N.lor (N.shiftl (N.land v 1) (N.of_nat n')) (reflect_bits n' (N.shiftr v 1))
  end.

Definition crc_mask (a : crc_alg) : N := N.ones (c_width a).
(* one message bit, most significant bit first into the top of the register *)
Definition crc_step_bit (a : crc_alg) (reg : N) (bit : bool) : N :=
  let top := N.testbit reg (c_width a - 1) in
  let shifted := N.land (N.shiftl reg 1) (crc_mask a) in
  if xorb top bit then N.lxor shifted (c_poly a) else shifted.
Fixpoint byte_bits_msb (n : nat) (b : byte) : list bool :=
  match n with
  | O => []
  | S n' => N.testbit b (N.of_nat n') :: byte_bits_msb n' b
  end.
Definition crc_update_byte (a : crc_alg) (reg : N) (b : byte) : N :=
  let b' := if c_refin a then reflect_bits 8 b else b in
  fold_left (crc_step_bit a) (byte_bits_msb 8 b') reg.
Definition crc_init_reg (a : crc_alg) : N := c_init a.
Definition crc_update (a : crc_alg) (reg : N) (bs : list byte) : N := fold_left (crc_update_byte a) bs reg.
Definition crc_finalize (a : crc_alg) (reg : N) : N :=
  N.lxor (if c_refout a then reflect_bits (N.to_nat (c_width a)) reg else reg) (c_xorout a).
Definition crc (a : crc_alg) (bs : list byte) : N := crc_finalize a (crc_update a (crc_init_reg a) bs).

(* the parameters the detection theorems need: a width of at least one bit, parameters within
   the width, and a generator polynomial with a non-zero constant term (every catalogue
   algorithm has one).  Evaluated on the algorithms the driver instantiates. *)
Definition alg_okb (a : crc_alg) : bool :=
  (1 <=? c_width a) && (c_poly a <? 2 ^ c_width a) && (c_init a <? 2 ^ c_width a) && (c_xorout a <? 2 ^ c_width a)
  && N.odd (c_poly a).
