(* DynSizeDefs.v: the size of a JSON value and, per schema, the quantities of the allocation
   bound of from_slice_dyn (C18): least bytes a successful decode consumes, "no sequence of
   zero-width elements" (the complement of known finding F9), the multiple and the constant. *)
From PV Require Import Base DataModel Schema Dyn.
Open Scope N_scope.

(* ---- the size of a JSON value: nodes, string bytes, key bytes ---- *)
Fixpoint jsize (j : json) : N :=
  match j with
  | JStr bs => 1 + N.of_nat (length bs)
  | JArr l => 1 + (fix sum (l : list json) : N := match l with [] => 0 | x :: r => jsize x + sum r end) l
  | JObj kvs => 1 + (fix sum (kvs : list (list byte * json)) : N :=
                       match kvs with [] => 0 | kv :: r => 1 + N.of_nat (length (fst kv)) + jsize (snd kv) + sum r end) kvs
  | _ => 1
  end.
Fixpoint jsum (l : list json) : N := match l with [] => 0 | x :: r => jsize x + jsum r end.
Fixpoint osum (kvs : list (list byte * json)) : N :=
  match kvs with [] => 0 | kv :: r => 1 + N.of_nat (length (fst kv)) + jsize (snd kv) + osum r end.
(* ---- per schema: least bytes a successful decode consumes; no zero-width sequence elements;
   additive constant; multiple ---- *)
Definition pmin (p : prim) : N :=
  match p with PUnit => 0 | PF32 => 4 | PF64 => 8 | _ => 1 end.
Fixpoint dmin (s : schema) : N :=
  match s with
  | SPrim p => pmin p
  | SOption _ | SSeq _ | SMap _ _ | SEnum _ _ => 1
  | STuple ts => (fix sum (ts : list schema) : N := match ts with [] => 0 | x :: r => dmin x + sum r end) ts
  | SStruct _ k fs =>
    match k with
    | DUnit => 0
    | _ => (fix sum (fs : list (str * schema)) : N := match fs with [] => 0 | f :: r => dmin (snd f) + sum r end) fs
    end
  end.
Fixpoint dmin_sum (ts : list schema) : N := match ts with [] => 0 | x :: r => dmin x + dmin_sum r end.
Fixpoint dmin_fsum (fs : list (str * schema)) : N := match fs with [] => 0 | f :: r => dmin (snd f) + dmin_fsum r end.
Fixpoint dno_zero (s : schema) : bool :=
  match s with
  | SPrim _ => true
  | SOption t => dno_zero t
  | SSeq t => dno_zero t && (1 <=? dmin t)
  | STuple ts => forallb dno_zero ts
  | SMap k t => dno_zero k && dno_zero t
  | SStruct _ _ fs => forallb (fun f => dno_zero (snd f)) fs
  | SEnum _ vs => forallb (fun v => forallb (fun f => dno_zero (snd f)) (snd v)) vs
  end.

Fixpoint doffset (s : schema) : N :=
  match s with
  | SPrim _ => 1
  | SOption t => 1 + doffset t
  | SSeq _ | SMap _ _ => 1
  | STuple ts => 1 + (fix sum (ts : list schema) : N := match ts with [] => 0 | x :: r => doffset x + sum r end) ts
  | SStruct _ _ fs =>
    1 + (fix sum (fs : list (str * schema)) : N :=
           match fs with [] => 0 | f :: r => 1 + N.of_nat (length (fst f)) + doffset (snd f) + sum r end) fs
  | SEnum _ vs =>
    1 + (fix vsum (vs : list (str * dkind * list (str * schema))) : N :=
           match vs with
           | [] => 0
           | v :: r => 3 + N.of_nat (length (fst (fst v))) +
                       (fix sum (fs : list (str * schema)) : N :=
                          match fs with [] => 0 | f :: r => 1 + N.of_nat (length (fst f)) + doffset (snd f) + sum r end) (snd v) + vsum r
           end) vs
  end.
Fixpoint doff_sum (ts : list schema) : N := match ts with [] => 0 | x :: r => doffset x + doff_sum r end.
Fixpoint doff_fsum (fs : list (str * schema)) : N :=
  match fs with [] => 0 | f :: r => 1 + N.of_nat (length (fst f)) + doffset (snd f) + doff_fsum r end.
Fixpoint doff_vsum (vs : list (str * dkind * list (str * schema))) : N :=
  match vs with [] => 0 | v :: r => 3 + N.of_nat (length (fst (fst v))) + doff_fsum (snd v) + doff_vsum r end.
Fixpoint dslope (s : schema) : N :=
  match s with
  | SPrim _ => 1
  | SOption t => dslope t
  | SSeq t => dslope t + doffset t
  | SMap _ t => 1 + dslope t + doffset t
  | STuple ts => 1 + (fix sum (ts : list schema) : N := match ts with [] => 0 | x :: r => dslope x + sum r end) ts
  | SStruct _ _ fs => 1 + (fix sum (fs : list (str * schema)) : N := match fs with [] => 0 | f :: r => dslope (snd f) + sum r end) fs
  | SEnum _ vs =>
    1 + (fix vsum (vs : list (str * dkind * list (str * schema))) : N :=
           match vs with
           | [] => 0
           | v :: r => (fix sum (fs : list (str * schema)) : N := match fs with [] => 0 | f :: r => dslope (snd f) + sum r end) (snd v) + vsum r
           end) vs
  end.
Fixpoint dsl_sum (ts : list schema) : N := match ts with [] => 0 | x :: r => dslope x + dsl_sum r end.
Fixpoint dsl_fsum (fs : list (str * schema)) : N := match fs with [] => 0 | f :: r => dslope (snd f) + dsl_fsum r end.
Fixpoint dsl_vsum (vs : list (str * dkind * list (str * schema))) : N :=
  match vs with [] => 0 | v :: r => dsl_fsum (snd v) + dsl_vsum r end.
