(* StorageDecl.v: vocabulary of the generated table of the storage flavours' method bodies
   (GenStorages.v). *)
From PV Require Import Base.
Open Scope N_scope.

Inductive sop :=
| OVecPush (err : option error)       (* self.vec.push(d)[.map_err(|_| Error::e)]  /  self.vec.push(d); Ok(()) *)
| OVecExtend (err : option error)     (* self.vec.extend_from_slice(d)[.map_err(..)]  /  ...; Ok(()) *)
| OIterExtendOne                      (* self.iter.extend([d]); Ok(()) *)
| OIterExtendAll                      (* self.iter.extend(d.iter().copied()); Ok(()) *)
| OSizeAddOne                         (* self.size += 1; Ok(()) *)
| OSizeAddLen                         (* self.size += d.len(); Ok(()) *)
| OWriteAllOne (err : error)          (* self.writer.write_all(&[d]).map_err(|_| Error::e)?; Ok(()) *)
| OWriteAll (err : error)             (* self.writer.write_all(d).map_err(|_| Error::e)?; Ok(()) *)
| OFlushReturn (err : error)          (* self.writer.flush().map_err(|_| Error::e)?; Ok(self.writer) *)
| OReturnStore                        (* Ok(self.vec) / Ok(self.iter) / Ok(self.size) *)
| ODefaultExtend                      (* d.iter().try_for_each(|x| self.try_push( *x)) *)
| OIndexVec.                          (* &mut self.vec[d] *)
