(* MachineInt.v: Rust fixed-width integer operations on Z with the wrap-around written out.
   A machine integer of type (signed, bits) is a Z in its range; every operation that
   truncates in Rust has its `mod 2^bits` here. *)
From PV Require Import Base.
Open Scope Z_scope.

Record ity := { signed : bool; bits : Z }.
Definition u8 := {| signed := false; bits := 8 |}.
Definition u16 := {| signed := false; bits := 16 |}.
Definition u32 := {| signed := false; bits := 32 |}.
Definition u64 := {| signed := false; bits := 64 |}.
Definition u128 := {| signed := false; bits := 128 |}.
Definition i8 := {| signed := true; bits := 8 |}.
Definition i16 := {| signed := true; bits := 16 |}.
Definition i32 := {| signed := true; bits := 32 |}.
Definition i64 := {| signed := true; bits := 64 |}.
Definition i128 := {| signed := true; bits := 128 |}.
(* pointer width of the host the harness runs on; checked there with size_of::<usize>() *)
Definition usize := u64.
Definition isize := i64.

Definition in_range (t : ity) (z : Z) : Prop :=
  if signed t then - 2 ^ (bits t - 1) <= z < 2 ^ (bits t - 1) else 0 <= z < 2 ^ bits t.
Definition in_rangeb (t : ity) (z : Z) : bool :=
  if signed t then (- 2 ^ (bits t - 1) <=? z) && (z <? 2 ^ (bits t - 1))
  else (0 <=? z) && (z <? 2 ^ bits t).

(* two's complement reinterpretation of z in type t (`as`, and the result of every
   wrapping operation) *)
Definition wrap (t : ity) (z : Z) : Z :=
  let m := z mod 2 ^ bits t in
  if signed t then (if m <? 2 ^ (bits t - 1) then m else m - 2 ^ bits t) else m.

Definition cast (t : ity) (z : Z) : Z := wrap t z.
(* `a << k`: bits shifted out are lost silently; an amount >= bits panics in debug builds
   and is masked in release builds; the model never shifts that far (proved where used),
   and the evaluator treats it as the masked release behaviour. *)
Definition shl (t : ity) (a k : Z) : Z := wrap t (a * 2 ^ (k mod bits t)).
(* `a >> k`: arithmetic for signed, logical for unsigned: floor division in both cases
   because an unsigned value is non-negative *)
Definition shr (t : ity) (a k : Z) : Z := a / 2 ^ (k mod bits t).
Definition bxor (t : ity) (a b : Z) : Z := wrap t (Z.lxor a b).
Definition band (t : ity) (a b : Z) : Z := wrap t (Z.land a b).
Definition bor (t : ity) (a b : Z) : Z := wrap t (Z.lor a b).
Definition neg (t : ity) (a : Z) : Z := wrap t (- a).
Definition add (t : ity) (a b : Z) : Z := wrap t (a + b).
Definition sub (t : ity) (a b : Z) : Z := wrap t (a - b).
Definition mul (t : ity) (a b : Z) : Z := wrap t (a * b).
Definition div (t : ity) (a b : Z) : Z := wrap t (Z.quot a b).
Definition rem (t : ity) (a b : Z) : Z := wrap t (Z.rem a b).
(* x.leading_zeros() for an unsigned x in range *)
Definition leading_zeros (t : ity) (a : Z) : Z := bits t - Z.log2 a - (if a =? 0 then 0 else 1).
Definition size_of (t : ity) : Z := bits t / 8.
