(* SchemaSer.v: what #[derive(Serialize)] (modelled) writes for a schema tree, following the
   DECLARATIONS of the Rust enums as the translator read them (GenSchemaDecl.v): variant
   index = position in the declaration, payload fields in declared order.  The same
   function instantiated with the borrowed and with the owned declarations gives the
   borrowed and the owned serialisation. *)
From PV Require Import Base DataModel Schema SchemaDecl.
Open Scope N_scope.

Section WithDecls.
  Variable dmt data : list (list N * vshape).
  Variable named_field variant : list (list N * fty).

  (* serde derive: unit variant / newtype variant (one unnamed field) / tuple variant /
     struct variant *)
  Definition assemble (sh : vshape) (named : list (list N * value)) (positional : list value) : value :=
    match sh with
    | ShUnit => VUnitStruct
    | ShTuple [_] => match positional with [v] => VNewtype v | _ => VTupleStruct positional end
    | ShTuple _ => VTupleStruct positional
    | ShStruct fs => VStruct (map (fun f => match assoc (fst f) named with Some v => v | None => VUnit end) fs)
    end.
  Definition enum_value (decl : list (list N * vshape)) (kind : list N) (named : list (list N * value)) (positional : list value) : value :=
    match index_of kind decl 0 with
    | Some (idx, sh) => VVariant idx (assemble sh named positional)
    | None => VUnit                                          (* kind not declared *)
    end.
  Definition struct_value (decl : list (list N * fty)) (named : list (list N * value)) : value :=
    VStruct (map (fun f => match assoc (fst f) named with Some v => v | None => VUnit end) decl).

  Definition n_name : list N := [110; 97; 109; 101].   (* "name" *)
  Definition n_ty : list N := [116; 121].             (* "ty" *)
  Definition n_data : list N := [100; 97; 116; 97].   (* "data" *)
  Definition n_key : list N := [107; 101; 121].       (* "key" *)
  Definition n_val : list N := [118; 97; 108].        (* "val" *)
  Definition n_variants : list N := [118; 97; 114; 105; 97; 110; 116; 115].

  Definition data_value (k : dkind) (fields : list (str * value)) : value :=
    match k with
    | DUnit => enum_value data (dkind_name k) [] []
    | DNewtype => enum_value data (dkind_name k) [] (map snd fields)
    | DTuple => enum_value data (dkind_name k) [] [VSeq (map snd fields)]
    | DStruct => enum_value data (dkind_name k) []
                            [VSeq (map (fun f => struct_value named_field [(n_name, VStr (fst f)); (n_ty, snd f)]) fields)]
    end.

  Fixpoint sval (s : schema) : value :=
    match s with
    | SPrim p => enum_value dmt (prim_name p) [] []
    | SOption t => enum_value dmt (node_name s) [] [sval t]
    | SSeq t => enum_value dmt (node_name s) [] [sval t]
    | STuple ts => enum_value dmt (node_name s) [] [VSeq (map sval ts)]
    | SMap k v => enum_value dmt (node_name s) [(n_key, sval k); (n_val, sval v)] []
    | SStruct name k fields =>
      enum_value dmt (node_name s)
                 [(n_name, VStr name); (n_data, data_value k (map (fun f => (fst f, sval (snd f))) fields))] []
    | SEnum name vs =>
      enum_value dmt (node_name s)
                 [(n_name, VStr name);
                  (n_variants, VSeq (map (fun v => struct_value variant
                                                     [(n_name, VStr (fst (fst v)));
                                                      (n_data, data_value (snd (fst v)) (map (fun f => (fst f, sval (snd f))) (snd v)))])
                                         vs))] []
    end.
End WithDecls.
