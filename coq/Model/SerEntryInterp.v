(* SerEntryInterp.v: the serialising entry points as read from ser/mod.rs and the crc module of
   ser/flavors.rs (GenSerEntry.v): the flavour stack each one builds is interpreted over the
   flavours of SerFlavors.v, serialize_with_flavor with the finalize error read from the source.
   Proofs/SerEntryFacts.v shows the entry points of SerFlavors.v equal to this. *)
From PV Require Import Base DataModel Ser Cobs Crc SerFlavors SchemaDecl SerEntryDecl GenSerEntry StorageInterp.
Open Scope N_scope.

(* serialize_with_flavor with the error of `.finalize().map_err(|_| Error::e)` as a parameter *)
Definition serialize_with_err {St Out} (e : error) (fl : sflavor St Out) (s0 : St) (v : value) : res Out :=
  let '(ops, er) := ser_ops v in
  let* s := run_ops fl s0 ops in
  match er with
  | Some err => Err err
  | None => map_err (fun _ => e) (sf_finalize fl s)
  end.

Inductive eout := EOSlice (o : list byte * list byte) | EOVec (v : list byte) | EOSize (n : N).
Record eargs := { ea_buf : list byte; ea_cap : nat; ea_sink : list byte; ea_limit : option nat; ea_flush_fails : bool;
                  ea_alg : crc_alg; ea_nb : nat }.
Definition omap {A B} (f : A -> B) (r : res A) : res B :=
  match r with Ok a => Ok (f a) | Err e => Err e | Panic => Panic | Fault => Fault | OutOfFuel => OutOfFuel end.

Section Run.
  Variable a : eargs.
  Variable v : value.
  Let E := serialize_with_flavor_finalize_err.

  (* a stack over one of the three indexable storages *)
  Definition over_storage (n : list N) (k : forall St Out, sflavor St Out -> St -> (Out -> eout) -> res eout) : res eout :=
    if list_N_eqb n nm_Slice then k _ _ slice_flavor (slice_new (ea_buf a)) EOSlice
    else if list_N_eqb n nm_HVec then k _ _ (hvec_flavor (ea_cap a)) [] EOVec
    else if list_N_eqb n nm_AllocVec then k _ _ alloc_flavor [] EOVec
    else Panic.

  Definition run_stack (k : sstack) : res eout :=
    match k with
    | KStore n =>
      if list_N_eqb n nm_ExtendFlavor then omap EOVec (serialize_with_err E extend_flavor (ea_sink a) v)
      else if list_N_eqb n nm_io_Write || list_N_eqb n nm_eio_Write then
        omap EOVec (serialize_with_err E writer_flavor {| w_accepted := []; w_limit := ea_limit a; w_flush_fails := ea_flush_fails a |} v)
      else if list_N_eqb n nm_Size then omap EOSize (serialize_with_err E size_flavor 0 v)
      else over_storage n (fun St Out fl s0 out => omap out (serialize_with_err E fl s0 v))
    | KCobs (KStore n) =>
      over_storage n (fun St Out fl s0 out =>
        let* st := cobs_try_new fl s0 in omap out (serialize_with_err E (cobs_flavor fl) st v))
    | KCrc (KStore n) =>
      over_storage n (fun St Out fl s0 out =>
        omap out (serialize_with_err E (crc_flavor fl (ea_alg a) (ea_nb a)) (s0, crc_init_reg (ea_alg a)) v))
    | KCrc (KCobs (KStore n)) =>
      over_storage n (fun St Out fl s0 out =>
        let* st := cobs_try_new fl s0 in
        omap out (serialize_with_err E (crc_flavor (cobs_flavor fl) (ea_alg a) (ea_nb a)) (st, crc_init_reg (ea_alg a)) v))
    | _ => Panic
    end.

  (* `flavors::crc::to_slice_u32`: instance u32 of the macro, function number i of
     (to_slice, to_vec, to_allocvec); the checksum is size_of::<u32>() bytes *)
  Definition crc_templates : list (list N) :=
    [[99; 114; 99; 58; 58; 116; 111; 95; 115; 108; 105; 99; 101]; [99; 114; 99; 58; 58; 116; 111; 95; 118; 101; 99];
     [99; 114; 99; 58; 58; 116; 111; 95; 97; 108; 108; 111; 99; 118; 101; 99]].
  Definition width_bytes (w : list N) : option nat :=
    if list_N_eqb w [117; 56] then Some 1%nat else if list_N_eqb w [117; 49; 54] then Some 2%nat
    else if list_N_eqb w [117; 51; 50] then Some 4%nat else if list_N_eqb w [117; 54; 52] then Some 8%nat
    else if list_N_eqb w [117; 49; 50; 56] then Some 16%nat else None.
  Fixpoint index_of (x : list N) (l : list (list N)) : option nat :=
    match l with [] => None | y :: r => if list_N_eqb x y then Some 0%nat else option_map S (index_of x r) end.
  Definition strip_prefix (p x : list N) : option (list N) :=
    if list_N_eqb (firstn (length p) x) p then Some (skipn (length p) x) else None.
  Definition flavors_crc : list N := [102; 108; 97; 118; 111; 114; 115; 58; 58; 99; 114; 99; 58; 58].
  Fixpoint find_instance (fname : list N) (l : list (list N * list (list N))) : option (list N * nat) :=
    match l with
    | [] => None
    | (w, fs) :: r => match index_of fname fs with Some i => Some (w, i) | None => find_instance fname r end
    end.

  Definition run_entry (name : list N) : res eout :=
    match assoc name ser_entry_stacks with
    | Some (KAlias t) =>
      match strip_prefix flavors_crc t with
      | Some f =>
        match find_instance f crc_ser_instances with
        | Some (w, i) =>
          match width_bytes w, nth_error crc_templates i with
          | Some nb, Some tn =>
            if Nat.eqb nb (ea_nb a) then
              match assoc tn ser_entry_stacks with Some k => run_stack k | None => Panic end
            else Panic
          | _, _ => Panic
          end
        | None => Panic
        end
      | None => match assoc t ser_entry_stacks with Some k => run_stack k | None => Panic end
      end
    | Some k => run_stack k
    | None => Panic
    end.
End Run.
