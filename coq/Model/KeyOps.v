(* KeyOps.v: the two key hashers with the tag tables the translator read from each copy *)
From PV Require Import Base DataModel Schema SchemaDecl GenHashTags Key.
Open Scope N_scope.

(* fnv1a64::hash_ty_path (const, over the borrowed schema) *)
Definition key_const : list byte -> schema -> option (list byte) :=
  hash_ty_path hconst_nodes hconst_hash_struct hconst_hash_variant hconst_field_name_first.
(* fnv1a64_owned::hash_ty_path_owned (run time, over the owned schema) *)
Definition key_owned : list byte -> schema -> option (list byte) :=
  hash_ty_path howned_nodes howned_hash_struct howned_hash_variant howned_field_name_first.
