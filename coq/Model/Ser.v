(* Ser.v: ser/serializer.rs, one clause per serialize_* method, as the sequence of calls the
   serializer makes on its flavour (try_push / try_extend), stopping at the first refusal
   the serializer itself raises (length unknown). *)
From PV Require Import Base MachineInt VarintParams GenArith GenLoops Varint Utf8 DataModel.
Open Scope N_scope.

Inductive op :=
| Push (b : byte)              (* output.try_push(b) *)
| Extend (bs : list byte)      (* output.try_extend(bs), failure mapped to SerializeBufferFull *)
| ExtendFmt (bs : list byte).  (* try_extend from inside collect_str's second pass:
                                  failure surfaces as CollectStrError *)

Definition op_bytes (o : op) : list byte :=
  match o with Push b => [b] | Extend bs => bs | ExtendFmt bs => bs end.
Definition flatten_ops (l : list op) : list byte := flat_map op_bytes l.

(* try_push_varint_{u16,u32,u64,u128,usize}: the generated writer of that width *)
Definition writer_of (k : ikind) : wparams :=
  match k with
  | I16 | U16 => core_writer_u16 | I32 | U32 => core_writer_u32
  | I64 | U64 => core_writer_u64 | I128 | U128 => core_writer_u128
  | I8 | U8 => core_writer_u16 (* unused: 8-bit integers are pushed raw *)
  end.
Definition zig_zag (k : ikind) (z : Z) : Z :=
  match k with
  | I16 => Core.zig_zag_i16 z | I32 => Core.zig_zag_i32 z
  | I64 => Core.zig_zag_i64 z | I128 => Core.zig_zag_i128 z
  | _ => z
  end.
Definition ser_int (k : ikind) (z : Z) : list op :=
  match k with
  | U8 => [Push (Z.to_N z)]
  | I8 => [Push (Z.to_N (z mod 256))]                 (* v.to_le_bytes()[0] *)
  | _ => [Extend (venc (writer_of k) (Z.to_N (zig_zag k z)))]
  end.
Definition ser_len (n : nat) : op := Extend (venc core_writer_usize (N.of_nat n)).
Definition ser_str (bs : list byte) : list op := [ser_len (length bs); Extend bs].

Definition sres := (list op * option error)%type.
Definition sseq (a b : sres) : sres :=
  match a with
  | (o1, Some e) => (o1, Some e)
  | (o1, None) => (o1 ++ fst b, snd b)
  end.
Section SerList.
  Context {A : Type} (f : A -> sres).
  Fixpoint ser_list (l : list A) : sres :=
    match l with
    | [] => ([], None)
    | x :: r => sseq (f x) (ser_list r)
    end.
End SerList.

Fixpoint ser_ops (v : value) : sres :=
  match v with
  | VBool b => ([Push (if b then 1 else 0)], None)
  | VInt k z => (ser_int k z, None)
  | VF32 b => ([Extend (le_bytes 4 b)], None)
  | VF64 b => ([Extend (le_bytes 8 b)], None)
  | VChar c => (ser_str (utf8_encode c), None)
  | VStr bs => (ser_str bs, None)
  | VBytes bs => (ser_str bs, None)
  | VNone => ([Push 0], None)
  | VSome x => sseq ([Push 1], None) (ser_ops x)
  | VUnit | VUnitStruct => ([], None)
  | VNewtype x => ser_ops x
  | VSeq vs => sseq ([ser_len (length vs)], None) (ser_list ser_ops vs)
  | VTuple vs | VTupleStruct vs | VStruct vs => ser_list ser_ops vs
  | VMap kvs =>
    sseq ([ser_len (length kvs)], None)
         (ser_list (fun kv => sseq (ser_ops (fst kv)) (ser_ops (snd kv))) kvs)
  | VVariant idx p => sseq ([Extend (venc core_writer_u32 idx)], None) (ser_ops p)
  | VSeqNoLen _ | VMapNoLen _ => ([], Some SerializeSeqLengthUnknown)
  | VCollectStr pieces =>
    (ser_len (length (concat pieces)) :: map ExtendFmt pieces, None)
  end.

(* the plain encoding: what an unbounded flavour accumulates *)
Definition enc (v : value) : list byte := flatten_ops (fst (ser_ops v)).
Definition ser_err (v : value) : option error := snd (ser_ops v).
(* no node whose length is unknown *)
Definition serializable (v : value) : bool :=
  match ser_err v with None => true | Some _ => false end.
