(* IoReaderDecl.v: the holes of the SlidingBuffer / IOReader / EIOReader templates
   (GenIoReaders.v). *)
From PV Require Import Base VarintParams.
Open Scope N_scope.

(* SlidingBuffer::take_n: if remain <cmp> ct { return Err(Error::<err>) } *)
Record sliding_params := { sl_cmp : cmp; sl_err : error }.
(* pop: read_exact(&mut [0; 1]).map_err(|_| Error::<pop_err>)?;  try_take_n: take_n(ct)?, then
   read_exact(buff).map_err(|_| Error::<take_err>)? *)
Record reader_params := { rp_pop_err : error; rp_take_err : error }.
