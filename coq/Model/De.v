(* De.v: de/deserializer.rs, one clause per deserialize_* method, over an abstract flavour
   (pop / try_take_n), driven by the type shape the way serde's visitors drive it. *)
From PV Require Import Base MachineInt VarintParams GenArith GenLoops Varint Utf8 DataModel.
Open Scope N_scope.

Definition reader_of (k : ikind) : rparams error :=
  match k with
  | I16 | U16 => core_reader_u16 | I32 | U32 => core_reader_u32
  | I64 | U64 => core_reader_u64 | I128 | U128 => core_reader_u128
  | I8 | U8 => core_reader_u16 (* unused *)
  end.
(* try_take_varint_usize on this host: forwards to the reader the translator found *)
Definition usize_reader : rparams error :=
  if (bits core_usize_reader =? 16)%Z then core_reader_u16
  else if (bits core_usize_reader =? 32)%Z then core_reader_u32
  else if (bits core_usize_reader =? 64)%Z then core_reader_u64
  else core_reader_u128.
Definition de_zig_zag (k : ikind) (n : Z) : Z :=
  match k with
  | I16 => Core.de_zig_zag_i16 n | I32 => Core.de_zig_zag_i32 n
  | I64 => Core.de_zig_zag_i64 n | I128 => Core.de_zig_zag_i128 n
  | _ => n
  end.

(* SeqAccess::size_hint: match flavor.size_hint() { Some(size) if size < self.len => None,
   _ => Some(self.len) }; MapAccess::size_hint is Some(self.len) unconditionally *)
Definition seq_size_hint (flavor_hint : option N) (len : N) : option N :=
  match flavor_hint with
  | Some size => if cmp_eval seq_hint_cmp size len then None else Some len
  | None => Some len
  end.
Definition map_size_hint (len : N) : option N := Some len.

Section De.
  Context {St : Type}.
  Variable pop : St -> res (byte * St).
  Variable take_n : N -> St -> res (list byte * St).

  Definition take_varint (p : rparams error) (s : St) : res (N * St) := core_vdec p pop s.
  Definition take_usize (s : St) : res (N * St) := take_varint usize_reader s.

  Definition de_int (k : ikind) (s : St) : res (value * St) :=
    match k with
    | U8 => let* '(b, s1) := pop s in Ok (VInt U8 (Z.of_N b), s1)
    | I8 => let* '(b, s1) := pop s in Ok (VInt I8 (cast i8 (Z.of_N b)), s1)      (* pop()? as i8 *)
    | _ => let* '(n, s1) := take_varint (reader_of k) s in
           Ok (VInt k (de_zig_zag k (Z.of_N n)), s1)
    end.

  (* deserialize_char: a length-prefixed UTF-8 string of at most 4 bytes holding exactly
     one scalar value *)
  Definition de_char (s : St) : res (value * St) :=
    let* '(sz, s1) := take_usize s in
    if 4 <? sz then Err DeserializeBadChar
    else
      let* '(bs, s2) := take_n sz s1 in
      match utf8_chars bs with
      | Some [c] => Ok (VChar c, s2)
      | _ => Err DeserializeBadChar
      end.

  Definition de_str (s : St) : res (value * St) :=
    let* '(sz, s1) := take_usize s in
    let* '(bs, s2) := take_n sz s1 in
    if utf8_valid bs then Ok (VStr bs, s2) else Err DeserializeBadUtf8.

  Definition de_bytes (s : St) : res (value * St) :=
    let* '(sz, s1) := take_usize s in
    let* '(bs, s2) := take_n sz s1 in
    Ok (VBytes bs, s2).

  (* SeqAccess with a fixed number of elements: the tuple / struct visitors ask for each
     field in order *)
  Section Fields.
    Variable de : ty -> St -> res (value * St).
    Fixpoint de_fields (ts : list ty) (s : St) : res (list value * St) :=
      match ts with
      | [] => Ok ([], s)
      | t :: ts' =>
        let* '(v, s1) := de t s in
        let* '(vs, s2) := de_fields ts' s1 in
        Ok (v :: vs, s2)
      end.
  End Fields.

  Fixpoint de (t : ty) (s : St) {struct t} : res (value * St) :=
    match t with
    | TBool =>
      let* '(b, s1) := pop s in
      if b =? 0 then Ok (VBool false, s1)
      else if b =? 1 then Ok (VBool true, s1) else Err DeserializeBadBool
    | TInt k => de_int k s
    | TF32 => let* '(bs, s1) := take_n 4 s in Ok (VF32 (of_le_bytes bs), s1)
    | TF64 => let* '(bs, s1) := take_n 8 s in Ok (VF64 (of_le_bytes bs), s1)
    | TChar => de_char s
    | TStr => de_str s
    | TBytes => de_bytes s
    | TOption t' =>
      let* '(b, s1) := pop s in
      if b =? 0 then Ok (VNone, s1)
      else if b =? 1 then (let* '(v, s2) := de t' s1 in Ok (VSome v, s2))
      else Err DeserializeBadOption
    | TUnit => Ok (VUnit, s)
    | TUnitStruct => Ok (VUnitStruct, s)
    | TNewtype t' => let* '(v, s1) := de t' s in Ok (VNewtype v, s1)
    | TSeq t' =>
      let* '(n, s1) := take_usize s in
      (* visit_seq: next_element until the SeqAccess has handed out n elements *)
      let* '(racc, s2) := iter_N (fun st => let* '(v, s') := de t' (snd st) in Ok (v :: fst st, s'))
                                 n ([], s1) in
      Ok (VSeq (rev racc), s2)
    | TTuple ts => let* '(vs, s1) := de_fields de ts s in Ok (VTuple vs, s1)
    | TTupleStruct ts => let* '(vs, s1) := de_fields de ts s in Ok (VTupleStruct vs, s1)
    | TStruct ts => let* '(vs, s1) := de_fields de ts s in Ok (VStruct vs, s1)
    | TMap tk tv =>
      let* '(n, s1) := take_usize s in
      let* '(racc, s2) := iter_N (fun st =>
                                    let* '(k, s') := de tk (snd st) in
                                    let* '(v, s'') := de tv s' in
                                    Ok ((k, v) :: fst st, s''))
                                 n ([], s1) in
      Ok (VMap (rev racc), s2)
    | TEnum vs =>
      (* variant_seed: varint(u32) index, handed to the visitor's variant identifier,
         which rejects an unknown index with a custom error *)
      let* '(idx, s1) := take_varint core_reader_u32 s in
      if N.of_nat (length vs) <=? idx then Err SerdeDeCustom else
      (fix pick (vs : list ty) (i : nat) : res (value * St) :=
         match vs, i with
         | [], _ => Err SerdeDeCustom
         | t' :: _, O => let* '(v, s2) := de t' s1 in Ok (VVariant idx v, s2)
         | _ :: vs', S i' => pick vs' i'
         end) vs (N.to_nat idx)
    end.
End De.

(* The slice flavour at the level of byte lists: the state is the not yet consumed input *)
Definition slice_pop (l : list byte) : res (byte * list byte) :=
  match l with [] => Err DeserializeUnexpectedEnd | b :: r => Ok (b, r) end.
Definition slice_take_n (n : N) (l : list byte) : res (list byte * list byte) :=
  if N.of_nat (length l) <? n then Err DeserializeUnexpectedEnd
  else Ok (firstn (N.to_nat n) l, skipn (N.to_nat n) l).
Definition de_slice (t : ty) (l : list byte) : res (value * list byte) :=
  de slice_pop slice_take_n t l.

(* de/mod.rs *)
Definition take_from_bytes (t : ty) (l : list byte) : res (value * list byte) := de_slice t l.
Definition from_bytes (t : ty) (l : list byte) : res value :=
  let* '(v, _) := de_slice t l in Ok v.
