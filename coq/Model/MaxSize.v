(* MaxSize.v: POSTCARD_MAX_SIZE.  Type expressions covering every built-in impl of
   max_size.rs and the derive; max_size evaluates the impl rows the translator read
   (GenMaxSize.v) with varint_max / varint_size / max / varint_size_discriminant from
   GenArith.v; the derive rule (sum of fields; enums: discriminant width + max over
   variants) is the hand model of postcard-derive/src/max_size.rs. *)
From PV Require Import Base MachineInt GenArith Utf8 DataModel SchemaDecl MaxSizeDecl GenMaxSize.
Open Scope N_scope.

Inductive mty :=
| MBool | MInt (k : ikind) | MUsize | MIsize | MF32 | MF64 | MChar | MUnit
| MNonZero (k : ikind) | MNonZeroUsize | MNonZeroIsize
| MPhantom
| MOption (t : mty) | MResult (t e : mty)
| MArray (t : mty) (n : N)
| MRef (t : mty) | MRefMut (t : mty) | MBox (t : mty) | MRc (t : mty) | MArc (t : mty)
| MTuple (ts : list mty)                         (* arity 1..6 *)
| MRange (t : mty) | MRangeInclusive (t : mty) | MRangeFrom (t : mty) | MRangeTo (t : mty)
| MHVec (t : mty) (n : N) | MHString (n : N)
| MStruct (fields : list mty)                    (* derive on a struct (any of the four forms) *)
| MEnum (variants : list (list mty)).            (* derive on an enum *)

Definition s_ (l : list N) := l.
Definition ik_rust (k : ikind) : list N :=
  match k with
  | I8 => [105; 56] | I16 => [105; 49; 54] | I32 => [105; 51; 50] | I64 => [105; 54; 52] | I128 => [105; 49; 50; 56]
  | U8 => [117; 56] | U16 => [117; 49; 54] | U32 => [117; 51; 50] | U64 => [117; 54; 52] | U128 => [117; 49; 50; 56]
  end.
Definition nm_usize : list N := [117; 115; 105; 122; 101].
Definition nm_isize : list N := [105; 115; 105; 122; 101].
Definition all_ikinds : list ikind := [I8; I16; I32; I64; I128; U8; U16; U32; U64; U128].
(* the integer type a primitive's name denotes (for varint_max::<Self>()) *)
Definition ity_of_name (n : list N) : option ity :=
  if list_N_eqb n nm_usize then Some usize
  else if list_N_eqb n nm_isize then Some isize
  else option_map ik_ity (find (fun k => list_N_eqb n (ik_rust k)) all_ikinds).
Definition nonzero_name (base : list N) : list N :=
  (* "NonZero" ++ capitalised base *)
  [78; 111; 110; 90; 101; 114; 111] ++ match base with c :: r => (c - 32) :: r | [] => [] end.

Section Eval.
  Variable impls : list (list N * mexpr).
  (* tenv: type parameters -> their POSTCARD_MAX_SIZE; cenv: const parameters *)
  Fixpoint eval (fuel : nat) (self : option ity) (tenv cenv : list (list N * N)) (e : mexpr) : option N :=
    match fuel with
    | O => None
    | S fuel' =>
      let ev := eval fuel' self tenv cenv in
      let bin (f : N -> N -> N) a b := match ev a, ev b with Some x, Some y => Some (f x y) | _, _ => None end in
      match e with
      | EConst n => Some n
      | EVarintMaxSelf => option_map (fun t => Z.to_N (Core.varint_max t)) self
      | EParam n => assoc n tenv
      | EOf n => match assoc n impls with
                 | Some e' => eval fuel' (ity_of_name n) [] [] e'
                 | None => None
                 end
      | EArrayOf el ln =>
        match ev el, assoc ln cenv, assoc [91; 84; 59; 78; 93] impls with          (* the row "[T;N]" *)
        | Some x, Some n, Some e' => eval fuel' None [([84], x)] [([78], n)] e'
        | _, _, _ => None
        end
      | ELen n => assoc n cenv
      | EAdd a b => bin N.add a b
      | EMul a b => bin N.mul a b
      | EMax a b => bin (fun x y => Z.to_N (Core.max (Z.of_N x) (Z.of_N y))) a b
      | EVarintSize a => option_map (fun x => Z.to_N (Core.varint_size (Z.of_N x))) (ev a)
      end
    end.
  Definition row (key : list N) (self : option ity) (tenv cenv : list (list N * N)) : option N :=
    match assoc key impls with
    | Some e => eval 8 self tenv cenv e
    | None => None
    end.
End Eval.

Definition k_ (s : list N) := s.
Definition key_bool : list N := [98; 111; 111; 108].
Definition key_f32 : list N := [102; 51; 50].
Definition key_f64 : list N := [102; 54; 52].
Definition key_char : list N := [99; 104; 97; 114].
Definition key_unit : list N := [40; 41].
Definition key_phantom : list N := [80; 104; 97; 110; 116; 111; 109; 68; 97; 116; 97; 60; 84; 62].
Definition key_option : list N := [79; 112; 116; 105; 111; 110; 60; 84; 62].
Definition key_result : list N := [82; 101; 115; 117; 108; 116; 60; 84; 44; 69; 62].
Definition key_array : list N := [91; 84; 59; 78; 93].
Definition key_ref : list N := [38; 84].
Definition key_refmut : list N := [38; 109; 117; 116; 32; 84].
Definition key_box : list N := [66; 111; 120; 60; 84; 62].
Definition key_rc : list N := [82; 99; 60; 84; 62].
Definition key_arc : list N := [65; 114; 99; 60; 84; 62].
Definition key_range : list N := [82; 97; 110; 103; 101; 60; 84; 62].
Definition key_range_incl : list N := [82; 97; 110; 103; 101; 73; 110; 99; 108; 117; 115; 105; 118; 101; 60; 84; 62].
Definition key_range_from : list N := [82; 97; 110; 103; 101; 70; 114; 111; 109; 60; 84; 62].
Definition key_range_to : list N := [82; 97; 110; 103; 101; 84; 111; 60; 84; 62].
Definition key_hvec : list N := [104; 101; 97; 112; 108; 101; 115; 115; 58; 58; 86; 101; 99; 60; 84; 44; 78; 62].
Definition key_hstring : list N := [104; 101; 97; 112; 108; 101; 115; 115; 58; 58; 83; 116; 114; 105; 110; 103; 60; 78; 62].
(* "(A,)", "(A,B)", ...: type parameters A, B, C, D, E, F *)
Definition tuple_key (n : nat) : list N :=
  match n with
  | 1%nat => [40; 65; 44; 41]
  | _ => [40] ++ (fix go (i : nat) (c : N) : list N :=
                    match i with
                    | O => []
                    | S O => [c]
                    | S i' => c :: 44 :: go i' (c + 1)
                    end) n 65 ++ [41]
  end.
Fixpoint tuple_env (sizes : list N) (c : N) : list (list N * N) :=
  match sizes with
  | [] => []
  | x :: r => ([c], x) :: tuple_env r (c + 1)
  end.

Fixpoint sum_opt (l : list (option N)) : option N :=
  match l with
  | [] => Some 0
  | Some x :: r => option_map (N.add x) (sum_opt r)
  | None :: _ => None
  end.
(* the derive's fold: { let lhs = acc; let rhs = x; if lhs > rhs { lhs } else { rhs } } from 0 *)
Fixpoint max_fold (acc : N) (l : list N) : N :=
  match l with
  | [] => acc
  | x :: r => max_fold (if x <? acc then acc else x) r
  end.
Fixpoint all_opt (l : list (option N)) : option (list N) :=
  match l with
  | [] => Some []
  | Some x :: r => option_map (cons x) (all_opt r)
  | None :: _ => None
  end.

Definition R := row maxsize_impls.

Fixpoint max_size (t : mty) : option N :=
  let one key a := match max_size a with Some x => R key None [([84], x)] [] | None => None end in
  match t with
  | MBool => R key_bool None [] []
  | MInt k => R (ik_rust k) (Some (ik_ity k)) [] []
  | MUsize => R nm_usize (Some usize) [] []
  | MIsize => R nm_isize (Some isize) [] []
  | MF32 => R key_f32 None [] []
  | MF64 => R key_f64 None [] []
  | MChar => R key_char None [] []
  | MUnit => R key_unit None [] []
  | MNonZero k => R (nonzero_name (ik_rust k)) None [] []
  | MNonZeroUsize => R (nonzero_name nm_usize) None [] []
  | MNonZeroIsize => R (nonzero_name nm_isize) None [] []
  | MPhantom => R key_phantom None [] []
  | MOption a => one key_option a
  | MResult a e =>
    match max_size a, max_size e with
    | Some x, Some y => R key_result None [([84], x); ([69], y)] []
    | _, _ => None
    end
  | MArray a n => match max_size a with Some x => R key_array None [([84], x)] [([78], n)] | None => None end
  | MRef a => one key_ref a
  | MRefMut a => one key_refmut a
  | MBox a => one key_box a
  | MRc a => one key_rc a
  | MArc a => one key_arc a
  | MTuple ts =>
    match all_opt (map max_size ts) with
    | Some sizes => R (tuple_key (length ts)) None (tuple_env sizes 65) []
    | None => None
    end
  | MRange a => one key_range a
  | MRangeInclusive a => one key_range_incl a
  | MRangeFrom a => one key_range_from a
  | MRangeTo a => one key_range_to a
  | MHVec a n => match max_size a with Some x => R key_hvec None [([84], x)] [([78], n)] | None => None end
  | MHString n => R key_hstring None [] [([78], n)]
  | MStruct fs => sum_opt (map max_size fs)
  | MEnum vs =>
    match all_opt (map (fun v => sum_opt (map max_size v)) vs) with
    | Some sizes =>
      Some (Z.to_N (Derive.varint_size_discriminant (Z.of_nat (length vs))) + max_fold 0 sizes)
    | None => None
    end
  end.

(* ---- which values inhabit a type expression, as serde sees them.  The four struct forms
   (unit / newtype / tuple / named) encode identically and are all written VStruct here; the
   harness normalises captured values the same way ---- *)
Definition int_val (k : ikind) (nonzero : bool) (v : value) : bool :=
  match v with
  | VInt k' z => ikind_eqb k k' && in_rangeb (ik_ity k) z && (negb nonzero || negb (z =? 0)%Z)
  | _ => false
  end.
Fixpoint mhas (v : value) (t : mty) {struct t} : bool :=
  match t with
  | MBool => match v with VBool _ => true | _ => false end
  | MInt k => int_val k false v
  | MUsize => int_val U64 false v                 (* usize serialises as u64 *)
  | MIsize => int_val I64 false v
  | MF32 => match v with VF32 b => b <? 2 ^ 32 | _ => false end
  | MF64 => match v with VF64 b => b <? 2 ^ 64 | _ => false end
  | MChar => match v with VChar c => is_scalar c | _ => false end
  | MUnit => match v with VUnit => true | _ => false end
  | MNonZero k => int_val k true v
  | MNonZeroUsize => int_val U64 true v
  | MNonZeroIsize => int_val I64 true v
  | MPhantom => match v with VStruct [] => true | _ => false end
  | MOption a => match v with VNone => true | VSome x => mhas x a | _ => false end
  | MResult a e =>
    match v with
    | VVariant idx (VStruct [x]) => if idx =? 0 then mhas x a else if idx =? 1 then mhas x e else false
    | _ => false
    end
  | MArray a n => match v with VTuple vs => (N.of_nat (length vs) =? n) && forallb (fun x => mhas x a) vs | _ => false end
  | MRef a | MRefMut a | MBox a | MRc a | MArc a => mhas v a
  | MTuple ts => match v with VTuple vs => ((fix go (ts : list mty) (vs : list value) {struct ts} : bool :=
                   match ts, vs with
                   | [], [] => true
                   | t' :: ts', x :: vs' => mhas x t' && go ts' vs'
                   | _, _ => false
                   end) ts vs) | _ => false end
  | MRange a | MRangeInclusive a => match v with VStruct [x; y] => mhas x a && mhas y a | _ => false end
  | MRangeFrom a | MRangeTo a => match v with VStruct [x] => mhas x a | _ => false end
  | MHVec a n => match v with VSeq vs => (N.of_nat (length vs) <=? n) && forallb (fun x => mhas x a) vs | _ => false end
  | MHString n =>
    match v with
    | VStr bs => (N.of_nat (length bs) <=? n) && bytes_okb bs && utf8_valid bs
    | _ => false
    end
  | MStruct fs => match v with VStruct vs => ((fix go (ts : list mty) (vs : list value) {struct ts} : bool :=
                   match ts, vs with
                   | [], [] => true
                   | t' :: ts', x :: vs' => mhas x t' && go ts' vs'
                   | _, _ => false
                   end) fs vs) | _ => false end
  | MEnum variants =>
    match v with
    | VVariant idx (VStruct vs) =>
      (fix pick (l : list (list mty)) (i : nat) : bool :=
         match l, i with
         | [], _ => false
         | fs :: _, O => ((fix go (ts : list mty) (vs : list value) {struct ts} : bool :=
                   match ts, vs with
                   | [], [] => true
                   | t' :: ts', x :: vs' => mhas x t' && go ts' vs'
                   | _, _ => false
                   end) fs vs)
         | _ :: l', S i' => pick l' i'
         end) variants (N.to_nat idx) && (idx <? N.of_nat (length variants))
    | _ => false
    end
  end.

(* sizes the host can express: lengths and capacities are usize *)
Fixpoint mty_ok (t : mty) : bool :=
  match t with
  | MOption a | MRef a | MRefMut a | MBox a | MRc a | MArc a
  | MRange a | MRangeInclusive a | MRangeFrom a | MRangeTo a => mty_ok a
  | MResult a e => mty_ok a && mty_ok e
  | MArray a n | MHVec a n => mty_ok a && (n <? 2 ^ 64)
  | MHString n => n <? 2 ^ 64
  | MTuple ts => forallb mty_ok ts && Nat.leb 1 (length ts) && Nat.leb (length ts) 6
  | MStruct fs => forallb mty_ok fs
  | MEnum vs => forallb (forallb mty_ok) vs && (N.of_nat (length vs) <? 2 ^ 32)
  | _ => true
  end.

(* the serde shape a type expression serialises as *)
Fixpoint shape (t : mty) : ty :=
  match t with
  | MBool => TBool
  | MInt k | MNonZero k => TInt k
  | MUsize | MNonZeroUsize => TInt U64
  | MIsize | MNonZeroIsize => TInt I64
  | MF32 => TF32 | MF64 => TF64 | MChar => TChar | MUnit => TUnit
  | MPhantom => TStruct []
  | MOption a => TOption (shape a)
  | MResult a e => TEnum [TStruct [shape a]; TStruct [shape e]]
  | MArray a n => TTuple (repeat (shape a) (N.to_nat n))
  | MRef a | MRefMut a | MBox a | MRc a | MArc a => shape a
  | MTuple ts => TTuple (map shape ts)
  | MRange a | MRangeInclusive a => TStruct [shape a; shape a]
  | MRangeFrom a | MRangeTo a => TStruct [shape a]
  | MHVec a _ => TSeq (shape a)
  | MHString _ => TStr
  | MStruct fs => TStruct (map shape fs)
  | MEnum vs => TEnum (map (fun fs => TStruct (map shape fs)) vs)
  end.

(* ---- tightness: the kinds for which the maximum is attained, and a value attaining it ---- *)
Fixpoint tight_kind (t : mty) : bool :=
  match t with
  | MBool | MInt _ | MUsize | MIsize | MF32 | MF64 | MChar | MUnit
  | MNonZero _ | MNonZeroUsize | MNonZeroIsize | MPhantom | MHString _ => true
  | MOption a | MArray a _ | MHVec a _ | MRef a | MRefMut a | MBox a | MRc a | MArc a => tight_kind a
  | MTuple ts | MStruct ts => forallb tight_kind ts
  | _ => false
  end.
Definition extreme (k : ikind) : Z :=
  (if signed (ik_ity k) then - 2 ^ (bits (ik_ity k) - 1) else 2 ^ bits (ik_ity k) - 1)%Z.
Fixpoint max_value (t : mty) : value :=
  match t with
  | MBool => VBool true
  | MInt k | MNonZero k => VInt k (extreme k)
  | MUsize | MNonZeroUsize => VInt U64 (extreme U64)
  | MIsize | MNonZeroIsize => VInt I64 (extreme I64)
  | MF32 => VF32 0 | MF64 => VF64 0
  | MChar => VChar 1114111
  | MUnit => VUnit
  | MPhantom => VStruct []
  | MOption a => VSome (max_value a)
  | MArray a n => VTuple (repeat (max_value a) (N.to_nat n))
  | MHVec a n => VSeq (repeat (max_value a) (N.to_nat n))
  | MHString n => VStr (repeat 120 (N.to_nat n))
  | MTuple ts => VTuple (map max_value ts)
  | MStruct ts => VStruct (map max_value ts)
  | MRef a | MRefMut a | MBox a | MRc a | MArc a => max_value a
  | _ => VUnit
  end.
