(* JsonOf.v: serde_json::to_value on the data-model items a value serialises as (hand model of
   serde_json's value serializer), and the restrictions under which C17 compares the dynamic
   codec with the static one. *)
From PV Require Import Base MachineInt Utf8 DataModel WireFormat Schema SchemaDecl SchemaConv Conform Dyn DynSizeDefs.
Open Scope N_scope.

Section JsonOf.
  Variable widen : N -> N.          (* f32 into f64: serde_json stores every float as f64 *)

  Fixpoint json_of (v : nvalue) : json :=
    match v with
    | NBool b => JBool b
    | NInt _ z => JInt z
    | NF32 b => JFloat (widen b)
    | NF64 b => JFloat b
    | NChar c => JStr (utf8_encode c)
    | NStr bs => JStr bs
    | NBytes bs => JArr (map (fun b => JInt (Z.of_N b)) bs)
    | NNone | NUnit | NUnitStruct _ => JNull
    | NSome x | NNewtypeStruct _ x => json_of x
    | NSeq xs | NTuple xs | NTupleStruct _ xs => JArr (map json_of xs)
    | NMap kvs =>
      JObj (fold_left (fun acc kv => match fst kv with
                                     | NStr k => obj_insert k (json_of (snd kv)) acc
                                     | _ => acc
                                     end) kvs [])
    | NStruct _ fs => JObj (fold_left (fun acc f => obj_insert (fst f) (json_of (snd f)) acc) fs [])
    | NVariant _ _ vname p =>
      match p with
      | NUnitStruct _ => JStr vname
      | _ => JObj [(vname, json_of p)]
      end
    end.
End JsonOf.

(* values whose JSON form is unambiguous: integers within i64 / u64, finite floats, maps keyed
   by strings in strictly ascending order *)
Fixpoint keys_ascending (ks : list (list byte)) : bool :=
  match ks with
  | a :: ((b :: _) as r) => match bytes_cmp a b with Lt => keys_ascending r | _ => false end
  | _ => true
  end.
Fixpoint unamb (v : nvalue) : bool :=
  match v with
  | NInt k z => if ik_signed k then ((- 2 ^ 63 <=? z) && (z <? 2 ^ 63))%Z else ((0 <=? z) && (z <? 2 ^ 64))%Z
  | NF32 b => f32_finite b
  | NF64 b => f64_finite b
  | NSome x | NNewtypeStruct _ x | NVariant _ _ _ x => unamb x
  | NSeq xs | NTuple xs | NTupleStruct _ xs => forallb unamb xs
  | NStruct _ fs => forallb (fun f => unamb (snd f)) fs
  | NMap kvs =>
    forallb (fun kv => match fst kv with NStr _ => unamb (snd kv) | _ => false end) kvs
    && keys_ascending (map (fun kv => match fst kv with NStr k => k | _ => [] end) kvs)
  | _ => true
  end.

(* schemas in scope: no embedded-schema kind, string-keyed maps, nothing nullable directly
   inside an Option, distinct field names within a struct body and distinct variant names *)
Fixpoint nullable (s : schema) : bool :=
  match s with
  | SPrim PUnit => true
  | SOption _ => true
  | SStruct _ DUnit _ => true
  | SStruct _ DNewtype [f] => nullable (snd f)
  | _ => false
  end.
Fixpoint names_distinct (ns : list (list byte)) : bool :=
  match ns with
  | [] => true
  | n :: r => negb (existsb (list_N_eqb n) r) && names_distinct r
  end.
Definition body_in_scope (ok : schema -> bool) (k : dkind) (fs : list (str * schema)) : bool :=
  forallb (fun f => ok (snd f)) fs && match k with DStruct => names_distinct (map fst fs) | _ => true end.
Fixpoint in_scope (s : schema) : bool :=
  match s with
  | SPrim p => match p with PSchema => false | _ => true end
  | SOption t => negb (nullable t) && in_scope t
  | SSeq t => in_scope t
  | STuple ts => forallb in_scope ts
  | SMap k v => match k with SPrim PString => in_scope v | _ => false end
  | SStruct _ k fs => body_in_scope in_scope k fs
  | SEnum _ vs =>
    forallb (fun v => body_in_scope in_scope (snd (fst v)) (snd v)) vs
    && names_distinct (map (fun v => fst (fst v)) vs)
  end.

(* sequences and maps of moderate length: beyond this the decoder's loop is only bounded by
   the input when elements occupy at least one byte (see Dyn.loop_fuel and known finding F9) *)
Fixpoint small_seqs (v : nvalue) : bool :=
  match v with
  | NSome x | NNewtypeStruct _ x | NVariant _ _ _ x => small_seqs x
  | NSeq xs => ((N.of_nat (length xs) <=? 65536) || forallb (fun x => negb (N.of_nat (length (spec_enc (erase x))) =? 0)) xs)
               && forallb small_seqs xs
  | NTuple xs | NTupleStruct _ xs => forallb small_seqs xs
  | NStruct _ fs => forallb (fun f => small_seqs (snd f)) fs
  | NMap kvs => forallb (fun kv => small_seqs (fst kv) && small_seqs (snd kv)) kvs
  | _ => true
  end.

(* ---- the scope of the re-encode theorem (C18) ---- *)
(* JSON values as serde_json holds them: strings are valid UTF-8 byte strings, object keys are
   strictly ascending, arrays of moderate length (beyond that: known finding F9; objects need no
   such bound, every entry of a map starts with its key's length prefix) *)
Fixpoint json_wf_g (lim : bool) (j : json) : bool :=
  match j with
  | JFloat b => (b <? 2 ^ 64) && f64_finite b
  | JStr bs => bytes_okb bs && utf8_valid bs && (N.of_nat (length bs) <? 2 ^ 64)
  | JArr l => forallb (json_wf_g lim) l && (if lim then N.of_nat (length l) <=? 65536 else N.of_nat (length l) <? 2 ^ 64)
  | JObj kvs =>
    forallb (fun kv => bytes_okb (fst kv) && utf8_valid (fst kv) && (N.of_nat (length (fst kv)) <? 2 ^ 64) && json_wf_g lim (snd kv)) kvs
    && keys_ascending (map fst kvs) && (N.of_nat (length kvs) <? 2 ^ 64)
  | _ => true
  end.
(* lim = true: arrays of at most 65536 elements (any schema); lim = false: arrays of any length,
   for schemas whose sequence elements occupy at least one byte (reenc_scope_g false) *)
Definition json_wf := json_wf_g true.

(* schemas outside the known classes F7 (nullable payload directly inside Option) and F8
   (duplicate field names in one struct body) *)
Definition body_ok (ok : schema -> bool) (k : dkind) (fs : list (str * schema)) : bool :=
  forallb (fun f => ok (snd f)) fs && match k with DStruct => names_distinct (map fst fs) | _ => true end.
Fixpoint reenc_scope_g (lim : bool) (s : schema) : bool :=
  match s with
  | SPrim _ => true
  | SOption t => negb (nullable t) && reenc_scope_g lim t
  | SSeq t => reenc_scope_g lim t && (lim || (1 <=? dmin t))
  | STuple ts => forallb (reenc_scope_g lim) ts
  | SMap k v => reenc_scope_g lim v
  | SStruct _ k fs => body_ok (reenc_scope_g lim) k fs
  | SEnum _ vs => forallb (fun v => body_ok (reenc_scope_g lim) (snd (fst v)) (snd v)) vs && (N.of_nat (length vs) <? 2 ^ 64)
  end.
Definition reenc_scope := reenc_scope_g true.

