(* SerMethods.v: an interpreter for the serializer method bodies the translator reads from
   ser/serializer.rs (GenSerMethods.v), and the serializer as serde drives it through those
   methods.  Proofs/SerMethodFacts.v shows it equal to the hand-written Ser.v. *)
From PV Require Import Base MachineInt VarintParams GenArith GenLoops Varint Utf8 DataModel Ser SchemaDecl SerMethodDecl GenSerMethods.
Open Scope N_scope.

Inductive mval :=
| VZ (z : Z) | VNn (n : N) | VBs (bs : list byte) | VBo (b : bool) | VCh (c : N) | VFl (w : N) (bits : N)
| VLenOpt (o : option nat)
| VSub                                  (* some value with its own Serialize impl *)
| VBuf (n : N).                         (* a scratch array of n zero bytes *)
Inductive mout := MDone | MValue | MFail (e : error) | MStuck.

Definition writer_named (ty : list N) : option (wparams * ity) :=
  if list_N_eqb ty [117; 49; 54] then Some (core_writer_u16, u16)
  else if list_N_eqb ty [117; 51; 50] then Some (core_writer_u32, u32)
  else if list_N_eqb ty [117; 54; 52] then Some (core_writer_u64, u64)
  else if list_N_eqb ty [117; 49; 50; 56] then Some (core_writer_u128, u128)
  else if list_N_eqb ty [117; 115; 105; 122; 101] then Some (core_writer_usize, usize)
  else None.
Definition zig_zag_w (w : N) (z : Z) : option Z :=
  if w =? 16 then Some (Core.zig_zag_i16 z) else if w =? 32 then Some (Core.zig_zag_i32 z)
  else if w =? 64 then Some (Core.zig_zag_i64 z) else if w =? 128 then Some (Core.zig_zag_i128 z) else None.

Definition env := list (list N * mval).
(* inl: a value; inr: the early exit of `?` *)
Definition eval_mexp (en : env) (e : mexp) : option (mval + error) :=
  match e with
  | MVar n => option_map inl (assoc n en)
  | MConst k => Some (inl (VZ (Z.of_N k)))
  | MIf c a b => match assoc c en with Some (VBo t) => Some (inl (VZ (Z.of_N (if t then a else b)))) | _ => None end
  | MByte0 v => match assoc v en with Some (VZ z) => Some (inl (VZ (z mod 256))) | _ => None end
  | MZigZag w v => match assoc v en with Some (VZ z) => option_map (fun r => inl (VZ r)) (zig_zag_w w z) | _ => None end
  | MBitsLe v => match assoc v en with Some (VFl w bits) => Some (inl (VBs (le_bytes (N.to_nat (w / 8)) bits))) | _ => None end
  | MZeros n => Some (inl (VBuf n))
  | MZerosVarintMax ty => option_map (fun wi => inl (VBuf (Z.to_N (Core.varint_max (snd wi))))) (writer_named ty)
  | MEncodeUtf8 v buf =>
    match assoc v en, assoc buf en with
    | Some (VCh c), Some (VBuf n) => if 4 <=? n then Some (inl (VBs (utf8_encode c))) else None
    | _, _ => None
    end
  | MVarintBytes ty v buf =>
    match writer_named ty, assoc v en, assoc buf en with
    | Some (wp, it), Some (VZ z), Some (VBuf n) =>
      if n =? Z.to_N (Core.varint_max it) then Some (inl (VBs (venc wp (Z.to_N z)))) else None
    | Some (wp, it), Some (VNn x), Some (VBuf n) =>                      (* a length or an index: unsigned *)
      if n =? Z.to_N (Core.varint_max it) then Some (inl (VBs (venc wp x))) else None
    | _, _, _ => None
    end
  | MLen v => match assoc v en with Some (VBs bs) => Some (inl (VNn (N.of_nat (length bs)))) | _ => None end
  | MLenOrErr v =>
    match assoc v en with
    | Some (VLenOpt (Some n)) => Some (inl (VNn (N.of_nat n)))
    | Some (VLenOpt None) => Some (inr SerializeSeqLengthUnknown)
    | _ => None
    end
  | MBytesOf v => match assoc v en with Some (VBs bs) => Some (inl (VBs bs)) | _ => None end
  end.

Fixpoint bind_params (ps : list (list N)) (args : list mval) : option env :=
  match ps, args with
  | [], [] => Some []
  | p :: ps', a :: args' => option_map (cons (p, a)) (bind_params ps' args')
  | _, _ => None
  end.

Section Run.
  Variable methods : list (list N * (list (list N) * list sstep)).
  Definition nm_serialize_str : list N := [115; 101; 114; 105; 97; 108; 105; 122; 101; 95; 115; 116; 114].
  Fixpoint run (fuel : nat) (name : list N) (args : list mval) : list op * mout :=
    match fuel with
    | 0%nat => ([], MStuck)
    | S f =>
      match assoc name methods with
      | None => ([], MStuck)
      | Some (ps, steps) =>
        match bind_params ps args with
        | None => ([], MStuck)
        | Some en0 =>
          (fix go (steps : list sstep) (en : env) : list op * mout :=
             match steps with
             | [] => ([], MDone)
             | st :: rest =>
               let continue (ops : list op) (out : mout) (en' : env) :=
                   match out with
                   | MDone => let '(ops2, out2) := go rest en' in (ops ++ ops2, out2)
                   | _ => (ops, out)
                   end in
               let call (nm : list N) (e : mexp) :=
                   match eval_mexp en e with
                   | Some (inl a) => let '(ops, out) := run f nm [a] in continue ops out en
                   | Some (inr err) => ([], MFail err)
                   | None => ([], MStuck)
                   end in
               match st with
               | SLet n e => match eval_mexp en e with
                             | Some (inl a) => go rest ((n, a) :: en)
                             | Some (inr err) => ([], MFail err)
                             | None => ([], MStuck)
                             end
               | SHelper nm e => call nm e
               | SCall nm e => call nm e
               | SPush e => match eval_mexp en e with
                            | Some (inl (VZ z)) => continue [Push (Z.to_N z)] MDone en
                            | Some (inr err) => ([], MFail err)
                            | _ => ([], MStuck)
                            end
               | SExtend e => match eval_mexp en e with
                              | Some (inl (VBs bs)) => continue [Extend bs] MDone en
                              | Some (inr err) => ([], MFail err)
                              | _ => ([], MStuck)
                              end
               | SValue v =>
                 match assoc v en with
                 | Some (VBs bs) => let '(ops, out) := run f nm_serialize_str [VBs bs] in (ops, out)   (* <str as Serialize> *)
                 | Some VSub => ([], MValue)
                 | _ => ([], MStuck)
                 end
               | SRetUnit | SRetSelf => ([], MDone)
               end
             end) steps en0
        end
      end
    end.
End Run.

Definition R (name : list N) (args : list mval) : list op * mout := run ser_methods 4 name args.

(* method names *)
Definition mn (s : list N) := s.
Definition mn_bool := [115; 101; 114; 105; 97; 108; 105; 122; 101; 95; 98; 111; 111; 108].
Definition mn_int (k : ikind) : list N :=
  [115; 101; 114; 105; 97; 108; 105; 122; 101; 95] ++
  match k with
  | I8 => [105; 56] | I16 => [105; 49; 54] | I32 => [105; 51; 50] | I64 => [105; 54; 52] | I128 => [105; 49; 50; 56]
  | U8 => [117; 56] | U16 => [117; 49; 54] | U32 => [117; 51; 50] | U64 => [117; 54; 52] | U128 => [117; 49; 50; 56]
  end.
Definition mn_f32 := [115; 101; 114; 105; 97; 108; 105; 122; 101; 95; 102; 51; 50].
Definition mn_f64 := [115; 101; 114; 105; 97; 108; 105; 122; 101; 95; 102; 54; 52].
Definition mn_char := [115; 101; 114; 105; 97; 108; 105; 122; 101; 95; 99; 104; 97; 114].
Definition mn_str := nm_serialize_str.
Definition mn_bytes := [115; 101; 114; 105; 97; 108; 105; 122; 101; 95; 98; 121; 116; 101; 115].
Definition mn_none := [115; 101; 114; 105; 97; 108; 105; 122; 101; 95; 110; 111; 110; 101].
Definition mn_some := [115; 101; 114; 105; 97; 108; 105; 122; 101; 95; 115; 111; 109; 101].
Definition mn_unit := [115; 101; 114; 105; 97; 108; 105; 122; 101; 95; 117; 110; 105; 116].
Definition mn_unit_struct := mn_unit ++ [95; 115; 116; 114; 117; 99; 116].
Definition mn_unit_variant := mn_unit ++ [95; 118; 97; 114; 105; 97; 110; 116].
Definition mn_newtype_struct := [115; 101; 114; 105; 97; 108; 105; 122; 101; 95; 110; 101; 119; 116; 121; 112; 101; 95; 115; 116; 114; 117; 99; 116].
Definition mn_newtype_variant := [115; 101; 114; 105; 97; 108; 105; 122; 101; 95; 110; 101; 119; 116; 121; 112; 101; 95; 118; 97; 114; 105; 97; 110; 116].
Definition mn_seq := [115; 101; 114; 105; 97; 108; 105; 122; 101; 95; 115; 101; 113].
Definition mn_tuple := [115; 101; 114; 105; 97; 108; 105; 122; 101; 95; 116; 117; 112; 108; 101].
Definition mn_tuple_struct := mn_tuple ++ [95; 115; 116; 114; 117; 99; 116].
Definition mn_tuple_variant := mn_tuple ++ [95; 118; 97; 114; 105; 97; 110; 116].
Definition mn_map := [115; 101; 114; 105; 97; 108; 105; 122; 101; 95; 109; 97; 112].
Definition mn_struct := [115; 101; 114; 105; 97; 108; 105; 122; 101; 95; 115; 116; 114; 117; 99; 116].
Definition mn_struct_variant := mn_struct ++ [95; 118; 97; 114; 105; 97; 110; 116].
Definition mn_elem_seq := [83; 101; 114; 105; 97; 108; 105; 122; 101; 83; 101; 113; 58; 58; 115; 101; 114; 105; 97; 108; 105; 122; 101; 95; 101; 108; 101; 109; 101; 110; 116].
Definition mn_elem_tuple := [83; 101; 114; 105; 97; 108; 105; 122; 101; 84; 117; 112; 108; 101; 58; 58; 115; 101; 114; 105; 97; 108; 105; 122; 101; 95; 101; 108; 101; 109; 101; 110; 116].
Definition mn_field_tuple_struct := [83; 101; 114; 105; 97; 108; 105; 122; 101; 84; 117; 112; 108; 101; 83; 116; 114; 117; 99; 116; 58; 58; 115; 101; 114; 105; 97; 108; 105; 122; 101; 95; 102; 105; 101; 108; 100].
Definition mn_field_tuple_variant := [83; 101; 114; 105; 97; 108; 105; 122; 101; 84; 117; 112; 108; 101; 86; 97; 114; 105; 97; 110; 116; 58; 58; 115; 101; 114; 105; 97; 108; 105; 122; 101; 95; 102; 105; 101; 108; 100].
Definition mn_map_key := [83; 101; 114; 105; 97; 108; 105; 122; 101; 77; 97; 112; 58; 58; 115; 101; 114; 105; 97; 108; 105; 122; 101; 95; 107; 101; 121].
Definition mn_map_value := [83; 101; 114; 105; 97; 108; 105; 122; 101; 77; 97; 112; 58; 58; 115; 101; 114; 105; 97; 108; 105; 122; 101; 95; 118; 97; 108; 117; 101].
Definition mn_field_struct := [83; 101; 114; 105; 97; 108; 105; 122; 101; 83; 116; 114; 117; 99; 116; 58; 58; 115; 101; 114; 105; 97; 108; 105; 122; 101; 95; 102; 105; 101; 108; 100].
Definition mn_field_struct_variant := [83; 101; 114; 105; 97; 108; 105; 122; 101; 83; 116; 114; 117; 99; 116; 86; 97; 114; 105; 97; 110; 116; 58; 58; 115; 101; 114; 105; 97; 108; 105; 122; 101; 95; 102; 105; 101; 108; 100].

(* ---- the serializer as serde's Serialize impls drive it (hand model of the serde side:
   which method each kind of value calls, with which arguments, in which order) ---- *)
Definition lift (r : list op * mout) : sres :=
  match snd r with
  | MFail e => (fst r, Some e)
  | MStuck => (fst r, Some WontImplement)      (* never: see SerMethodFacts *)
  | _ => (fst r, None)
  end.
(* a method whose body ends in `value.serialize(self)`: its own ops, then the sub-value *)
Definition then_value (r : list op * mout) (sub : sres) : sres :=
  match snd r with
  | MValue => sseq (fst r, None) sub
  | MDone => (fst r, Some WontImplement)       (* never: the sub-value would be dropped *)
  | _ => lift r
  end.
Fixpoint ser_via_methods (v : value) : sres :=
  let elems (elem_method : list N) (args : list mval) (vs : list value) : sres :=
      ser_list (fun x => then_value (R elem_method args) (ser_via_methods x)) vs in
  match v with
  | VBool b => lift (R mn_bool [VBo b])
  | VInt k z => lift (R (mn_int k) [VZ z])
  | VF32 b => lift (R mn_f32 [VFl 32 b])
  | VF64 b => lift (R mn_f64 [VFl 64 b])
  | VChar c => lift (R mn_char [VCh c])
  | VStr bs => lift (R mn_str [VBs bs])
  | VBytes bs => lift (R mn_bytes [VBs bs])
  | VNone => lift (R mn_none [])
  | VSome x => then_value (R mn_some [VSub]) (ser_via_methods x)
  | VUnit => lift (R mn_unit [])
  | VUnitStruct => lift (R mn_unit_struct [VSub])
  | VNewtype x => then_value (R mn_newtype_struct [VSub; VSub]) (ser_via_methods x)
  | VSeq vs => sseq (lift (R mn_seq [VLenOpt (Some (length vs))])) (elems mn_elem_seq [VSub] vs)
  | VSeqNoLen vs => sseq (lift (R mn_seq [VLenOpt None])) (elems mn_elem_seq [VSub] vs)
  | VTuple vs => sseq (lift (R mn_tuple [VSub])) (elems mn_elem_tuple [VSub] vs)
  | VTupleStruct vs => sseq (lift (R mn_tuple_struct [VSub; VSub])) (elems mn_field_tuple_struct [VSub] vs)
  | VStruct vs => sseq (lift (R mn_struct [VSub; VSub])) (elems mn_field_struct [VSub; VSub] vs)
  | VMap kvs =>
    sseq (lift (R mn_map [VLenOpt (Some (length kvs))]))
         (ser_list (fun kv => sseq (then_value (R mn_map_key [VSub]) (ser_via_methods (fst kv)))
                                   (then_value (R mn_map_value [VSub]) (ser_via_methods (snd kv)))) kvs)
  | VMapNoLen kvs =>
    sseq (lift (R mn_map [VLenOpt None]))
         (ser_list (fun kv => sseq (then_value (R mn_map_key [VSub]) (ser_via_methods (fst kv)))
                                   (then_value (R mn_map_value [VSub]) (ser_via_methods (snd kv)))) kvs)
  | VVariant idx p =>
    let iz := VNn idx in
    match p with
    | VTupleStruct vs => sseq (lift (R mn_tuple_variant [VSub; iz; VSub; VSub])) (elems mn_field_tuple_variant [VSub] vs)
    | VStruct vs => sseq (lift (R mn_struct_variant [VSub; iz; VSub; VSub])) (elems mn_field_struct_variant [VSub; VSub] vs)
    | VNewtype x => then_value (R mn_newtype_variant [VSub; iz; VSub; VSub]) (ser_via_methods x)
    | VUnit | VUnitStruct => lift (R mn_unit_variant [VSub; iz; VSub])
    | _ => then_value (R mn_newtype_variant [VSub; iz; VSub; VSub]) (ser_via_methods p)
    end
  | VCollectStr pieces =>
    (* collect_str: its two passes are checked by template (collect_str_two_passes_over_bytes) *)
    if collect_str_two_passes_over_bytes
    then (ser_len (length (concat pieces)) :: map ExtendFmt pieces, None) else ([], Some WontImplement)
  end.
