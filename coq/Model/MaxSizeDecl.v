(* MaxSizeDecl.v: vocabulary of the generated table of `impl MaxSize for X` rows
   (GenMaxSize.v): the constant expressions of max_size.rs as data. *)
From PV Require Import Base.
Open Scope N_scope.

Inductive mexpr :=
| EConst (n : N)
| EVarintMaxSelf                         (* varint_max::<Self>() *)
| EParam (name : list N)                 (* T::POSTCARD_MAX_SIZE, T a type parameter of the impl *)
| EOf (ty : list N)                      (* i16::POSTCARD_MAX_SIZE: the row of another type *)
| EArrayOf (elem : mexpr) (len : list N) (* <[T; N]>::POSTCARD_MAX_SIZE *)
| ELen (name : list N)                   (* a const parameter used as a number *)
| EAdd (a b : mexpr) | EMul (a b : mexpr) | EMax (a b : mexpr)
| EVarintSize (a : mexpr).
