(* DataModel.v: the serde data model as postcard sees it: type shapes and values.
   The 29 serde kinds: bool, i8..i128, u8..u128, f32, f64, char, string, byte array,
   option, unit, unit struct, unit variant, newtype struct, newtype variant, seq, tuple,
   tuple struct, tuple variant, map, struct, struct variant.  The four variant kinds are
   the variants of TEnum, whose payload shapes are TUnitStruct / TNewtype / TTupleStruct /
   TStruct (a variant's payload is encoded exactly like the struct form of the same
   shape, after the variant index). *)
From PV Require Import Base MachineInt Utf8.
Open Scope N_scope.

Inductive ikind := I8 | I16 | I32 | I64 | I128 | U8 | U16 | U32 | U64 | U128.
Definition ik_ity (k : ikind) : ity :=
  match k with
  | I8 => i8 | I16 => i16 | I32 => i32 | I64 => i64 | I128 => i128
  | U8 => u8 | U16 => u16 | U32 => u32 | U64 => u64 | U128 => u128
  end.
(* the unsigned type of the same width (what the varint carries) *)
Definition ik_uty (k : ikind) : ity :=
  match k with
  | I8 | U8 => u8 | I16 | U16 => u16 | I32 | U32 => u32 | I64 | U64 => u64 | I128 | U128 => u128
  end.
Definition ik_signed (k : ikind) : bool := signed (ik_ity k).
Definition ikind_eqb (a b : ikind) : bool :=
  match a, b with
  | I8, I8 | I16, I16 | I32, I32 | I64, I64 | I128, I128
  | U8, U8 | U16, U16 | U32, U32 | U64, U64 | U128, U128 => true
  | _, _ => false
  end.

Inductive ty :=
| TBool | TInt (k : ikind) | TF32 | TF64 | TChar | TStr | TBytes
| TOption (t : ty) | TUnit | TUnitStruct | TNewtype (t : ty)
| TSeq (t : ty) | TTuple (ts : list ty) | TTupleStruct (ts : list ty)
| TMap (k v : ty) | TStruct (ts : list ty)
| TEnum (vs : list ty).

Inductive value :=
| VBool (b : bool) | VInt (k : ikind) (z : Z)
| VF32 (bits : N) | VF64 (bits : N)          (* floats are their bit patterns *)
| VChar (c : N) | VStr (bs : list byte) | VBytes (bs : list byte)
| VNone | VSome (v : value) | VUnit | VUnitStruct | VNewtype (v : value)
| VSeq (vs : list value) | VTuple (vs : list value) | VTupleStruct (vs : list value)
| VMap (kvs : list (value * value)) | VStruct (vs : list value)
| VVariant (idx : N) (payload : value)
(* what only a Serialize impl can present to the serializer *)
| VSeqNoLen (vs : list value)                 (* serialize_seq(None) *)
| VMapNoLen (kvs : list (value * value))      (* serialize_map(None) *)
| VCollectStr (pieces : list (list byte)).    (* collect_str of a Display writing these pieces *)

(* v is a value of shape t (boolean, so that it is decidable and computable) *)
Fixpoint has_type (v : value) (t : ty) {struct v} : bool :=
  match v, t with
  | VBool _, TBool => true
  | VInt k z, TInt k' => ikind_eqb k k' && in_rangeb (ik_ity k) z
  | VF32 b, TF32 => b <? 2 ^ 32
  | VF64 b, TF64 => b <? 2 ^ 64
  | VChar c, TChar => is_scalar c
  | VStr bs, TStr => bytes_okb bs && utf8_valid bs && (N.of_nat (length bs) <? 2 ^ 64)
  | VBytes bs, TBytes => bytes_okb bs && (N.of_nat (length bs) <? 2 ^ 64)
  | VNone, TOption _ => true
  | VSome v', TOption t' => has_type v' t'
  | VUnit, TUnit => true
  | VUnitStruct, TUnitStruct => true
  | VNewtype v', TNewtype t' => has_type v' t'
  | VSeq vs, TSeq t' => forallb (fun x => has_type x t') vs && (N.of_nat (length vs) <? 2 ^ 64)
  | VTuple vs, TTuple ts | VTupleStruct vs, TTupleStruct ts | VStruct vs, TStruct ts =>
    (fix go (vs : list value) (ts : list ty) : bool :=
       match vs, ts with
       | [], [] => true
       | x :: vs', t' :: ts' => has_type x t' && go vs' ts'
       | _, _ => false
       end) vs ts
  | VMap kvs, TMap tk tv =>
    forallb (fun kv => has_type (fst kv) tk && has_type (snd kv) tv) kvs
    && (N.of_nat (length kvs) <? 2 ^ 64)
  | VVariant idx p, TEnum vs =>
    (idx <? 2 ^ 32) && (idx <? N.of_nat (length vs)) &&
    (fix pick (vs : list ty) (i : nat) : bool :=
       match vs, i with
       | [], _ => false
       | t' :: _, O => has_type p t'
       | _ :: vs', S i' => pick vs' i'
       end) vs (N.to_nat idx)
  | _, _ => false
  end.

(* shapes a variant payload may have *)
Definition variant_shape (t : ty) : bool :=
  match t with TUnitStruct | TNewtype _ | TTupleStruct _ | TStruct _ => true | _ => false end.
Fixpoint wf_ty (t : ty) : bool :=
  match t with
  | TOption t' | TNewtype t' | TSeq t' => wf_ty t'
  | TTuple ts | TTupleStruct ts | TStruct ts => forallb wf_ty ts
  | TMap k v => wf_ty k && wf_ty v
  | TEnum vs => forallb (fun t' => variant_shape t' && wf_ty t') vs && (N.of_nat (length vs) <=? 2 ^ 32)
  | _ => true
  end.
