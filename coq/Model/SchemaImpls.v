(* SchemaImpls.v: which SCHEMA constant a Rust type has, and which data-model items its
   Serialize emits.  `sty`: type expressions covering every built-in `impl Schema` of
   postcard-schema (and the two struct/enum forms of the derive); `schema_of` evaluates the
   impl rows the translator read (GenSchemaImpls.v); `emit_ok t v`: v is a tree of named items
   a value of type t serialises as (hand model of serde's Serialize impls for the built-ins
   and of serde_derive for plain structs and enums, tied to the real call trees by the
   correspondence check of C14). *)
From PV Require Import Base MachineInt Utf8 DataModel Schema SchemaDecl SchemaConv SchemaOps Conform SchemaImplDecl GenSchemaImpls MaxSize.
Open Scope N_scope.

Inductive sty :=
| YBool | YInt (k : ikind) | YNonZero (k : ikind) | YF32 | YF64 | YChar | YUnit
| YStr | YString | YPathBuf
| YOption (t : sty) | YResult (t e : sty) | YRef (t : sty)
| YSlice (t : sty) | YArray (t : sty) (n : N) | YTuple (ts : list sty)
| YRange (t : sty) | YRangeInclusive (t : sty) | YRangeFrom (t : sty) | YRangeTo (t : sty)
| YVec (t : sty) | YBTreeMap (k v : sty) | YHashMap (k v : sty) | YBTreeSet (t : sty) | YHashSet (t : sty)
| YHVec (t : sty) (n : N) | YHString (n : N)
| YUuid | YDateTime | YKey | YOwnedSchema | YBorrowedSchema
(* #[derive(Schema, Serialize)] without representation-changing attributes *)
| YDStruct (name : str) (k : dkind) (fields : list (str * sty))
| YDEnum (name : str) (variants : list (str * dkind * list (str * sty))).

Definition all_prims : list prim :=
  [PBool; PI8; PU8; PI16; PI32; PI64; PI128; PU16; PU32; PU64; PU128; PUsize; PIsize; PF32; PF64; PChar; PString; PByteArray; PUnit; PSchema].
Definition prim_of_name (n : list N) : option prim := find (fun p => list_N_eqb (prim_name p) n) all_prims.

Fixpoint all_some {A} (l : list (option A)) : option (list A) :=
  match l with
  | [] => Some []
  | Some x :: r => option_map (cons x) (all_some r)
  | None :: _ => None
  end.

Section EvalX.
  Variable impls : list (list N * sexpr).
  (* tenv: type parameters -> their SCHEMA; cenv: const parameters *)
  Fixpoint evalx (fuel : nat) (tenv : list (list N * schema)) (cenv : list (list N * N)) (e : sexpr) : option schema :=
    match fuel with
    | 0%nat => None
    | S fuel' =>
      let ev := evalx fuel' tenv cenv in
      let data (d : xdata) : option (dkind * list (str * schema)) :=
          match d with
          | XDUnit => Some (DUnit, [])
          | XDNewtype e' => option_map (fun s => (DNewtype, [([], s)])) (ev e')
          | XDTuple es => option_map (fun ss => (DTuple, map (fun s => ([], s)) ss)) (all_some (map ev es))
          | XDStruct fs => option_map (fun ss => (DStruct, combine (map fst fs) ss)) (all_some (map (fun f => ev (snd f)) fs))
          end in
      match e with
      | XPrim n => option_map SPrim (prim_of_name n)
      | XParam n => assoc n tenv
      | XOfTy t =>
        (fix ety (t : tyx) : option schema :=
           match t with
           | TxName n => match assoc n impls with Some e' => evalx fuel' [] [] e' | None => None end
           | TxArray t' len =>
             match ety t', assoc key_array impls with
             | Some x, Some e' => evalx fuel' [([84], x)] [([78], len)] e'
             | _, _ => None
             end
           end) t
      | XOpaque => None
      | XOption e' => option_map SOption (ev e')
      | XSeq e' => option_map SSeq (ev e')
      | XTuple es => option_map STuple (all_some (map ev es))
      | XTupleRep e' ln => match ev e', assoc ln cenv with
                           | Some s, Some n => Some (STuple (repeat s (N.to_nat n)))
                           | _, _ => None
                           end
      | XMap k v => match ev k, ev v with Some a, Some b => Some (SMap a b) | _, _ => None end
      | XStruct name d => option_map (fun kf => SStruct name (fst kf) (snd kf)) (data d)
      | XEnum name vs =>
        option_map (SEnum name)
          (all_some (map (fun v => option_map (fun kf => (fst v, fst kf, snd kf)) (data (snd v))) vs))
      end
    end.
  Definition rowx (key : list N) (tenv : list (list N * schema)) (cenv : list (list N * N)) : option schema :=
    match assoc key impls with
    | Some e => evalx 6 tenv cenv e
    | None => None
    end.
End EvalX.

(* the Self texts of the rows (as the translator normalises them) *)
Definition sk_str : list N := [115; 116; 114].
Definition sk_string : list N := [115; 116; 100; 58; 58; 115; 116; 114; 105; 110; 103; 58; 58; 83; 116; 114; 105; 110; 103].
Definition sk_pathbuf : list N := [115; 116; 100; 58; 58; 112; 97; 116; 104; 58; 58; 80; 97; 116; 104; 66; 117; 102].
Definition sk_slice : list N := [91; 84; 93].
Definition sk_vec : list N := [115; 116; 100; 58; 58; 118; 101; 99; 58; 58; 86; 101; 99; 60; 84; 62].
Definition sk_btreemap : list N := [115; 116; 100; 58; 58; 99; 111; 108; 108; 101; 99; 116; 105; 111; 110; 115; 58; 58; 66; 84; 114; 101; 101; 77; 97; 112; 60; 75; 44; 86; 62].
Definition sk_hashmap : list N := [115; 116; 100; 58; 58; 99; 111; 108; 108; 101; 99; 116; 105; 111; 110; 115; 58; 58; 72; 97; 115; 104; 77; 97; 112; 60; 75; 44; 86; 62].
Definition sk_btreeset : list N := [115; 116; 100; 58; 58; 99; 111; 108; 108; 101; 99; 116; 105; 111; 110; 115; 58; 58; 66; 84; 114; 101; 101; 83; 101; 116; 60; 75; 62].
Definition sk_hashset : list N := [115; 116; 100; 58; 58; 99; 111; 108; 108; 101; 99; 116; 105; 111; 110; 115; 58; 58; 72; 97; 115; 104; 83; 101; 116; 60; 75; 62].
Definition sk_hvec7 : list N := [104; 101; 97; 112; 108; 101; 115; 115; 95; 118; 48; 95; 55; 58; 58; 86; 101; 99; 60; 84; 44; 78; 62].
Definition sk_hstring7 : list N := [104; 101; 97; 112; 108; 101; 115; 115; 95; 118; 48; 95; 55; 58; 58; 83; 116; 114; 105; 110; 103; 60; 78; 62].
Definition sk_uuid : list N := [117; 117; 105; 100; 95; 118; 49; 95; 48; 58; 58; 85; 117; 105; 100].
Definition sk_datetime : list N := [99; 104; 114; 111; 110; 111; 95; 118; 48; 95; 52; 58; 58; 68; 97; 116; 101; 84; 105; 109; 101; 60; 84; 122; 62].
Definition sk_key : list N := [75; 101; 121].
Definition sk_owned : list N := [79; 119; 110; 101; 100; 68; 97; 116; 97; 77; 111; 100; 101; 108; 84; 121; 112; 101].
Definition sk_borrowed : list N := [68; 97; 116; 97; 77; 111; 100; 101; 108; 84; 121; 112; 101].
(* the rows for the same types under the alloc feature and for heapless 0.8 *)
Definition alias_rows : list (list N * list N) :=
  [([97; 108; 108; 111; 99; 58; 58; 118; 101; 99; 58; 58; 86; 101; 99; 60; 84; 62], sk_vec);
   ([97; 108; 108; 111; 99; 58; 58; 115; 116; 114; 105; 110; 103; 58; 58; 83; 116; 114; 105; 110; 103], sk_string);
   ([97; 108; 108; 111; 99; 58; 58; 99; 111; 108; 108; 101; 99; 116; 105; 111; 110; 115; 58; 58; 66; 84; 114; 101; 101; 77; 97; 112; 60; 75; 44; 86; 62], sk_btreemap);
   ([97; 108; 108; 111; 99; 58; 58; 99; 111; 108; 108; 101; 99; 116; 105; 111; 110; 115; 58; 58; 66; 84; 114; 101; 101; 83; 101; 116; 60; 75; 62], sk_btreeset);
   ([104; 101; 97; 112; 108; 101; 115; 115; 95; 118; 48; 95; 56; 58; 58; 86; 101; 99; 60; 84; 44; 78; 62], sk_hvec7);
   ([104; 101; 97; 112; 108; 101; 115; 115; 95; 118; 48; 95; 56; 58; 58; 83; 116; 114; 105; 110; 103; 60; 78; 62], sk_hstring7)].

Definition RS := rowx schema_impls.
Fixpoint tuple_senv (ss : list schema) (c : N) : list (list N * schema) :=
  match ss with
  | [] => []
  | x :: r => ([c], x) :: tuple_senv r (c + 1)
  end.

Fixpoint schema_of (t : sty) : option schema :=
  let one key (p : N) a := match schema_of a with Some x => RS key [([p], x)] [] | None => None end in
  let two key (p q : N) a b :=
      match schema_of a, schema_of b with Some x, Some y => RS key [([p], x); ([q], y)] [] | _, _ => None end in
  let fields (fs : list (str * sty)) : option (list (str * schema)) :=
      (fix go (fs : list (str * sty)) : option (list (str * schema)) :=
         match fs with
         | [] => Some []
         | f :: r => match schema_of (snd f), go r with Some s, Some l => Some ((fst f, s) :: l) | _, _ => None end
         end) fs in
  match t with
  | YBool => RS key_bool [] []
  | YInt k => RS (ik_rust k) [] []
  | YNonZero k => RS (nonzero_name (ik_rust k)) [] []
  | YF32 => RS key_f32 [] [] | YF64 => RS key_f64 [] [] | YChar => RS key_char [] [] | YUnit => RS key_unit [] []
  | YStr => RS sk_str [] [] | YString => RS sk_string [] [] | YPathBuf => RS sk_pathbuf [] []
  | YOption a => one key_option 84 a
  | YResult a b => two key_result 84 69 a b
  | YRef a => one key_ref 84 a
  | YSlice a => one sk_slice 84 a
  | YArray a n => match schema_of a with Some x => RS key_array [([84], x)] [([78], n)] | None => None end
  | YTuple ts =>
    match (fix go (ts : list sty) : option (list schema) :=
             match ts with
             | [] => Some []
             | a :: r => match schema_of a, go r with Some s, Some l => Some (s :: l) | _, _ => None end
             end) ts with
    | Some ss => RS (tuple_key (length ts)) (tuple_senv ss 65) []
    | None => None
    end
  | YRange a => one key_range 84 a
  | YRangeInclusive a => one key_range_incl 84 a
  | YRangeFrom a => one key_range_from 84 a
  | YRangeTo a => one key_range_to 84 a
  | YVec a => one sk_vec 84 a
  | YBTreeMap a b => two sk_btreemap 75 86 a b
  | YHashMap a b => two sk_hashmap 75 86 a b
  | YBTreeSet a => one sk_btreeset 75 a
  | YHashSet a => one sk_hashset 75 a
  | YHVec a n => match schema_of a with Some x => RS sk_hvec7 [([84], x)] [([78], n)] | None => None end
  | YHString n => RS sk_hstring7 [] [([78], n)]
  | YUuid => RS sk_uuid [] [] | YDateTime => RS sk_datetime [] [] | YKey => RS sk_key [] []
  | YOwnedSchema => RS sk_owned [] [] | YBorrowedSchema => RS sk_borrowed [] []
  (* hand model of postcard-derive/src/schema.rs *)
  | YDStruct name k fs => option_map (SStruct name k) (fields fs)
  | YDEnum name vs =>
    option_map (SEnum name)
      ((fix gov (vs : list (str * dkind * list (str * sty))) : option (list (str * dkind * list (str * schema))) :=
          match vs with
          | [] => Some []
          | v :: r => match fields (snd v), gov r with Some l, Some rest => Some ((fst v, l) :: rest) | _, _ => None end
          end) vs)
  end.

(* ---- what a value of the type serialises as ---- *)
Definition nm_start : list N := [115; 116; 97; 114; 116].
Definition nm_end : list N := [101; 110; 100].
Definition nm_ok : list N := [79; 107].
Definition nm_err : list N := [69; 114; 114].

Section Emit.
  Variable d : nat.
  Fixpoint emit_ok (t : sty) (v : nvalue) {struct t} : bool :=
    let seq a := match v with
                 | NSeq xs => forallb (emit_ok a) xs && (N.of_nat (length xs) <? 2 ^ 64)
                 | _ => false
                 end in
    let map_ a b := match v with
                    | NMap kvs => forallb (fun kv => emit_ok a (fst kv) && emit_ok b (snd kv)) kvs && (N.of_nat (length kvs) <? 2 ^ 64)
                    | _ => false
                    end in
    let leaf (ty : ty) := has_type (erase v) ty in
    let unnamed (fs : list (str * sty)) (xs : list nvalue) : bool :=
        (fix go (fs : list (str * sty)) (xs : list nvalue) : bool :=
           match fs, xs with
           | [], [] => true
           | f :: fs', x :: xs' => emit_ok (snd f) x && go fs' xs'
           | _, _ => false
           end) fs xs in
    let named (fs : list (str * sty)) (xs : list (list N * nvalue)) : bool :=
        (fix go (fs : list (str * sty)) (xs : list (list N * nvalue)) : bool :=
           match fs, xs with
           | [], [] => true
           | f :: fs', x :: xs' => list_N_eqb (fst x) (fst f) && emit_ok (snd f) (snd x) && go fs' xs'
           | _, _ => false
           end) fs xs in
    let body (k : dkind) (fs : list (str * sty)) (p : nvalue) : bool :=
        match k, p with
        | DUnit, NUnitStruct _ => match fs with [] => true | _ => false end
        | DNewtype, NNewtypeStruct _ x => match fs with [f] => emit_ok (snd f) x | _ => false end
        | DTuple, NTupleStruct _ xs => unnamed fs xs
        | DStruct, NStruct _ xs => named fs xs
        | _, _ => false
        end in
    match t with
    | YBool => match v with NBool _ => true | _ => false end
    | YInt k => match v with NInt _ _ => leaf (TInt k) | _ => false end
    | YNonZero k => match v with NInt _ z => leaf (TInt k) && negb (z =? 0)%Z | _ => false end
    | YF32 => match v with NF32 _ => leaf TF32 | _ => false end
    | YF64 => match v with NF64 _ => leaf TF64 | _ => false end
    | YChar => match v with NChar _ => leaf TChar | _ => false end
    | YUnit => match v with NUnit => true | _ => false end
    | YStr | YString | YPathBuf | YHString _ | YDateTime => match v with NStr _ => leaf TStr | _ => false end
    | YUuid => match v with NBytes bs => leaf TBytes && (N.of_nat (length bs) =? 16) | _ => false end
    | YOption a => match v with NNone => true | NSome x => emit_ok a x | _ => false end
    | YResult a b =>
      match v with
      | NVariant _ idx vn (NNewtypeStruct _ x) =>
        ((idx =? 0) && list_N_eqb vn nm_ok && emit_ok a x) || ((idx =? 1) && list_N_eqb vn nm_err && emit_ok b x)
      | _ => false
      end
    | YRef a => emit_ok a v
    | YSlice a | YVec a | YBTreeSet a | YHashSet a | YHVec a _ => seq a
    | YArray a n => match v with NTuple xs => forallb (emit_ok a) xs && (N.of_nat (length xs) =? n) | _ => false end
    | YTuple ts =>
      match v with
      | NTuple xs => (fix go (ts : list sty) (xs : list nvalue) : bool :=
                        match ts, xs with
                        | [], [] => true
                        | a :: ts', x :: xs' => emit_ok a x && go ts' xs'
                        | _, _ => false
                        end) ts xs
      | _ => false
      end
    | YRange a | YRangeInclusive a =>
      match v with
      | NStruct _ [(n1, x); (n2, y)] => list_N_eqb n1 nm_start && list_N_eqb n2 nm_end && emit_ok a x && emit_ok a y
      | _ => false
      end
    | YRangeFrom a => match v with NStruct _ [(n1, x)] => list_N_eqb n1 nm_start && emit_ok a x | _ => false end
    | YRangeTo a => match v with NStruct _ [(n1, x)] => list_N_eqb n1 nm_end && emit_ok a x | _ => false end
    | YBTreeMap a b | YHashMap a b => map_ a b
    | YKey =>
      match v with
      | NNewtypeStruct _ (NTuple xs) =>
        forallb (fun x => match x with NInt _ _ => has_type (erase x) (TInt U8) | _ => false end) xs && (N.of_nat (length xs) =? 8)
      | _ => false
      end
    | YOwnedSchema | YBorrowedSchema => leaf (oty d)
    | YDStruct _ k fs => body k fs v
    | YDEnum _ vs =>
      match v with
      | NVariant _ idx vn p =>
        (idx <? 2 ^ 32) &&
        (fix pick (vs : list (str * dkind * list (str * sty))) (i : nat) : bool :=
           match vs, i with
           | [], _ => false
           | w :: _, 0%nat => list_N_eqb vn (fst (fst w)) && body (snd (fst w)) (snd w) p
           | _ :: r, S i' => pick r i'
           end) vs (N.to_nat idx)
      | _ => false
      end
    end.
End Emit.

(* types the table can answer: tuples of 1 to 6 components, struct bodies of the right arity *)
Definition body_arity (k : dkind) {A} (fs : list A) : bool :=
  match k with
  | DUnit => match fs with [] => true | _ => false end
  | DNewtype => match fs with [_] => true | _ => false end
  | _ => true
  end.
Fixpoint sty_ok (t : sty) : bool :=
  match t with
  | YOption a | YRef a | YSlice a | YArray a _ | YRange a | YRangeInclusive a | YRangeFrom a | YRangeTo a
  | YVec a | YBTreeSet a | YHashSet a | YHVec a _ => sty_ok a
  | YResult a b | YBTreeMap a b | YHashMap a b => sty_ok a && sty_ok b
  | YTuple ts => forallb sty_ok ts && (1 <=? length ts)%nat && (length ts <=? 6)%nat
  | YDStruct _ k fs => forallb (fun f => sty_ok (snd f)) fs
  | YDEnum _ vs => forallb (fun v => forallb (fun f => sty_ok (snd f)) (snd v)) vs
  | _ => true
  end.
