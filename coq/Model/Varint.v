(* Varint.v: the varint writer and reader loops of varint.rs / de/deserializer.rs (and the
   private copies in postcard-dyn), bit level, parameterised by the constants the
   translator found in each copy. *)
From PV Require Import Base MachineInt VarintParams GenArith.
Open Scope N_scope.

Definition wbits (t : ity) : N := Z.to_N (bits t).

(* one writer loop; `fuel` is the loop bound varint_max::<T>() *)
Fixpoint venc_loop (p : wparams) (fuel : nat) (value : N) : list byte :=
  match fuel with
  | O => []
  | S f =>
    let b := value mod 256 in                                   (* value.to_le_bytes()[0] *)
    if cmp_eval (w_cmp p) value (w_thresh p) then [b]           (* return &mut out[..=i] *)
    else N.lor b (w_flag p) :: venc_loop p f (N.shiftr value (w_shift p))
  end.
Definition venc_with (vmax : Z) (p : wparams) (v : N) : list byte :=
  venc_loop p (Z.to_nat vmax) v.
Definition venc (p : wparams) (v : N) : list byte := venc_with (Core.varint_max (w_ty p)) p v.

(* one reader loop over an abstract byte source *)
Inductive vout (St X : Type) :=
| VOk (n : N) (s : St) | VStop (x : X) | VErrLast | VErrLong | VPanic.
Arguments VOk {St X}. Arguments VStop {St X}. Arguments VErrLast {St X}.
Arguments VErrLong {St X}. Arguments VPanic {St X}.

Section Reader.
  Context {St X E : Type} (p : rparams E) (vmax molb : N) (pop : St -> (byte * St) + X).
  Fixpoint vdec_loop (fuel : nat) (i out : N) (s : St) : vout St X :=
    match fuel with
    | O => VErrLong
    | S f =>
      match pop s with
      | inr x => VStop x
      | inl (val, s') =>
        let carry := N.land val (r_mask p) in                   (* (val & 0x7F) as T *)
        let sh := r_mul p * i in
        if wbits (r_ty p) <=? sh then VPanic                    (* shift amount overflow *)
        else
          let out' := N.lor out (N.shiftl carry sh mod 2 ^ wbits (r_ty p)) in
          if N.land val (r_flag p) =? 0 then
            if vmax <? r_lastoff p then VPanic                  (* usize subtraction *)
            else if (i =? vmax - r_lastoff p) && cmp_eval (r_cmp p) val molb
                 then VErrLast else VOk out' s'
          else vdec_loop f (i + 1) out' s'
      end
    end.
  Definition vdec (s : St) : vout St X := vdec_loop (N.to_nat vmax) 0 0 s.
End Reader.

(* the core crate's reader: errors of pop pass through *)
Definition core_vdec {St} (p : rparams error) (pop : St -> res (byte * St)) (s : St) : res (N * St) :=
  match vdec p (Z.to_N (Core.varint_max (r_ty p))) (Z.to_N (Core.max_of_last_byte (r_ty p)))
             (fun s => match pop s with Ok x => inl x | other => inr other end) s with
  | VOk n s' => Ok (n, s')
  | VStop x => match x with Ok _ => Panic | Err e => Err e | Panic => Panic | Fault => Fault | OutOfFuel => OutOfFuel end
  | VErrLast => Err (r_errlast p)
  | VErrLong => Err (r_errlong p)
  | VPanic => Panic
  end.
