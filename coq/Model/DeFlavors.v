(* DeFlavors.v: de/flavors.rs (Slice with raw cursor/end pointers, IOReader/EIOReader with the
   sliding scratch buffer, CrcModifier) and the entry points of de/mod.rs. *)
From PV Require Import Base DataModel De Cobs Crc.
Open Scope N_scope.

(* ---- Slice: cursor and end are raw pointers; here indices into the input ---- *)
Record dslice := { ds_input : list byte; ds_cursor : nat; ds_end : nat }.
Definition dslice_new (input : list byte) : dslice :=
  {| ds_input := input; ds_cursor := 0; ds_end := length input |}.
Definition dslice_pop (s : dslice) : res (byte * dslice) :=
  if Nat.eqb (ds_cursor s) (ds_end s) then Err DeserializeUnexpectedEnd       (* cursor == end *)
  else match read_at (ds_input s) (ds_cursor s) with
       | None => Fault                                                         (* *self.cursor outside the input *)
       | Some b => Ok (b, {| ds_input := ds_input s; ds_cursor := S (ds_cursor s); ds_end := ds_end s |})
       end.
Fixpoint read_run (l : list byte) (at_ : nat) (n : nat) : option (list byte) :=
  match n with
  | O => Some []
  | S n' => match read_at l at_ with
            | None => None
            | Some b => match read_run l (S at_) n' with Some r => Some (b :: r) | None => None end
            end
  end.
Definition dslice_take_n (ct : N) (s : dslice) : res (list byte * dslice) :=
  if Nat.ltb (ds_end s) (ds_cursor s) then Fault                               (* end - cursor would wrap *)
  else
    let remain := N.of_nat (ds_end s - ds_cursor s) in
    if remain <? ct then Err DeserializeUnexpectedEnd
    else match read_run (ds_input s) (ds_cursor s) (N.to_nat ct) with          (* from_raw_parts(cursor, ct) *)
         | None => Fault
         | Some bs => Ok (bs, {| ds_input := ds_input s; ds_cursor := (ds_cursor s + N.to_nat ct)%nat; ds_end := ds_end s |})
         end.
Definition dslice_hint (s : dslice) : option N := Some (N.of_nat (ds_end s - ds_cursor s)).
Definition dslice_finalize (s : dslice) : res (list byte) :=
  if Nat.ltb (ds_end s) (ds_cursor s) then Fault
  else match read_run (ds_input s) (ds_cursor s) (ds_end s - ds_cursor s) with
       | None => Fault
       | Some bs => Ok bs
       end.
Definition de_ptr (t : ty) (s : dslice) := de dslice_pop dslice_take_n t s.
(* take_from_bytes / from_bytes at pointer level *)
Definition take_from_bytes_ptr (t : ty) (input : list byte) : res (value * list byte) :=
  let* '(v, s) := de_ptr t (dslice_new input) in
  let* rest := dslice_finalize s in Ok (v, rest).

(* ---- a byte reader (std::io::Read / embedded_io::Read, modelled): the bytes it will
   deliver and, optionally, how many it delivers before failing ---- *)
Record reader := { rd_data : list byte; rd_limit : option nat }.
Definition read_exact (r : reader) (n : nat) : res (list byte * reader) :=
  let avail := match rd_limit r with Some k => Nat.min k (length (rd_data r)) | None => length (rd_data r) end in
  if Nat.ltb avail n then Err DeserializeUnexpectedEnd
  else Ok (firstn n (rd_data r),
           {| rd_data := skipn n (rd_data r);
              rd_limit := match rd_limit r with Some k => Some (k - n)%nat | None => None end |}).

(* ---- IOReader / EIOReader: reader + SlidingBuffer over the caller's scratch ---- *)
Record ioreader := { io_rd : reader; io_scratch : list byte; io_cursor : nat; io_end : nat }.
Definition ioreader_new (r : reader) (scratch : list byte) : ioreader :=
  {| io_rd := r; io_scratch := scratch; io_cursor := 0; io_end := length scratch |}.
Definition io_pop (s : ioreader) : res (byte * ioreader) :=
  let* '(bs, r') := read_exact (io_rd s) 1 in
  match bs with
  | [b] => Ok (b, {| io_rd := r'; io_scratch := io_scratch s; io_cursor := io_cursor s; io_end := io_end s |})
  | _ => Panic
  end.
Definition io_take_n (ct : N) (s : ioreader) : res (list byte * ioreader) :=
  if Nat.ltb (io_end s) (io_cursor s) then Fault
  else
    let remain := N.of_nat (io_end s - io_cursor s) in
    if remain <? ct then Err DeserializeUnexpectedEnd                           (* SlidingBuffer::take_n *)
    else
      let n := N.to_nat ct in
      let* '(bs, r') := read_exact (io_rd s) n in                               (* reader.read_exact(buff) *)
      match splice (io_scratch s) (io_cursor s) bs with
      | None => Fault                                                           (* slot outside the scratch buffer *)
      | Some sc' => Ok (bs, {| io_rd := r'; io_scratch := sc'; io_cursor := (io_cursor s + n)%nat; io_end := io_end s |})
      end.
Definition io_hint (s : ioreader) : option N := Some (N.of_nat (io_end s - io_cursor s)).
(* finalize: (reader, unused scratch); we also report where the unused part starts *)
Definition io_finalize (s : ioreader) : res (reader * list byte * nat) :=
  if Nat.ltb (io_end s) (io_cursor s) then Fault
  else Ok (io_rd s, io_scratch s, io_cursor s).
Definition from_io (t : ty) (r : reader) (scratch : list byte) : res (value * (reader * list byte * nat)) :=
  let* '(v, s) := de io_pop io_take_n t (ioreader_new r scratch) in
  let* fin := io_finalize s in Ok (v, fin).

(* ---- CrcModifier over the slice flavour ---- *)
Section CrcDe.
  Variable alg : crc_alg.
  Variable nbytes : nat.
  Definition crcd_pop (st : dslice * N) : res (byte * (dslice * N)) :=
    let* '(b, s') := dslice_pop (fst st) in Ok (b, (s', crc_update alg (snd st) [b])).
  Definition crcd_take_n (ct : N) (st : dslice * N) : res (list byte * (dslice * N)) :=
    let* '(bs, s') := dslice_take_n ct (fst st) in Ok (bs, (s', crc_update alg (snd st) bs)).
  Definition crcd_finalize (st : dslice * N) : res (list byte) :=
    let* '(crc_bytes, s1) := dslice_take_n (N.of_nat nbytes) (fst st) in
    let* rest := dslice_finalize s1 in
    if crc_finalize alg (snd st) =? of_le_bytes crc_bytes then Ok rest else Err DeserializeBadCrc.
  Definition take_from_bytes_crc (t : ty) (input : list byte) : res (value * list byte) :=
    let* '(v, st) := de crcd_pop crcd_take_n t (dslice_new input, crc_init_reg alg) in
    let* rest := crcd_finalize st in Ok (v, rest).
  Definition from_bytes_crc (t : ty) (input : list byte) : res value :=
    let* '(v, _) := take_from_bytes_crc t input in Ok v.
End CrcDe.

(* ---- COBS entry points of de/mod.rs ---- *)
Definition from_bytes_cobs (t : ty) (buf : list byte) : res (value * list byte) :=
  (* returns the value and the buffer as decode_in_place left it *)
  let* r := decode_in_place_report buf in
  match r with
  | None => Err DeserializeBadEncoding
  | Some (buf', rep) =>
    if Nat.ltb (length buf') (dst_used rep) then Panic                          (* &s[..sz] *)
    else let* '(v, _) := take_from_bytes_ptr t (firstn (dst_used rep) buf') in Ok (v, buf')
  end.
Definition take_from_bytes_cobs (t : ty) (buf : list byte) : res (value * list byte) :=
  let* r := decode_in_place_report buf in
  match r with
  | None => Err DeserializeBadEncoding
  | Some (buf', rep) =>
    let src_used' := match read_at buf' (src_used rep) with
                     | Some b => if b =? 0 then S (src_used rep) else src_used rep
                     | None => src_used rep
                     end in
    if Nat.ltb (length buf') (dst_used rep) then Panic                          (* s.split_at_mut(dst_used) *)
    else
      let dst := firstn (dst_used rep) buf' in
      let dst_unused := skipn (dst_used rep) buf' in
      if Nat.ltb src_used' (dst_used rep) then Panic                            (* src_used - dst_used underflows *)
      else if Nat.ltb (length dst_unused) (src_used' - dst_used rep) then Panic (* second split_at_mut *)
      else
        let src_unused := skipn (src_used' - dst_used rep) dst_unused in
        let* '(v, _) := take_from_bytes_ptr t dst in Ok (v, src_unused)
  end.
