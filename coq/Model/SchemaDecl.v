(* SchemaDecl.v: vocabulary of the generated declaration tables (GenSchemaDecl.v,
   GenHashTags.v): how the Rust enums of postcard-schema are declared, as data. *)
From PV Require Import Base.
Open Scope N_scope.

(* field types of the schema enums, up to borrowed/owned spelling *)
Inductive fty := FSelf | FSelfs | FStr | FData | FVariants | FFields.
Inductive vshape :=
| ShUnit
| ShTuple (fs : list fty)
| ShStruct (fs : list (list N * fty)).

(* what an arm of a hasher does *)
Inductive hrule :=
| HTag (tag : N)                               (* one tag byte, nothing else *)
| HTagChildren (tag : N) (children : list (list N))   (* tag, then the named children in this order *)
| HTagList (tag : N)                           (* tag, then every element of the list in order *)
| HTagVariants (tag : N)                       (* tag, then every variant (hash_variant) in order *)
| HDelegateStruct.                             (* hash_struct(state, name, data) *)
Inductive dchild := DKNone | DKOne | DKList | DKFields.

Fixpoint list_N_eqb (a b : list N) : bool :=
  match a, b with
  | [], [] => true
  | x :: a', y :: b' => (x =? y) && list_N_eqb a' b'
  | _, _ => false
  end.
Fixpoint assoc {B} (k : list N) (l : list (list N * B)) : option B :=
  match l with
  | [] => None
  | (k', v) :: r => if list_N_eqb k k' then Some v else assoc k r
  end.
Fixpoint index_of {B} (k : list N) (l : list (list N * B)) (i : N) : option (N * B) :=
  match l with
  | [] => None
  | (k', v) :: r => if list_N_eqb k k' then Some (i, v) else index_of k r (i + 1)
  end.
