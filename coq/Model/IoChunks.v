(* IoChunks.v: a byte reader that delivers its data in pieces, and the loop std::io::Read's
   read_exact runs over it (modelled: the loop is std's, not postcard's).  One call of `read`
   with a buffer of `want` bytes follows the next event of a schedule:
     RdGive k        at most k+1 bytes (and never more than wanted or than are left)
     RdInterrupted   Err(ErrorKind::Interrupted): read_exact retries
     RdZero          Ok(0) although data remain (a reader may report end of stream)
     RdFail          any other error
   When the schedule is used up the reader hands over whatever is asked for. *)
From PV Require Import Base MachineInt DataModel De DeFlavors.
Open Scope N_scope.

Inductive rd_event := RdGive (k : nat) | RdInterrupted | RdZero | RdFail.
Record creader := { cr_data : list byte; cr_sched : list rd_event }.
Inductive rd_out := RGot (bs : list byte) | RInterrupted | RFailed.

Definition raw_read (r : creader) (want : nat) : rd_out * creader :=
  match cr_sched r with
  | [] => let n := Nat.min want (length (cr_data r)) in
          (RGot (firstn n (cr_data r)), {| cr_data := skipn n (cr_data r); cr_sched := [] |})
  | RdGive k :: s =>
    let n := Nat.min (Nat.min (S k) want) (length (cr_data r)) in
    (RGot (firstn n (cr_data r)), {| cr_data := skipn n (cr_data r); cr_sched := s |})
  | RdInterrupted :: s => (RInterrupted, {| cr_data := cr_data r; cr_sched := s |})
  | RdZero :: s => (RGot [], {| cr_data := cr_data r; cr_sched := s |})
  | RdFail :: s => (RFailed, {| cr_data := cr_data r; cr_sched := s |})
  end.

(* default Read::read_exact:
     while !buf.is_empty() { match self.read(buf) { Ok(0) => break, Ok(n) => buf = &mut buf[n..],
                                                    Err(e) if interrupted => {}, Err(e) => return Err(e) } }
     if !buf.is_empty() { Err(UnexpectedEof) } else { Ok(()) }
   every error is mapped to DeserializeUnexpectedEnd by the flavour *)
Fixpoint read_exact_loop (fuel : nat) (r : creader) (want : nat) (acc : list byte) : res (list byte * creader) :=
  match want with
  | 0%nat => Ok (acc, r)
  | _ =>
    match fuel with
    | 0%nat => OutOfFuel
    | S f =>
      match raw_read r want with
      | (RGot [], _) => Err DeserializeUnexpectedEnd
      | (RGot bs, r') => read_exact_loop f r' (want - length bs) (acc ++ bs)
      | (RInterrupted, r') => read_exact_loop f r' want acc
      | (RFailed, _) => Err DeserializeUnexpectedEnd
      end
    end
  end.
Definition read_exact_c (r : creader) (n : nat) : res (list byte * creader) :=
  read_exact_loop (n + length (cr_sched r) + 1) r n [].

(* IOReader over such a reader: the same flavour as DeFlavors.ioreader *)
Record cioreader := { cio_rd : creader; cio_scratch : list byte; cio_cursor : nat; cio_end : nat }.
Definition cioreader_new (r : creader) (scratch : list byte) : cioreader :=
  {| cio_rd := r; cio_scratch := scratch; cio_cursor := 0; cio_end := length scratch |}.
Definition cio_pop (s : cioreader) : res (byte * cioreader) :=
  let* '(bs, r') := read_exact_c (cio_rd s) 1 in
  match bs with
  | [b] => Ok (b, {| cio_rd := r'; cio_scratch := cio_scratch s; cio_cursor := cio_cursor s; cio_end := cio_end s |})
  | _ => Panic
  end.
Definition cio_take_n (ct : N) (s : cioreader) : res (list byte * cioreader) :=
  if Nat.ltb (cio_end s) (cio_cursor s) then Fault
  else
    let remain := N.of_nat (cio_end s - cio_cursor s) in
    if remain <? ct then Err DeserializeUnexpectedEnd
    else
      let n := N.to_nat ct in
      let* '(bs, r') := read_exact_c (cio_rd s) n in
      match splice (cio_scratch s) (cio_cursor s) bs with
      | None => Fault
      | Some sc' => Ok (bs, {| cio_rd := r'; cio_scratch := sc'; cio_cursor := (cio_cursor s + n)%nat; cio_end := cio_end s |})
      end.
Definition cio_finalize (s : cioreader) : res (creader * list byte * nat) :=
  if Nat.ltb (cio_end s) (cio_cursor s) then Fault
  else Ok (cio_rd s, cio_scratch s, cio_cursor s).
Definition from_io_c (t : ty) (r : creader) (scratch : list byte) : res (value * (creader * list byte * nat)) :=
  let* '(v, s) := de cio_pop cio_take_n t (cioreader_new r scratch) in
  let* fin := cio_finalize s in Ok (v, fin).

(* a schedule without end-of-stream reports and failures *)
Definition gentle (s : list rd_event) : bool :=
  forallb (fun e => match e with RdGive _ | RdInterrupted => true | _ => false end) s.

(* ---- a byte writer that accepts data in pieces, and std::io::Write's write_all over it ----
   one call of `write` with a buffer of n > 0 bytes follows the next event:
     WrTake k        accepts at most k+1 bytes
     WrInterrupted   Err(ErrorKind::Interrupted): write_all retries
     WrZero          Ok(0): write_all reports WriteZero
     WrFail          any other error
   with the schedule used up the writer accepts everything. *)
From PV Require Import Ser SerFlavors.
Inductive wr_event := WrTake (k : nat) | WrInterrupted | WrZero | WrFail.
Record cwriter := { cw_accepted : list byte; cw_sched : list wr_event; cw_flush_fails : bool }.
(* default Write::write_all:
     while !buf.is_empty() { match self.write(buf) { Ok(0) => return Err(WriteZero), Ok(n) => buf = &buf[n..],
                                                     Err(e) if interrupted => {}, Err(e) => return Err(e) } }
   every error is mapped to SerializeBufferFull by the flavour *)
Fixpoint write_all_loop (fuel : nat) (w : cwriter) (bs : list byte) : res cwriter :=
  match bs with
  | [] => Ok w
  | _ :: _ =>
    match fuel with
    | 0%nat => OutOfFuel
    | S f =>
      match cw_sched w with
      | [] => Ok {| cw_accepted := cw_accepted w ++ bs; cw_sched := []; cw_flush_fails := cw_flush_fails w |}
      | WrTake k :: s =>
        let n := Nat.min (S k) (length bs) in
        write_all_loop f {| cw_accepted := cw_accepted w ++ firstn n bs; cw_sched := s; cw_flush_fails := cw_flush_fails w |} (skipn n bs)
      | WrInterrupted :: s =>
        write_all_loop f {| cw_accepted := cw_accepted w; cw_sched := s; cw_flush_fails := cw_flush_fails w |} bs
      | WrZero :: _ | WrFail :: _ => Err SerializeBufferFull
      end
    end
  end.
Definition write_all_c (w : cwriter) (bs : list byte) : res cwriter :=
  write_all_loop (length bs + length (cw_sched w) + 1) w bs.
Definition cwriter_flavor : sflavor cwriter (list byte) :=
  {| sf_push := fun w b => write_all_c w [b]; sf_extend := write_all_c;
     sf_finalize := fun w => if cw_flush_fails w then Err SerializeBufferFull else Ok (cw_accepted w);
     sf_set := fun _ _ _ => Panic |}.
Definition to_io_c (v : value) (sched : list wr_event) (flush_fails : bool) :=
  serialize_with cwriter_flavor {| cw_accepted := []; cw_sched := sched; cw_flush_fails := flush_fails |} v.
Definition wgentle (s : list wr_event) : bool :=
  forallb (fun e => match e with WrTake _ | WrInterrupted => true | _ => false end) s.
