(* SerFlavors.v: ser/flavors.rs and the entry points of ser/mod.rs.  A flavour is a state
   with try_push / try_extend / finalize (and IndexMut for the storages COBS can wrap). *)
From PV Require Import Base DataModel Ser Cobs Crc.
Open Scope N_scope.

Record sflavor (St Out : Type) := {
  sf_push : St -> byte -> res St;
  sf_extend : St -> list byte -> res St;
  sf_finalize : St -> res Out;
  sf_set : St -> nat -> byte -> res St      (* IndexMut::index_mut(idx) = val *)
}.
Arguments sf_push {St Out}. Arguments sf_extend {St Out}.
Arguments sf_finalize {St Out}. Arguments sf_set {St Out}.

(* Flavor::try_extend's default body: data.iter().try_for_each(|d| self.try_push(d)) *)
Fixpoint extend_by_push {St} (push : St -> byte -> res St) (s : St) (bs : list byte) : res St :=
  match bs with
  | [] => Ok s
  | b :: r => let* s1 := push s b in extend_by_push push s1 r
  end.

(* ---- Slice: raw pointers start / cursor / end into the caller's buffer ---- *)
Record slice_st := { sl_buf : list byte; sl_start : nat; sl_cursor : nat; sl_end : nat }.
Definition slice_new (buf : list byte) : slice_st :=
  {| sl_buf := buf; sl_start := 0; sl_cursor := 0; sl_end := length buf |}.
Definition slice_push (s : slice_st) (b : byte) : res slice_st :=
  if Nat.eqb (sl_cursor s) (sl_end s) then Err SerializeBufferFull
  else match write_at (sl_buf s) (sl_cursor s) b with
       | None => Fault                                     (* cursor.write(b) outside the buffer *)
       | Some buf' => Ok {| sl_buf := buf'; sl_start := sl_start s; sl_cursor := S (sl_cursor s); sl_end := sl_end s |}
       end.
Definition slice_extend (s : slice_st) (bs : list byte) : res slice_st :=
  if Nat.ltb (sl_end s) (sl_cursor s) then Fault           (* end - cursor would wrap *)
  else
    let remain := (sl_end s - sl_cursor s)%nat in
    if Nat.ltb remain (length bs) then Err SerializeBufferFull
    else match splice (sl_buf s) (sl_cursor s) bs with    (* copy_nonoverlapping *)
         | None => Fault
         | Some buf' => Ok {| sl_buf := buf'; sl_start := sl_start s;
                              sl_cursor := (sl_cursor s + length bs)%nat; sl_end := sl_end s |}
         end.
(* finalize: from_raw_parts_mut(start, cursor - start); the caller's buffer afterwards *)
Definition slice_finalize (s : slice_st) : res (list byte * list byte) :=
  if Nat.ltb (sl_cursor s) (sl_start s) then Fault
  else Ok (firstn (sl_cursor s - sl_start s) (skipn (sl_start s) (sl_buf s)), sl_buf s).
Definition slice_set (s : slice_st) (idx : nat) (b : byte) : res slice_st :=
  if Nat.ltb idx (sl_end s - sl_start s) then               (* assert!(idx < len) *)
    match write_at (sl_buf s) (sl_start s + idx) b with
    | None => Fault
    | Some buf' => Ok {| sl_buf := buf'; sl_start := sl_start s; sl_cursor := sl_cursor s; sl_end := sl_end s |}
    end
  else Panic.
Definition slice_flavor : sflavor slice_st (list byte * list byte) :=
  {| sf_push := slice_push; sf_extend := slice_extend; sf_finalize := slice_finalize; sf_set := slice_set |}.

(* ---- HVec<B>: heapless::Vec<u8, B> (modelled: push / extend_from_slice all-or-nothing) ---- *)
Definition hvec_push (cap : nat) (v : list byte) (b : byte) : res (list byte) :=
  if Nat.ltb (length v) cap then Ok (v ++ [b]) else Err SerializeBufferFull.
Definition hvec_extend (cap : nat) (v : list byte) (bs : list byte) : res (list byte) :=
  if Nat.leb (length v + length bs) cap then Ok (v ++ bs) else Err SerializeBufferFull.
Definition vec_set (v : list byte) (idx : nat) (b : byte) : res (list byte) :=
  match write_at v idx b with Some v' => Ok v' | None => Panic end.   (* &mut self.vec[idx] *)
Definition hvec_flavor (cap : nat) : sflavor (list byte) (list byte) :=
  {| sf_push := hvec_push cap; sf_extend := hvec_extend cap; sf_finalize := fun v => Ok v; sf_set := vec_set |}.

(* ---- AllocVec / StdVec, and ExtendFlavor over a Vec ---- *)
Definition alloc_flavor : sflavor (list byte) (list byte) :=
  {| sf_push := fun v b => Ok (v ++ [b]); sf_extend := fun v bs => Ok (v ++ bs);
     sf_finalize := fun v => Ok v; sf_set := vec_set |}.
Definition extend_flavor : sflavor (list byte) (list byte) :=
  {| sf_push := fun v b => Ok (v ++ [b]); sf_extend := fun v bs => Ok (v ++ bs);
     sf_finalize := fun v => Ok v; sf_set := fun _ _ _ => Panic |}.

(* ---- Size ---- *)
Definition size_flavor : sflavor N N :=
  {| sf_push := fun n _ => Ok (n + 1); sf_extend := fun n bs => Ok (n + N.of_nat (length bs));
     sf_finalize := fun n => Ok n; sf_set := fun _ _ _ => Panic |}.

(* ---- io::WriteFlavor / eio::WriteFlavor over a writer that accepts `limit` bytes in
   total and then fails (write_all and flush modelled) ---- *)
Record writer_st := { w_accepted : list byte; w_limit : option nat; w_flush_fails : bool }.
Definition writer_write_all (w : writer_st) (bs : list byte) : res writer_st :=
  match w_limit w with
  | Some k =>
    if Nat.ltb k (length (w_accepted w) + length bs)
    then Err SerializeBufferFull      (* the writer kept a prefix; postcard reports buffer full *)
    else Ok {| w_accepted := w_accepted w ++ bs; w_limit := w_limit w; w_flush_fails := w_flush_fails w |}
  | None => Ok {| w_accepted := w_accepted w ++ bs; w_limit := w_limit w; w_flush_fails := w_flush_fails w |}
  end.
Definition writer_flavor : sflavor writer_st (list byte) :=
  {| sf_push := fun w b => writer_write_all w [b]; sf_extend := writer_write_all;
     sf_finalize := fun w => if w_flush_fails w then Err SerializeBufferFull else Ok (w_accepted w);
     sf_set := fun _ _ _ => Panic |}.

(* ---- a user flavour that records the calls it receives; with or without its own
   try_extend (without: the trait's default forwards byte by byte) ---- *)
Inductive call := CPush (b : byte) | CExtend (bs : list byte).
Definition record_flavor (overrides_extend : bool) : sflavor (list call) (list call) :=
  {| sf_push := fun c b => Ok (c ++ [CPush b]);
     sf_extend := fun c bs => if overrides_extend then Ok (c ++ [CExtend bs])
                              else extend_by_push (fun c b => Ok (c ++ [CPush b])) c bs;
     sf_finalize := fun c => Ok c; sf_set := fun _ _ _ => Panic |}.

(* ---- Cobs<B> ---- *)
Section CobsFlavor.
  Context {St Out : Type} (inner : sflavor St Out).
  Definition cobs_try_new (s0 : St) : res (St * enc_state) :=
    let* s1 := map_err (fun _ => SerializeBufferFull) (sf_push inner s0 0) in Ok (s1, enc_init).
  Definition cobs_push (st : St * enc_state) (data : byte) : res (St * enc_state) :=
    let '(s, e) := st in
    let '(r, e') := enc_push e data in
    match r with
    | AddSingle n => let* s1 := sf_push inner s n in Ok (s1, e')
    | ModifyFromStartAndSkip idx mval =>
      let* s1 := sf_set inner s idx mval in
      let* s2 := sf_push inner s1 0 in Ok (s2, e')
    | ModifyFromStartAndPushAndSkip idx mval nval =>
      let* s1 := sf_set inner s idx mval in
      let* s2 := sf_push inner s1 nval in
      let* s3 := sf_push inner s2 0 in Ok (s3, e')
    end.
  Definition cobs_finalize (st : St * enc_state) : res Out :=
    let '(s, e) := st in
    let '(idx, mval) := enc_finalize e in
    let* s1 := sf_set inner s idx mval in
    let* s2 := sf_push inner s1 0 in
    sf_finalize inner s2.
  Definition cobs_flavor : sflavor (St * enc_state) Out :=
    {| sf_push := cobs_push; sf_extend := extend_by_push cobs_push; sf_finalize := cobs_finalize;
       sf_set := fun _ _ _ => Panic |}.   (* Cobs has no IndexMut *)
End CobsFlavor.

(* ---- CrcModifier<B, W> ---- *)
Section CrcFlavor.
  Context {St Out : Type} (inner : sflavor St Out) (alg : crc_alg) (nbytes : nat).
  Definition crcm_push (st : St * N) (b : byte) : res (St * N) :=
    let '(s, d) := st in
    let d' := crc_update alg d [b] in                       (* digest.update(&[data]) first *)
    let* s1 := sf_push inner s b in Ok (s1, d').
  Definition crcm_finalize (st : St * N) : res Out :=
    let '(s, d) := st in
    let crc := crc_finalize alg d in
    let* s1 := extend_by_push (sf_push inner) s (le_bytes nbytes crc) in   (* for byte in crc.to_le_bytes() *)
    sf_finalize inner s1.
  Definition crc_flavor : sflavor (St * N) Out :=
    {| sf_push := crcm_push; sf_extend := extend_by_push crcm_push; sf_finalize := crcm_finalize;
       sf_set := fun _ _ _ => Panic |}.   (* CrcModifier has no IndexMut: Cobs<Crc<..>> does not compile *)
End CrcFlavor.

(* ---- the serializer over a flavour: serialize_with_flavor ---- *)
Section Run.
  Context {St Out : Type} (fl : sflavor St Out).
  Definition run_op (s : St) (o : op) : res St :=
    match o with
    | Push b => map_err (fun _ => SerializeBufferFull) (sf_push fl s b)
    | Extend bs => map_err (fun _ => SerializeBufferFull) (sf_extend fl s bs)
    | ExtendFmt bs => map_err (fun _ => CollectStrError) (sf_extend fl s bs)
    end.
  Fixpoint run_ops (s : St) (ops : list op) : res St :=
    match ops with
    | [] => Ok s
    | o :: r => let* s1 := run_op s o in run_ops s1 r
    end.
  Definition serialize_with (s0 : St) (v : value) : res Out :=
    let '(ops, e) := ser_ops v in
    let* s := run_ops s0 ops in
    match e with
    | Some err => Err err
    | None => map_err (fun _ => SerializeBufferFull) (sf_finalize fl s)
    end.
End Run.

(* ---- entry points of ser/mod.rs ---- *)
Definition to_slice (v : value) (buf : list byte) := serialize_with slice_flavor (slice_new buf) v.
Definition to_vec (cap : nat) (v : value) := serialize_with (hvec_flavor cap) [] v.
Definition to_allocvec (v : value) := serialize_with alloc_flavor [] v.
Definition to_extend (v : value) (sink : list byte) := serialize_with extend_flavor sink v.
Definition to_io (v : value) (limit : option nat) (flush_fails : bool) :=
  serialize_with writer_flavor {| w_accepted := []; w_limit := limit; w_flush_fails := flush_fails |} v.
Definition serialized_size (v : value) := serialize_with size_flavor 0 v.
Definition to_slice_cobs (v : value) (buf : list byte) :=
  let* st := cobs_try_new slice_flavor (slice_new buf) in serialize_with (cobs_flavor slice_flavor) st v.
Definition to_vec_cobs (cap : nat) (v : value) :=
  let* st := cobs_try_new (hvec_flavor cap) [] in serialize_with (cobs_flavor (hvec_flavor cap)) st v.
Definition to_allocvec_cobs (v : value) :=
  let* st := cobs_try_new alloc_flavor [] in serialize_with (cobs_flavor alloc_flavor) st v.
Definition to_slice_crc (alg : crc_alg) (nb : nat) (v : value) (buf : list byte) :=
  serialize_with (crc_flavor slice_flavor alg nb) (slice_new buf, crc_init_reg alg) v.
Definition to_vec_crc (alg : crc_alg) (nb : nat) (cap : nat) (v : value) :=
  serialize_with (crc_flavor (hvec_flavor cap) alg nb) ([], crc_init_reg alg) v.
Definition to_allocvec_crc (alg : crc_alg) (nb : nat) (v : value) :=
  serialize_with (crc_flavor alloc_flavor alg nb) ([], crc_init_reg alg) v.
(* checksum inside COBS: Cobs<Crc<..>> does not type-check in Rust (no IndexMut), the
   stack that does is Crc<Cobs<storage>>: CrcModifier::new(Cobs::try_new(storage)?, digest) *)
Definition to_slice_crc_cobs (alg : crc_alg) (nb : nat) (v : value) (buf : list byte) :=
  let* st := cobs_try_new slice_flavor (slice_new buf) in
  serialize_with (crc_flavor (cobs_flavor slice_flavor) alg nb) (st, crc_init_reg alg) v.
Definition to_vec_crc_cobs (alg : crc_alg) (nb : nat) (cap : nat) (v : value) :=
  let* st := cobs_try_new (hvec_flavor cap) [] in
  serialize_with (crc_flavor (cobs_flavor (hvec_flavor cap)) alg nb) (st, crc_init_reg alg) v.
Definition to_allocvec_crc_cobs (alg : crc_alg) (nb : nat) (v : value) :=
  let* st := cobs_try_new alloc_flavor [] in
  serialize_with (crc_flavor (cobs_flavor alloc_flavor) alg nb) (st, crc_init_reg alg) v.
Definition to_recorder (overrides : bool) (v : value) := serialize_with (record_flavor overrides) [] v.
