(* AccDecl.v: vocabulary of the generated statement tree of CobsAccumulator::feed_ref
   (GenAccumulator.v). *)
From PV Require Import Base.
Open Scope N_scope.

Inductive aexp :=
| AIdx                        (* self.idx *)
| ACap                        (* N *)
| AConst (k : N)
| ALen (v : list N)           (* v.len() *)
| AVarN (v : list N)
| AAdd (a b : aexp) | ASub (a b : aexp).
Inductive acond := CEmpty (v : list N) | CLe (a b : aexp) | CGe (a b : aexp) | CLt (a b : aexp) | CGt (a b : aexp).
Inductive aslice := SVar (v : list N) | SFrom (v : list N) (a : aexp).      (* v / &v[a..] *)
Inductive aresult := RConsumed | ROverFull (s : aslice) | RDeserError (s : aslice).
Inductive astmt :=
| AIfC (c : acond) (th el : list astmt)
| ALetZeroPos (n src : list N)                      (* let n = src.iter().position(|&i| i == 0) *)
| AIfSome (n opt : list N) (th el : list astmt)     (* if let Some(n) = opt { .. } else { .. } *)
| ALetSplit (a b src : list N) (at_ : aexp)         (* let (a, b) = src.split_at(at) *)
| ALetN (n : list N) (e : aexp)
| ALetDecode (ret okrem errrem : list N)
  (* let ret = match from_bytes_cobs::<T>(&mut self.buf[..self.idx]) {
       Ok(t) => Success { data: t, remaining: okrem }, Err(_) => DeserError(errrem) } *)
| ASetIdx (e : aexp)
| AExtend (v : list N)                              (* self.extend_unchecked(v) *)
| ARet (r : aresult)
| ARetVar (v : list N).
