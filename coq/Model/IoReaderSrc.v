(* IoReaderSrc.v: the reader flavours of de/flavors.rs with the holes of their templates
   (GenIoReaders.v) as parameters: the comparison and the error of SlidingBuffer::take_n, the
   errors pop and try_take_n map a failed read_exact to.  Proofs/IoReaderFacts.v shows the
   flavours of DeFlavors.v / IoChunks.v equal to these at the values read from the source. *)
From PV Require Import Base VarintParams DataModel De DeFlavors IoChunks IoReaderDecl GenIoReaders.
Open Scope N_scope.

Definition remap {A} (e : error) (r : res A) : res A :=
  match r with Err _ => Err e | _ => r end.

Section Params.
  Variable sp : sliding_params.
  Variable rp : reader_params.

  Definition io_pop_with (s : ioreader) : res (byte * ioreader) :=
    let* '(bs, r') := remap (rp_pop_err rp) (read_exact (io_rd s) 1) in
    match bs with
    | [b] => Ok (b, {| io_rd := r'; io_scratch := io_scratch s; io_cursor := io_cursor s; io_end := io_end s |})
    | _ => Panic
    end.
  Definition io_take_n_with (ct : N) (s : ioreader) : res (list byte * ioreader) :=
    if Nat.ltb (io_end s) (io_cursor s) then Fault
    else
      let remain := N.of_nat (io_end s - io_cursor s) in
      if cmp_eval (sl_cmp sp) remain ct then Err (sl_err sp)
      else
        let n := N.to_nat ct in
        let* '(bs, r') := remap (rp_take_err rp) (read_exact (io_rd s) n) in
        match splice (io_scratch s) (io_cursor s) bs with
        | None => Fault
        | Some sc' => Ok (bs, {| io_rd := r'; io_scratch := sc'; io_cursor := (io_cursor s + n)%nat; io_end := io_end s |})
        end.

  Definition cio_pop_with (s : cioreader) : res (byte * cioreader) :=
    let* '(bs, r') := remap (rp_pop_err rp) (read_exact_c (cio_rd s) 1) in
    match bs with
    | [b] => Ok (b, {| cio_rd := r'; cio_scratch := cio_scratch s; cio_cursor := cio_cursor s; cio_end := cio_end s |})
    | _ => Panic
    end.
  Definition cio_take_n_with (ct : N) (s : cioreader) : res (list byte * cioreader) :=
    if Nat.ltb (cio_end s) (cio_cursor s) then Fault
    else
      let remain := N.of_nat (cio_end s - cio_cursor s) in
      if cmp_eval (sl_cmp sp) remain ct then Err (sl_err sp)
      else
        let n := N.to_nat ct in
        let* '(bs, r') := remap (rp_take_err rp) (read_exact_c (cio_rd s) n) in
        match splice (cio_scratch s) (cio_cursor s) bs with
        | None => Fault
        | Some sc' => Ok (bs, {| cio_rd := r'; cio_scratch := sc'; cio_cursor := (cio_cursor s + n)%nat; cio_end := cio_end s |})
        end.
End Params.
