(* DeMethodDecl.v: vocabulary of the generated table of deserializer method bodies
   (GenDeMethods.v). *)
From PV Require Import Base.
Open Scope N_scope.

Inductive dexp :=
| DVar (n : list N) | DConst (k : N)
| DPop                                    (* self.flavor.pop()? *)
| DPopAsI8                                (* self.flavor.pop()? as i8 *)
| DVarint (ty : list N)                   (* self.try_take_varint_<ty>()? *)
| DTake (e : dexp)                        (* self.flavor.try_take_n(e)? *)
| DUnZigZag (w : N) (v : list N)          (* de_zig_zag_i<w>(v) *)
| DFromLeBits (w : N) (v : list N)        (* f<w>::from_bits(u<w>::from_le_bytes(v)) *)
| DZeros (n : N)                          (* [0u8; n] *)
| DLenOf (v : list N)                     (* v.len() *)
| DFromUtf8 (v : list N) (e : error)      (* core::str::from_utf8(v).map_err(|_| e)? *)
| DCharsOfUtf8 (v : list N) (e : error)   (* ... .chars() *)
| DNextOrErr (v : list N) (e : error).    (* v.next().ok_or(e)? *)
Inductive dstep :=
| DLet (n : list N) (e : dexp)
| DLetBoolOfPop (n : list N) (e : error)  (* let n = match pop()? { 0 => false, 1 => true, _ => return Err(e) } *)
| DOptionOfPop (e : error)                (* match pop()? { 0 => visit_none(), 1 => visit_some(self), _ => Err(e) } *)
| DRejectGt (v : list N) (k : N) (e : error)    (* if v > k { return Err(e) } *)
| DRejectMore (v : list N) (e : error)    (* if v.next().is_some() { return Err(e) } *)
| DCopy (dst src : list N)                (* dst.copy_from_slice(src) *)
| DVisitAccess (kind len : list N)        (* visitor.visit_seq(SeqAccess { deserializer: self, len }) / visit_map *)
| DVisitUnit | DVisitNewtype | DVisitEnum
| DVisit (kind : list N) (e : dexp)       (* visitor.visit_<kind>(e) *)
| DDelegate (name : list N) (args : list dexp)
| DSeedHere                               (* DeserializeSeed::deserialize(seed, self) *)
| DFail (e : error)
| DRetUnit
| DSeedOnIndex (n v : list N)             (* let n = DeserializeSeed::deserialize(seed, v.into_deserializer())? *)
| DRetWithSelf (n : list N).              (* Ok((n, self)) *)
