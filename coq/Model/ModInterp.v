(* ModInterp.v: an interpreter for the method bodies of the COBS and CRC serialisation
   modifiers read from ser/flavors.rs (GenModifiers.v), over any inner flavour.
   Proofs/ModFacts.v shows SerFlavors.cobs_flavor / crc_flavor equal to it. *)
From PV Require Import Base DataModel Ser Cobs Crc SerFlavors SchemaDecl ModDecl GenModifiers.
Open Scope N_scope.

Inductive mv := MvByte (b : byte) | MvIdx (n : nat) | MvCrc (c : N).
Definition menv := list (list N * mv).
Fixpoint mbind (ps : list (list N)) (args : list mv) : option menv :=
  match ps, args with
  | [], [] => Some []
  | p :: ps', a :: args' => option_map (cons (p, a)) (mbind ps' args')
  | _, _ => None
  end.

Section ModRun.
  Context {St Out : Type} (inner : sflavor St Out) (alg : crc_alg) (nbytes : nat).
  Record mstate := { ms_inner : St; ms_cobs : enc_state; ms_digest : N }.

  Definition mbyte_eval (en : menv) (b : mbyte) : res byte :=
    match b with
    | MByteConst k => Ok k
    | MByteVar v => match assoc v en with Some (MvByte x) => Ok x | _ => Panic end
    end.
  Definition nm_add_single : list N := [65; 100; 100; 83; 105; 110; 103; 108; 101].
  Definition nm_modify_skip : list N := [77; 111; 100; 105; 102; 121; 70; 114; 111; 109; 83; 116; 97; 114; 116; 65; 110; 100; 83; 107; 105; 112].
  Definition nm_modify_push_skip : list N := [77; 111; 100; 105; 102; 121; 70; 114; 111; 109; 83; 116; 97; 114; 116; 65; 110; 100; 80; 117; 115; 104; 65; 110; 100; 83; 107; 105; 112].

  Fixpoint mexec_stmt (s : mstep) (sg : mstate * menv) {struct s} : res (mstate * menv * option Out) :=
    let mexec_list :=
        fix mexec_list (l : list mstep) (sg : mstate * menv) : res (mstate * menv * option Out) :=
          match l with
          | [] => Ok (sg, None)
          | x :: r => let* '(sg1, out) := mexec_stmt x sg in
                      match out with Some _ => Ok (sg1, out) | None => mexec_list r sg1 end
          end in
    let '(m, en) := sg in
    let with_inner (s1 : St) := {| ms_inner := s1; ms_cobs := ms_cobs m; ms_digest := ms_digest m |} in
    match s with
    | MSet idx val =>
      match assoc idx en, assoc val en with
      | Some (MvIdx i), Some (MvByte b) => let* s1 := sf_set inner (ms_inner m) i b in Ok ((with_inner s1, en), None)
      | _, _ => Panic
      end
    | MPush b propagated =>
      let* x := mbyte_eval en b in
      if propagated then let* s1 := sf_push inner (ms_inner m) x in Ok ((with_inner s1, en), None)
      else match sf_push inner (ms_inner m) x with
           | Ok s1 => Ok ((with_inner s1, en), None)
           | Err _ => Ok (sg, None)                              (* the failure is dropped *)
           | Panic => Panic | Fault => Fault | OutOfFuel => OutOfFuel
           end
    | MInnerFinalize => let* o := sf_finalize inner (ms_inner m) in Ok (sg, Some o)
    | MDigestUpdate1 v =>
      match assoc v en with
      | Some (MvByte b) => Ok (({| ms_inner := ms_inner m; ms_cobs := ms_cobs m; ms_digest := crc_update alg (ms_digest m) [b] |}, en), None)
      | _ => Panic
      end
    | MDigestUpdate v => Panic                                   (* serialisation side never hashes a slice *)
    | MLetCrc v => Ok ((m, (v, MvCrc (crc_finalize alg (ms_digest m))) :: en), None)
    | MForLePush v =>
      match assoc v en with
      | Some (MvCrc c) => let* s1 := extend_by_push (sf_push inner) (ms_inner m) (le_bytes nbytes c) in Ok ((with_inner s1, en), None)
      | _ => Panic
      end
    | MLetCobsFinalize idx val =>
      let '(i, b) := enc_finalize (ms_cobs m) in Ok ((m, (idx, MvIdx i) :: (val, MvByte b) :: en), None)
    | MMatchCobsPush v arms =>
      match assoc v en with
      | Some (MvByte data) =>
        let '(r, e') := enc_push (ms_cobs m) data in
        let m1 := {| ms_inner := ms_inner m; ms_cobs := e'; ms_digest := ms_digest m |} in
        let pick (ctor : list N) (vals : list mv) :=
            (fix pick_arm (arms : list (list N * list (list N) * list mstep)) : res (mstate * menv * option Out) :=
               match arms with
               | [] => Panic
               | (c, binders, steps) :: r =>
                 if list_N_eqb c ctor then
                   match mbind binders vals with
                   | Some en1 => mexec_list steps (m1, en1 ++ en)
                   | None => Panic
                   end
                 else pick_arm r
               end) arms in
        match r with
        | AddSingle n => pick nm_add_single [MvByte n]
        | ModifyFromStartAndSkip idx mval => pick nm_modify_skip [MvIdx idx; MvByte mval]
        | ModifyFromStartAndPushAndSkip idx mval nval => pick nm_modify_push_skip [MvIdx idx; MvByte mval; MvByte nval]
        end
      | _ => Panic
      end
    end.
  Fixpoint mexec_list (l : list mstep) (sg : mstate * menv) : res (mstate * menv * option Out) :=
    match l with
    | [] => Ok (sg, None)
    | x :: r => let* '(sg1, out) := mexec_stmt x sg in
                match out with Some _ => Ok (sg1, out) | None => mexec_list r sg1 end
    end.
  Definition mrun (method : list (list N) * list mstep) (args : list mv) (m : mstate) : res (mstate * option Out) :=
    match mbind (fst method) args with
    | None => Panic
    | Some en => let* '(sg, out) := mexec_list (snd method) (m, en) in Ok (fst sg, out)
    end.
End ModRun.
