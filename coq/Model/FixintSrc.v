(* FixintSrc.v: what the tables read from fixint.rs (GenFixint.v) must say for Fixint.v to be
   the model of that file: the `le` module goes through LE<T>, whose Serialize uses
   to_le_bytes and whose Deserialize uses from_le_bytes; `be` likewise with the big-endian
   pair; the wrappers are implemented for exactly the eight 16..128-bit integer types. *)
From PV Require Import Base MachineInt DataModel SchemaDecl MaxSize GenFixint.
Open Scope N_scope.

Definition order_of (n : list N) : option bool :=
  if list_N_eqb n [116; 111; 95; 108; 101; 95; 98; 121; 116; 101; 115] then Some false            (* to_le_bytes *)
  else if list_N_eqb n [102; 114; 111; 109; 95; 108; 101; 95; 98; 121; 116; 101; 115] then Some false   (* from_le_bytes *)
  else if list_N_eqb n [116; 111; 95; 98; 101; 95; 98; 121; 116; 101; 115] then Some true        (* to_be_bytes *)
  else if list_N_eqb n [102; 114; 111; 109; 95; 98; 101; 95; 98; 121; 116; 101; 115] then Some true    (* from_be_bytes *)
  else None.
(* the byte order a serde-with module implements, on the way out and on the way in *)
Definition module_orders (m : list N) : option (bool * bool) :=
  match assoc m fixint_modules with
  | Some w => match assoc w fixint_wrappers with
              | Some (sm, dm) => match order_of sm, order_of dm with Some a, Some b => Some (a, b) | _, _ => None end
              | None => None
              end
  | None => None
  end.
Definition fixint_kinds : list ikind := [I16; I32; I64; I128; U16; U32; U64; U128].
Definition fixint_ok : bool :=
  match module_orders [108; 101], module_orders [98; 101] with
  | Some (false, false), Some (true, true) =>
    (Nat.eqb (length fixint_types) (length fixint_kinds)) &&
    forallb (fun kt => list_N_eqb (ik_rust (fst kt)) (snd kt)) (combine fixint_kinds fixint_types)
  | _, _ => false
  end.
