(* FmtOps.v: the inspection helpers with the generated tables plugged in *)
From PV Require Import Base DataModel Schema SchemaDecl GenFmt GenPanicArms SchemaFmt.
Open Scope N_scope.

(* OwnedDataModelType::to_pseudocode / Display *)
Definition pseudocode : schema -> res (list byte) := render_top fmt_lits fmt_data_lits panics_fmt.
(* the same with top_level = false *)
Definition pseudocode_nested : schema -> res (list byte) := render_in fmt_lits panics_fmt.
(* OwnedDataModelType::all_used_types, as the list of insertions *)
Definition used_types : schema -> res (list schema) := discover panics_discover.
