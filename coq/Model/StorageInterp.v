(* StorageInterp.v: an interpreter for the storage flavours' method bodies as read from
   ser/flavors.rs (GenStorages.v).  The stores themselves (heapless::Vec, alloc::vec::Vec, an
   Extend<u8> sink, a usize counter, an io / embedded-io writer) are modelled by their
   documented behaviour; which store operation each method performs, with which argument, what
   it does with the result and which error it reports is what the table says.
   Proofs/StorageFacts.v shows the flavours of SerFlavors.v equal to it. *)
From PV Require Import Base SchemaDecl StorageDecl GenStorages SerFlavors.
Open Scope N_scope.

Inductive sstate :=
| SVec (cap : option nat) (v : list byte)      (* heapless::Vec<u8, cap> / alloc Vec *)
| SIter (v : list byte)                        (* an Extend<u8> sink (a Vec) *)
| SSize (n : N)
| SWriter (w : writer_st).
Inductive sarg := ANone | AByte (b : byte) | ABytes (bs : list byte) | ASet (idx : nat) (b : byte).

(* heapless::Vec::push / extend_from_slice: Err(..) when the capacity does not suffice, nothing
   copied; alloc's never fail *)
Definition store_push (cap : option nat) (v : list byte) (b : byte) : option (list byte) :=
  match cap with
  | Some c => if Nat.ltb (length v) c then Some (v ++ [b]) else None
  | None => Some (v ++ [b])
  end.
Definition store_extend (cap : option nat) (v : list byte) (bs : list byte) : option (list byte) :=
  match cap with
  | Some c => if Nat.leb (length v + length bs) c then Some (v ++ bs) else None
  | None => Some (v ++ bs)
  end.

Section Interp.
  (* self.try_push, for the trait's default try_extend *)
  Variable self_push : sstate -> byte -> res sstate.

  Definition run_sop (o : sop) (s : sstate) (a : sarg) : res sstate :=
    match o, s, a with
    | OVecPush e, SVec cap v, AByte b =>
      match store_push cap v b, e, cap with
      | Some v', _, _ => Ok (SVec cap v')
      | None, Some err, _ => Err err
      | None, None, _ => Panic            (* a fallible push whose error is not mapped does not type-check; unreachable *)
      end
    | OVecExtend e, SVec cap v, ABytes bs =>
      match store_extend cap v bs, e with
      | Some v', _ => Ok (SVec cap v')
      | None, Some err => Err err
      | None, None => Panic
      end
    | OIterExtendOne, SIter v, AByte b => Ok (SIter (v ++ [b]))
    | OIterExtendAll, SIter v, ABytes bs => Ok (SIter (v ++ bs))
    | OSizeAddOne, SSize n, AByte _ => Ok (SSize (n + 1))
    | OSizeAddLen, SSize n, ABytes bs => Ok (SSize (n + N.of_nat (length bs)))
    | OWriteAllOne e, SWriter w, AByte b =>
      match writer_write_all w [b] with Ok w' => Ok (SWriter w') | Err _ => Err e | Panic => Panic | Fault => Fault | OutOfFuel => OutOfFuel end
    | OWriteAll e, SWriter w, ABytes bs =>
      match writer_write_all w bs with Ok w' => Ok (SWriter w') | Err _ => Err e | Panic => Panic | Fault => Fault | OutOfFuel => OutOfFuel end
    | OFlushReturn e, SWriter w, ANone => if w_flush_fails w then Err e else Ok s
    | OReturnStore, _, ANone => Ok s
    | ODefaultExtend, _, ABytes bs => extend_by_push self_push s bs
    | OIndexVec, SVec cap v, ASet idx b =>
      match write_at v idx b with Some v' => Ok (SVec cap v') | None => Panic end
    | _, _, _ => Panic
    end.
End Interp.

Definition storage_method (impl meth : list N) : option sop :=
  match assoc impl storage_methods with
  | Some ms => assoc meth ms
  | None => None
  end.

Definition nm_try_push : list N := [116; 114; 121; 95; 112; 117; 115; 104].
Definition nm_try_extend : list N := [116; 114; 121; 95; 101; 120; 116; 101; 110; 100].
Definition nm_finalize : list N := [102; 105; 110; 97; 108; 105; 122; 101].
Definition nm_index_mut : list N := [105; 110; 100; 101; 120; 95; 109; 117; 116].
Definition nm_Flavor : list N := [70; 108; 97; 118; 111; 114].
Definition nm_Slice : list N := [83; 108; 105; 99; 101].
Definition nm_HVec : list N := [72; 86; 101; 99].
Definition nm_AllocVec : list N := [65; 108; 108; 111; 99; 86; 101; 99].
Definition nm_ExtendFlavor : list N := [69; 120; 116; 101; 110; 100; 70; 108; 97; 118; 111; 114].
Definition nm_Size : list N := [83; 105; 122; 101].
Definition nm_eio_Write : list N := [101; 105; 111; 58; 58; 87; 114; 105; 116; 101; 70; 108; 97; 118; 111; 114].
Definition nm_io_Write : list N := [105; 111; 58; 58; 87; 114; 105; 116; 101; 70; 108; 97; 118; 111; 114].
Definition nm_HVec_IndexMut : list N := [72; 86; 101; 99; 47; 73; 110; 100; 101; 120; 77; 117; 116].
Definition nm_AllocVec_IndexMut : list N := [65; 108; 108; 111; 99; 86; 101; 99; 47; 73; 110; 100; 101; 120; 77; 117; 116].

(* a method of an impl, run on a store; an impl that does not define try_extend gets the
   trait's default, which calls the impl's own try_push *)
Definition no_push : sstate -> byte -> res sstate := fun _ _ => Panic.
Definition run_method (impl meth : list N) (s : sstate) (a : sarg) : res sstate :=
  let own_push := fun s' b => match storage_method impl nm_try_push with
                              | Some o => run_sop no_push o s' (AByte b)
                              | None => Panic
                              end in
  match storage_method impl meth with
  | Some o => run_sop own_push o s a
  | None =>
    if list_N_eqb meth nm_try_extend then
      match storage_method nm_Flavor nm_try_extend with
      | Some o => run_sop own_push o s a
      | None => Panic
      end
    else Panic
  end.
