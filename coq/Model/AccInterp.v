(* AccInterp.v: an interpreter for the statement tree of feed_ref read from accumulator.rs
   (GenAccumulator.v).  Proofs/AccAstFacts.v shows it equal to the hand-written Accumulator.feed. *)
From PV Require Import Base DataModel De Cobs DeFlavors Accumulator SchemaDecl AccDecl GenAccumulator.
Open Scope N_scope.

Inductive aval := AvN (n : nat) | AvBs (bs : list byte) | AvOpt (o : option nat) | AvRes (r : feed_result).
Definition aenv := list (list N * aval).

Section Exec.
  Variable t : ty.
  Fixpoint aeval (st : acc_st) (en : aenv) (e : aexp) : res nat :=
    match e with
    | AIdx => Ok (a_idx st)
    | ACap => Ok (length (a_buf st))
    | AConst k => Ok (N.to_nat k)
    | ALen v => match assoc v en with Some (AvBs bs) => Ok (length bs) | _ => Panic end
    | AVarN v => match assoc v en with Some (AvN n) => Ok n | _ => Panic end
    | AAdd a b => let* x := aeval st en a in let* y := aeval st en b in Ok (x + y)%nat
    | ASub a b => let* x := aeval st en a in let* y := aeval st en b in
                  if Nat.ltb x y then Panic else Ok (x - y)%nat          (* usize subtraction *)
    end.
  Definition acond_eval (st : acc_st) (en : aenv) (c : acond) : res bool :=
    match c with
    | CEmpty v => match assoc v en with Some (AvBs bs) => Ok (match bs with [] => true | _ => false end) | _ => Panic end
    | CLe a b => let* x := aeval st en a in let* y := aeval st en b in Ok (Nat.leb x y)
    | CGe a b => let* x := aeval st en a in let* y := aeval st en b in Ok (Nat.leb y x)
    | CLt a b => let* x := aeval st en a in let* y := aeval st en b in Ok (Nat.ltb x y)
    | CGt a b => let* x := aeval st en a in let* y := aeval st en b in Ok (Nat.ltb y x)
    end.
  Definition aslice_eval (st : acc_st) (en : aenv) (s : aslice) : res (list byte) :=
    match s with
    | SVar v => match assoc v en with Some (AvBs bs) => Ok bs | _ => Panic end
    | SFrom v a => match assoc v en with
                   | Some (AvBs bs) => let* k := aeval st en a in
                                       if Nat.ltb (length bs) k then Panic else Ok (skipn k bs)   (* &v[k..] *)
                   | _ => Panic
                   end
    end.
  Definition aresult_eval (st : acc_st) (en : aenv) (r : aresult) : res feed_result :=
    match r with
    | RConsumed => Ok Consumed
    | ROverFull s => let* bs := aslice_eval st en s in Ok (OverFull bs)
    | RDeserError s => let* bs := aslice_eval st en s in Ok (DeserError bs)
    end.

  (* a statement either falls through (None) or returns (Some result) *)
  Definition astate := (acc_st * aenv)%type.
  Fixpoint exec_stmt (s : astmt) (sg : astate) {struct s} : res (astate * option feed_result) :=
    let exec_list :=
        fix exec_list (l : list astmt) (sg : astate) : res (astate * option feed_result) :=
          match l with
          | [] => Ok (sg, None)
          | x :: r => let* '(sg1, ret) := exec_stmt x sg in
                      match ret with Some _ => Ok (sg1, ret) | None => exec_list r sg1 end
          end in
    let '(st, en) := sg in
    match s with
    | AIfC c th el => let* b := acond_eval st en c in if b then exec_list th sg else exec_list el sg
    | ALetZeroPos n src =>
      match assoc src en with
      | Some (AvBs bs) => Ok ((st, (n, AvOpt (index_of_zero bs)) :: en), None)
      | _ => Panic
      end
    | AIfSome n opt th el =>
      match assoc opt en with
      | Some (AvOpt (Some k)) => exec_list th (st, (n, AvN k) :: en)
      | Some (AvOpt None) => exec_list el sg
      | _ => Panic
      end
    | ALetSplit a b src at_ =>
      match assoc src en with
      | Some (AvBs bs) =>
        let* k := aeval st en at_ in
        if Nat.ltb (length bs) k then Panic                                   (* split_at *)
        else Ok ((st, (a, AvBs (firstn k bs)) :: (b, AvBs (skipn k bs)) :: en), None)
      | _ => Panic
      end
    | ALetN n e => let* k := aeval st en e in Ok ((st, (n, AvN k) :: en), None)
    | ALetDecode ret okrem errrem =>
      match assoc okrem en, assoc errrem en with
      | Some (AvBs ok_r), Some (AvBs err_r) =>
        if Nat.ltb (length (a_buf st)) (a_idx st) then Panic                  (* &mut self.buf[..self.idx] *)
        else
          let window := firstn (a_idx st) (a_buf st) in
          match from_bytes_cobs t window with
          | Ok (v, window') =>
            Ok (({| a_buf := window' ++ skipn (a_idx st) (a_buf st); a_idx := a_idx st |}, (ret, AvRes (Success v ok_r)) :: en), None)
          | Err _ => Ok ((st, (ret, AvRes (DeserError err_r)) :: en), None)
          | Panic => Panic | Fault => Fault | OutOfFuel => OutOfFuel
          end
      | _, _ => Panic
      end
    | ASetIdx e => let* k := aeval st en e in Ok (({| a_buf := a_buf st; a_idx := k |}, en), None)
    | AExtend v =>
      match assoc v en with
      | Some (AvBs bs) => let* st1 := extend_unchecked st bs in Ok ((st1, en), None)
      | _ => Panic
      end
    | ARet r => let* fr := aresult_eval st en r in Ok (sg, Some fr)
    | ARetVar v => match assoc v en with Some (AvRes fr) => Ok (sg, Some fr) | _ => Panic end
    end.
  Fixpoint exec_list (l : list astmt) (sg : astate) : res (astate * option feed_result) :=
    match l with
    | [] => Ok (sg, None)
    | x :: r => let* '(sg1, ret) := exec_stmt x sg in
                match ret with Some _ => Ok (sg1, ret) | None => exec_list r sg1 end
    end.

  Definition feed_ast (st : acc_st) (input : list byte) : res (acc_st * feed_result) :=
    let* '(sg, ret) := exec_list feed_ref_body (st, [(feed_ref_input, AvBs input)]) in
    match ret with Some fr => Ok (fst sg, fr) | None => Panic end.      (* the body always returns *)
End Exec.
