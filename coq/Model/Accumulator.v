(* Accumulator.v: accumulator.rs, CobsAccumulator<N>::feed_ref and the documented loop. *)
From PV Require Import Base DataModel De Cobs DeFlavors.
Open Scope N_scope.

Record acc_st := { a_buf : list byte; a_idx : nat }.          (* buf : [u8; N], idx *)
Definition acc_new (cap : nat) : acc_st := {| a_buf := repeat 0 cap; a_idx := 0 |}.

Inductive feed_result :=
| Consumed
| OverFull (remaining : list byte)
| DeserError (remaining : list byte)
| Success (data : value) (remaining : list byte).

(* self.buf[self.idx..new_end].copy_from_slice(input); self.idx = new_end *)
Definition extend_unchecked (st : acc_st) (input : list byte) : res acc_st :=
  let new_end := (a_idx st + length input)%nat in
  if Nat.ltb (length (a_buf st)) new_end then Panic                            (* slice index out of range *)
  else Ok {| a_buf := firstn (a_idx st) (a_buf st) ++ input ++ skipn new_end (a_buf st); a_idx := new_end |}.

Definition split_first_zero (l : list byte) : option (list byte * list byte) :=
  match index_of_zero l with
  | Some n => Some (firstn (S n) l, skipn (S n) l)      (* input.split_at(n + 1) *)
  | None => None
  end.

Definition feed (t : ty) (st : acc_st) (input : list byte) : res (acc_st * feed_result) :=
  let cap := length (a_buf st) in
  match input with
  | [] => Ok (st, Consumed)
  | _ =>
    match split_first_zero input with
    | Some (take, release) =>
      if Nat.leb (a_idx st + length take) cap then
        let* st1 := extend_unchecked st take in
        (* from_bytes_cobs::<T>(&mut self.buf[..self.idx]) *)
        if Nat.ltb (length (a_buf st1)) (a_idx st1) then Panic
        else
          let window := firstn (a_idx st1) (a_buf st1) in
          match from_bytes_cobs t window with
          | Ok (v, window') =>
            Ok ({| a_buf := window' ++ skipn (a_idx st1) (a_buf st1); a_idx := 0 |}, Success v release)
          | Err _ =>
            (* the in-place decoder may have rewritten part of the window; idx = 0 makes it
               irrelevant: the model keeps the buffer as extended *)
            Ok ({| a_buf := a_buf st1; a_idx := 0 |}, DeserError release)
          | Panic => Panic | Fault => Fault | OutOfFuel => OutOfFuel
          end
      else Ok ({| a_buf := a_buf st; a_idx := 0 |}, OverFull release)
    | None =>
      if Nat.ltb cap (a_idx st + length input) then
        if Nat.ltb cap (a_idx st) then Panic                                   (* N - self.idx *)
        else
          let new_start := (cap - a_idx st)%nat in
          if Nat.ltb (length input) new_start then Panic                       (* &input[new_start..] *)
          else Ok ({| a_buf := a_buf st; a_idx := 0 |}, OverFull (skipn new_start input))
      else
        let* st1 := extend_unchecked st input in Ok (st1, Consumed)
    end
  end.

(* the documented loop: while !window.is_empty() { window = match feed(window) {
     Consumed => break, OverFull(w) | DeserError(w) => w, Success{remaining,..} => remaining } } *)
Fixpoint drive (fuel : nat) (t : ty) (st : acc_st) (window : list byte) (events : list feed_result)
  : res (acc_st * list feed_result) :=
  match window with
  | [] => Ok (st, rev events)
  | _ =>
    match fuel with
    | O => OutOfFuel
    | S f =>
      let* '(st1, r) := feed t st window in
      match r with
      | Consumed => Ok (st1, rev (r :: events))
      | OverFull w | DeserError w | Success _ w => drive f t st1 w (r :: events)
      end
    end
  end.
Definition drive_chunk (t : ty) (st : acc_st) (chunk : list byte) : res (acc_st * list feed_result) :=
  drive (2 * length chunk + 2) t st chunk [].

(* a stream cut into chunks, each driven through the documented loop *)
Fixpoint drive_all (t : ty) (st : acc_st) (chunks : list (list byte)) : res (acc_st * list feed_result) :=
  match chunks with
  | [] => Ok (st, [])
  | c :: cs =>
    let* '(st1, r1) := drive_chunk t st c in
    let* '(st2, r2) := drive_all t st1 cs in
    Ok (st2, r1 ++ r2)
  end.
