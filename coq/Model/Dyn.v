(* Dyn.v: postcard-dyn: serde_json values, and the two schema-directed walks
   to_stdvec_dyn (ser.rs) and from_slice_dyn (de.rs).  The varint / zig-zag helpers are the
   crate's private copies as the translator read them (GenLoops dyn_ tables, GenArith module Dyn); the
   arms that can panic come from GenPanicArms; the walks themselves are written by hand from
   the source and compared with the crate on generated schemas, JSON values and bytes. *)
From PV Require Import Base MachineInt VarintParams GenArith GenLoops GenPanicArms Varint Utf8 DataModel Schema SchemaDecl SchemaFmt.
Open Scope N_scope.

(* serde_json::Value (arbitrary_precision off, preserve_order off): numbers are u64 / negative
   i64 / finite f64; objects are BTreeMaps: keys unique, in ascending byte order *)
Inductive json :=
| JNull | JBool (b : bool)
| JInt (z : Z)                 (* PosInt / NegInt: - 2^63 <= z < 2^64 *)
| JFloat (bits : N)            (* a finite f64, by its bit pattern *)
| JStr (bs : list byte)
| JArr (l : list json)
| JObj (kvs : list (list byte * json)).

Inductive dres (E A : Type) := DOk (a : A) | DErr (e : E) | DPanic | DUnbounded.
Arguments DOk {E A} a. Arguments DErr {E A} e. Arguments DPanic {E A}. Arguments DUnbounded {E A}.
Definition dbind {E A B} (r : dres E A) (f : A -> dres E B) : dres E B :=
  match r with DOk a => f a | DErr e => DErr e | DPanic => DPanic | DUnbounded => DUnbounded end.
Notation "'dlet' x ':=' r 'in' k" := (dbind r (fun x => k)) (at level 200, x name, r at level 100, k at level 200).
Notation "'dlet' ' p ':=' r 'in' k" := (dbind r (fun p => k)) (at level 200, p strict pattern, r at level 100, k at level 200).

(* ---- byte strings as map keys ---- *)
Fixpoint bytes_cmp (a b : list byte) : comparison :=
  match a, b with
  | [], [] => Eq
  | [], _ => Lt
  | _, [] => Gt
  | x :: a', y :: b' => match x ?= y with Eq => bytes_cmp a' b' | c => c end
  end.
(* Map::insert *)
Fixpoint obj_insert (k : list byte) (v : json) (kvs : list (list byte * json)) : list (list byte * json) :=
  match kvs with
  | [] => [(k, v)]
  | (k', v') :: r =>
    match bytes_cmp k k' with
    | Lt => (k, v) :: kvs
    | Eq => (k, v) :: r
    | Gt => (k', v') :: obj_insert k v r
    end
  end.
Fixpoint obj_get (k : list byte) (kvs : list (list byte * json)) : option json :=
  match kvs with
  | [] => None
  | (k', v) :: r => if list_N_eqb k k' then Some v else obj_get k r
  end.

(* ---- floats: bit patterns; the three conversions the walks perform are parameters supplied
   by the host (OCaml floats in the runner), see DESIGN.md trusted base ---- *)
Definition f64_finite (bits : N) : bool := negb ((bits / 2 ^ 52) mod 2048 =? 2047).
Definition f32_finite (bits : N) : bool := negb ((bits / 2 ^ 23) mod 256 =? 255).

(* the key of a node's arm in the panic tables: struct arms are split by data kind *)
Definition arm_key (s : schema) : list N :=
  match s with
  | SStruct _ k _ => node_name s ++ [47] ++ dkind_name k
  | _ => node_name s
  end.

Section Walks.
  Variable int_to_f64 : Z -> N.        (* u64/i64 as f64 (rounds), result bits *)
  Variable narrow : N -> N.            (* f64 as f32 (rounds, may overflow to infinity) *)
  Variable widen : N -> N.             (* f32 into f64 (exact) *)

  (* Value::as_i64 / as_u64 / as_f64 *)
  Definition as_i64 (j : json) : option Z :=
    match j with JInt z => if (z <? 2 ^ 63)%Z then Some z else None | _ => None end.
  Definition as_u64 (j : json) : option Z :=
    match j with JInt z => if (0 <=? z)%Z then Some z else None | _ => None end.
  Definition as_f64 (j : json) : option N :=
    match j with JInt z => Some (int_to_f64 z) | JFloat b => Some b | _ => None end.

  Definition ser_res := dres dyn_ser_error (list byte).
  Definition mismatch : ser_res := DErr DynSerSchemaMismatch.
  (* T::try_from(val)? *)
  Definition fits (t : ity) (z : Z) : bool := in_rangeb t z.
  Definition uvar (p : wparams) (z : Z) : list byte := venc_with (Dyn.varint_max (w_ty p)) p (Z.to_N z).
  Definition len_prefix (n : nat) : list byte := uvar dyn_writer_usize (Z.of_nat n).

  Definition ser_prim (p : prim) (j : json) : ser_res :=
    let signed_var (t : ity) (pw : wparams) (zz : Z -> Z) :=
        match as_i64 j with
        | Some z => if fits t z then DOk (uvar pw (zz z)) else mismatch
        | None => mismatch
        end in
    let unsigned_var (t : ity) (pw : wparams) :=
        match as_u64 j with
        | Some z => if fits t z then DOk (uvar pw z) else mismatch
        | None => mismatch
        end in
    match p with
    | PBool => match j with JBool b => DOk [if b then 1 else 0] | _ => mismatch end
    | PI8 => match as_i64 j with Some z => if fits i8 z then DOk [Z.to_N (z mod 256)] else mismatch | None => mismatch end
    | PU8 => match as_u64 j with Some z => if fits u8 z then DOk [Z.to_N z] else mismatch | None => mismatch end
    | PI16 => signed_var i16 dyn_writer_u16 Dyn.zig_zag_i16
    | PI32 => signed_var i32 dyn_writer_u32 Dyn.zig_zag_i32
    | PI64 => signed_var i64 dyn_writer_u64 Dyn.zig_zag_i64
    | PI128 => signed_var i64 dyn_writer_u128 Dyn.zig_zag_i128         (* as_i64, then i128::from *)
    | PU16 => unsigned_var u16 dyn_writer_u16
    | PU32 => unsigned_var u32 dyn_writer_u32
    | PU64 => unsigned_var u64 dyn_writer_u64
    | PU128 => unsigned_var u64 dyn_writer_u128                        (* as_u64, then u128::from *)
    | PUsize => unsigned_var usize dyn_writer_usize
    | PIsize => signed_var i64 dyn_writer_u64 Dyn.zig_zag_i64          (* 64-bit host *)
    | PF32 =>
      match as_f64 j with
      | Some b => let f := narrow b in
                  if f32_finite f then DOk (le_bytes 4 f) else mismatch   (* refuse what does not fit an f32 *)
      | None => mismatch
      end
    | PF64 => match as_f64 j with Some b => DOk (le_bytes 8 b) | None => mismatch end
    | PString => match j with JStr bs => DOk (len_prefix (length bs) ++ bs) | _ => mismatch end
    | PChar =>
      match j with
      | JStr bs => match utf8_chars bs with
                   | Some [_] => DOk (len_prefix (length bs) ++ bs)       (* exactly one scalar value *)
                   | _ => mismatch
                   end
      | _ => mismatch
      end
    | PByteArray =>
      match j with
      | JArr l =>
        (fix go (l : list json) (acc : list byte) : ser_res :=
           match l with
           | [] => DOk (len_prefix (length acc) ++ rev acc)
           | x :: r => match as_u64 x with
                       | Some z => if fits u8 z then go r (Z.to_N z :: acc) else mismatch
                       | None => mismatch
                       end
           end) l []
      | _ => mismatch
      end
    | PUnit => DOk []
    | PSchema => DErr DynSerShouldSupportButDont
    end.

  Section SerLists.
    Variable ser : schema -> json -> ser_res.
    (* for (ty, val) in tys.iter().zip(val.iter()) *)
    Fixpoint ser_zip (ts : list schema) (js : list json) : ser_res :=
      match ts, js with
      | t :: ts', j :: js' => dlet a := ser t j in dlet b := ser_zip ts' js' in DOk (a ++ b)
      | _, _ => DOk []
      end.
    Fixpoint ser_snd_zip (fs : list (str * schema)) (js : list json) : ser_res :=
      match fs, js with
      | f :: fs', j :: js' => dlet a := ser (snd f) j in dlet b := ser_snd_zip fs' js' in DOk (a ++ b)
      | _, _ => DOk []
      end.
    Fixpoint ser_each (f : json -> ser_res) (js : list json) : ser_res :=
      match js with
      | [] => DOk []
      | j :: r => dlet a := f j in dlet b := ser_each f r in DOk (a ++ b)
      end.
    (* for field in nvs { val.get(field.name)? } *)
    Fixpoint ser_fields (fs : list (str * schema)) (obj : list (list byte * json)) : ser_res :=
      match fs with
      | [] => DOk []
      | f :: r =>
        match obj_get (fst f) obj with
        | Some j => dlet a := ser (snd f) j in dlet b := ser_fields r obj in DOk (a ++ b)
        | None => mismatch
        end
      end.
    Fixpoint ser_entries (f : json -> ser_res) (obj : list (list byte * json)) : ser_res :=
      match obj with
      | [] => DOk []
      | (k, j) :: r =>
        dlet a := f j in dlet b := ser_entries f r in DOk (len_prefix (length k) ++ k ++ a ++ b)
      end.
    (* the body of a struct / variant with this data kind *)
    Definition ser_data (k : dkind) (fs : list (str * schema)) (j : json) : ser_res :=
      match k with
      | DUnit => DOk []
      | DNewtype => match fs with [f] => ser (snd f) j | _ => DPanic end
      | DTuple =>
        match j with
        | JArr l => if Nat.eqb (length l) (length fs) then ser_snd_zip fs l else mismatch
        | _ => mismatch
        end
      | DStruct =>
        match j with
        | JObj obj => if Nat.eqb (length obj) (length fs) then ser_fields fs obj else mismatch
        | _ => mismatch
        end
      end.
  End SerLists.

  Definition find_variant (name : list byte) (vs : list (str * dkind * list (str * schema)))
    : option (nat * dkind * list (str * schema)) :=
    (fix go (vs : list (str * dkind * list (str * schema))) (i : nat) :=
       match vs with
       | [] => None
       | v :: r => if list_N_eqb (fst (fst v)) name then Some (i, snd (fst v), snd v) else go r (S i)
       end) vs 0%nat.

  (* to_stdvec_dyn *)
  Fixpoint dyn_ser (s : schema) (j : json) {struct s} : ser_res :=
    if panics_on panics_dyn_ser (arm_key s) then DPanic else
    match s with
    | SPrim p => ser_prim p j
    | SOption t => match j with JNull => DOk [0] | _ => dlet a := dyn_ser t j in DOk (1 :: a) end
    | SSeq t =>
      match j with
      | JArr l => dlet a := ser_each (dyn_ser t) l in DOk (len_prefix (length l) ++ a)
      | _ => mismatch
      end
    | STuple ts =>
      match j with
      | JArr l => if Nat.eqb (length l) (length ts) then ser_zip dyn_ser ts l else mismatch
      | _ => mismatch
      end
    | SMap k t =>
      match k with
      | SPrim PString =>
        match j with
        | JObj obj => dlet a := ser_entries (dyn_ser t) obj in DOk (len_prefix (length obj) ++ a)
        | _ => mismatch
        end
      | _ => DErr DynSerShouldSupportButDont
      end
    | SStruct _ k fs => ser_data dyn_ser k fs j
    | SEnum _ vs =>
      match j with
      | JStr name =>
        match find_variant name vs with
        | Some (i, DUnit, _) => DOk (len_prefix i)
        | Some _ => mismatch
        | None => mismatch
        end
      | JObj [(name, payload)] =>
        match find_variant name vs with
        | Some (i, k, fs) =>
          dlet a := (fix go (vs : list (str * dkind * list (str * schema))) (n : nat) : ser_res :=
                       match vs, n with
                       | v :: _, O => ser_data dyn_ser (snd (fst v)) (snd v) payload
                       | _ :: r, S n' => go r n'
                       | [], _ => DPanic
                       end) vs i in
          DOk (len_prefix i ++ a)
        | None => mismatch
        end
      | _ => mismatch
      end
    end.

  (* ---- from_slice_dyn ---- *)
  Definition de_res (A : Type) := dres dyn_de_error A.
  Definition take_one (bs : list byte) : de_res (byte * list byte) :=
    match bs with b :: r => DOk (b, r) | [] => DErr DynUnexpectedEndOfData end.
  Definition take_n (n : N) (bs : list byte) : de_res (list byte * list byte) :=
    if N.of_nat (length bs) <? n then DErr DynUnexpectedEndOfData
    else DOk (firstn (N.to_nat n) bs, skipn (N.to_nat n) bs).
  Definition dvar (p : rparams dyn_de_error) (bs : list byte) : de_res (N * list byte) :=
    match vdec p (Z.to_N (Dyn.varint_max (r_ty p))) (Z.to_N (Dyn.max_of_last_byte (r_ty p)))
               (fun s => match s with b :: r => inl (b, r) | [] => inr tt end) bs with
    | VOk n r => DOk (n, r)
    | VStop _ => DErr DynUnexpectedEndOfData
    | VErrLast => DErr (r_errlast p)
    | VErrLong => DErr (r_errlong p)
    | VPanic => DPanic
    end.
  Definition dusize := dvar dyn_reader_u64.           (* try_take_varint_usize on a 64-bit host *)

  Definition num (z : Z) : json := JInt z.
  Definition de_str (bs : list byte) : de_res (list byte * list byte) :=
    dlet '(n, r) := dusize bs in
    dlet '(s, r') := take_n n r in
    if utf8_valid s then DOk (s, r') else DErr DynSchemaMismatch.

  Definition de_prim (p : prim) (bs : list byte) : de_res (json * list byte) :=
    let var (pr : rparams dyn_de_error) (f : N -> de_res json) :=
        dlet '(n, r) := dvar pr bs in dlet j := f n in DOk (j, r) in
    match p with
    | PBool => dlet '(b, r) := take_one bs in
               if b =? 0 then DOk (JBool false, r) else if b =? 1 then DOk (JBool true, r) else DErr DynSchemaMismatch
    | PI8 => dlet '(b, r) := take_one bs in DOk (num (wrap i8 (Z.of_N b)), r)
    | PU8 => dlet '(b, r) := take_one bs in DOk (num (Z.of_N b), r)
    | PI16 => var dyn_reader_u16 (fun n => DOk (num (Dyn.de_zig_zag_i16 (Z.of_N n))))
    | PI32 => var dyn_reader_u32 (fun n => DOk (num (Dyn.de_zig_zag_i32 (Z.of_N n))))
    | PI64 | PIsize => var dyn_reader_u64 (fun n => DOk (num (Dyn.de_zig_zag_i64 (Z.of_N n))))
    | PI128 => var dyn_reader_u128 (fun n => let z := Dyn.de_zig_zag_i128 (Z.of_N n) in
                                            if fits i64 z then DOk (num z) else DErr DynShouldSupportButDont)
    | PU16 => var dyn_reader_u16 (fun n => DOk (num (Z.of_N n)))
    | PU32 => var dyn_reader_u32 (fun n => DOk (num (Z.of_N n)))
    | PU64 | PUsize => var dyn_reader_u64 (fun n => DOk (num (Z.of_N n)))
    | PU128 => var dyn_reader_u128 (fun n => if fits u64 (Z.of_N n) then DOk (num (Z.of_N n)) else DErr DynShouldSupportButDont)
    | PF32 => dlet '(b, r) := take_n 4 bs in
              let f := of_le_bytes b in
              if f32_finite f then DOk (JFloat (widen f), r) else DErr DynSchemaMismatch
    | PF64 => dlet '(b, r) := take_n 8 bs in
              let f := of_le_bytes b in
              if f64_finite f then DOk (JFloat f, r) else DErr DynSchemaMismatch
    | PChar => dlet '(s, r) := de_str bs in
               match utf8_chars s with Some [_] => DOk (JStr s, r) | _ => DErr DynSchemaMismatch end
    | PString => dlet '(s, r) := de_str bs in DOk (JStr s, r)
    | PByteArray => dlet '(n, r) := dusize bs in
                    dlet '(b, r') := take_n n r in
                    DOk (JArr (map (fun x => num (Z.of_N x)) b), r')
    | PUnit => DOk (JNull, bs)
    | PSchema => DErr DynShouldSupportButDont
    end.

  Section DeLists.
    Variable de : schema -> list byte -> de_res (json * list byte).
    Fixpoint de_all (ts : list schema) (bs : list byte) : de_res (list json * list byte) :=
      match ts with
      | [] => DOk ([], bs)
      | t :: r => dlet '(j, bs') := de t bs in dlet '(js, bs'') := de_all r bs' in DOk (j :: js, bs'')
      end.
    Fixpoint de_snd_all (fs : list (str * schema)) (bs : list byte) : de_res (list json * list byte) :=
      match fs with
      | [] => DOk ([], bs)
      | f :: r => dlet '(j, bs') := de (snd f) bs in dlet '(js, bs'') := de_snd_all r bs' in DOk (j :: js, bs'')
      end.
    (* for nv in nvs { map.insert(nv.name, val) } *)
    Fixpoint de_fields (fs : list (str * schema)) (acc : list (list byte * json)) (bs : list byte)
      : de_res (list (list byte * json) * list byte) :=
      match fs with
      | [] => DOk (acc, bs)
      | f :: r => dlet '(j, bs') := de (snd f) bs in de_fields r (obj_insert (fst f) j acc) bs'
      end.
    (* for _ in 0..n: at most `fuel` iterations are run here; an element that consumes nothing
       repeats identically, so running out of fuel before n means n copies of it: DUnbounded *)
    Fixpoint de_repeat (fuel : nat) (g : list byte -> de_res (json * list byte)) (n : N) (acc : list json) (bs : list byte)
      : de_res (list json * list byte) :=
      if n =? 0 then DOk (rev acc, bs)
      else match fuel with
           | O => DUnbounded
           | S f => dlet '(j, bs') := g bs in de_repeat f g (n - 1) (j :: acc) bs'
           end.
    Fixpoint de_entries (fuel : nat) (g : list byte -> de_res (json * list byte)) (n : N) (acc : list (list byte * json)) (bs : list byte)
      : de_res (list (list byte * json) * list byte) :=
      if n =? 0 then DOk (acc, bs)
      else match fuel with
           | O => DUnbounded
           | S f =>
             dlet '(k, bs') := de_str bs in
             dlet '(j, bs'') := g bs' in
             de_entries f g (n - 1) (obj_insert k j acc) bs''
           end.
    Definition de_data (k : dkind) (fs : list (str * schema)) (bs : list byte) : de_res (json * list byte) :=
      match k with
      | DUnit => DOk (JNull, bs)
      | DNewtype => match fs with [f] => de (snd f) bs | _ => DPanic end
      | DTuple => dlet '(js, r) := de_snd_all fs bs in DOk (JArr js, r)
      | DStruct => dlet '(obj, r) := de_fields fs [] bs in DOk (JObj obj, r)
      end.
  End DeLists.

  (* how many loop iterations are run for a count of n over `len` remaining bytes: all of them
     when n is moderate, otherwise one more than can possibly succeed on non-empty elements *)
  Definition loop_fuel (n : N) (len : nat) : nat :=
    if n <=? N.of_nat len + 65536 then N.to_nat n else S len.

  Fixpoint dyn_de (s : schema) (bs : list byte) {struct s} : de_res (json * list byte) :=
    if panics_on panics_dyn_de (arm_key s) then DPanic else
    match s with
    | SPrim p => de_prim p bs
    | SOption t =>
      dlet '(b, r) := take_one bs in
      if b =? 0 then DOk (JNull, r) else if b =? 1 then dyn_de t r else DErr DynSchemaMismatch
    | SSeq t =>
      dlet '(n, r) := dusize bs in
      dlet '(js, r') := de_repeat (loop_fuel n (length r)) (dyn_de t) n [] r in DOk (JArr js, r')
    | STuple ts => dlet '(js, r) := de_all dyn_de ts bs in DOk (JArr js, r)
    | SMap k t =>
      match k with
      | SPrim PString =>
        dlet '(n, r) := dusize bs in
        dlet '(obj, r') := de_entries (loop_fuel n (length r)) (dyn_de t) n [] r in DOk (JObj obj, r')
      | _ => DErr DynShouldSupportButDont
      end
    | SStruct _ k fs => de_data dyn_de k fs bs
    | SEnum _ vs =>
      dlet '(idx, r) := dusize bs in
      (fix go (vs : list (str * dkind * list (str * schema))) (n : nat) : de_res (json * list byte) :=
         match vs, n with
         | v :: _, O =>
           match snd (fst v) with
           | DUnit => DOk (JStr (fst (fst v)), r)
           | k => dlet '(j, r') := de_data dyn_de k (snd v) r in DOk (JObj [(fst (fst v), j)], r')
           end
         | _ :: rest, S n' => go rest n'
         | [], _ => DErr DynSchemaMismatch
         end) vs (if idx <? N.of_nat (length vs) then N.to_nat idx else length vs)
    end.

  Definition from_slice_dyn (s : schema) (bs : list byte) : de_res json :=
    dlet '(j, _) := dyn_de s bs in DOk j.
End Walks.
