(* SerMethodDecl.v: vocabulary of the generated table of serializer method bodies
   (GenSerMethods.v): straight-line code as steps over a small expression language. *)
From PV Require Import Base.
Open Scope N_scope.

Inductive mexp :=
| MVar (n : list N)                          (* a parameter or local; `&x` and `&mut x` too *)
| MConst (k : N)
| MIf (c : list N) (a b : N)                 (* if c { a } else { b } *)
| MByte0 (v : list N)                        (* v.to_le_bytes()[0] *)
| MZigZag (w : N) (v : list N)               (* zig_zag_i<w>(v) *)
| MBitsLe (v : list N)                       (* v.to_bits().to_le_bytes() *)
| MZeros (n : N)                             (* [0u8; n] *)
| MZerosVarintMax (ty : list N)              (* [0u8; varint_max::<ty>()] *)
| MEncodeUtf8 (v buf : list N)               (* v.encode_utf8(&mut buf) *)
| MVarintBytes (ty v buf : list N)           (* varint_<ty>(v, &mut buf) *)
| MLen (v : list N)                          (* v.len() *)
| MLenOrErr (v : list N)                     (* v.ok_or(Error::SerializeSeqLengthUnknown)? *)
| MBytesOf (v : list N).                     (* v.as_bytes() *)
Inductive sstep :=
| SLet (n : list N) (e : mexp)
| SHelper (name : list N) (arg : mexp)       (* self.try_push_varint_*(arg) *)
| SPush (e : mexp)                           (* self.output.try_push(e) *)
| SExtend (e : mexp)                         (* self.output.try_extend(e) *)
| SCall (name : list N) (arg : mexp)         (* self.serialize_*(arg) *)
| SValue (v : list N)                        (* v.serialize(self) *)
| SRetUnit | SRetSelf.
