(* Extract.v: extraction of the executable model for the correspondence runner.
   ExtrOcamlBasic only: bool, option, unit, list, prod, sumbool, sumor map to the OCaml
   types; nat, positive, N, Z stay the extracted inductive types. *)
From Coq Require Import Extraction ExtrOcamlBasic.
From PV Require Import Base MachineInt VarintParams GenArith GenLoops Varint Utf8 DataModel Ser De Fixint
  Cobs Crc SerFlavors DeFlavors IoChunks Accumulator WireFormat
  Schema SchemaDecl SchemaSer SchemaConv SchemaOps Key KeyOps KeySpec SchemaFmt FmtOps MaxSizeDecl MaxSize Conform Dyn JsonOf DynSizeDefs SchemaImpls.
Extraction Language OCaml.
Extraction "../runner/model.ml"
  le_bytes of_le_bytes
  venc core_vdec core_writer_u16 core_writer_u32 core_writer_u64 core_writer_u128 core_writer_usize
  core_reader_u16 core_reader_u32 core_reader_u64 core_reader_u128
  Core.varint_max Core.max_of_last_byte
  Core.zig_zag_i16 Core.zig_zag_i32 Core.zig_zag_i64 Core.zig_zag_i128
  Core.de_zig_zag_i16 Core.de_zig_zag_i32 Core.de_zig_zag_i64 Core.de_zig_zag_i128
  utf8_valid utf8_chars utf8_encode
  has_type wf_ty ser_ops enc ser_err de_slice slice_pop slice_take_n
  fix_bytes fix_value fix_ty fix_decode
  spec_enc spec_de spec_varint
  decode_in_place_report crc alg_okb
  to_slice to_vec to_allocvec to_extend to_io serialized_size
  to_slice_cobs to_vec_cobs to_allocvec_cobs
  to_slice_crc to_vec_crc to_allocvec_crc
  to_slice_crc_cobs to_vec_crc_cobs to_allocvec_crc_cobs to_recorder
  take_from_bytes_ptr from_io from_io_c to_io_c take_from_bytes_crc from_bytes_cobs take_from_bytes_cobs
  acc_new feed drive_chunk
  B O conv schema_de schema_ok schema_wf depth key_const key_owned spec_key stream pseudocode pseudocode_nested used_types max_size mhas conforms schema_skip erase dyn_ser from_slice_dyn json_of unamb in_scope small_seqs json_wf reenc_scope schema_of emit_ok sty_ok dno_zero jsize dslope doffset dyn_de.
