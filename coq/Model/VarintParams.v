(* VarintParams.v: the shape of a varint writer / reader loop, as a record whose fields are
   the constants and comparison operators found in the source by tools/translate.py. *)
From PV Require Import Base MachineInt.
Open Scope Z_scope.

Inductive cmp := CLt | CLe | CGt | CGe | CEq | CNe.
Definition cmp_eval (c : cmp) (a b : N) : bool :=
  (match c with
  | CLt => a <? b | CLe => a <=? b | CGt => b <? a | CGe => b <=? a
  | CEq => a =? b | CNe => negb (a =? b)
  end)%N.

(* for i in 0..varint_max::<T>() { out[i] = value.to_le_bytes()[0];
     if value CMP THRESH { return &mut out[..=i]; } out[i] |= FLAG; value >>= SHIFT; } *)
Record wparams := { w_ty : ity; w_cmp : cmp; w_thresh : N; w_flag : N; w_shift : N }.

(* for i in 0..varint_max::<T>() { let val = pop()?; let carry = (val & MASK) as T;
     out |= carry << (MUL * i);
     if (val & FLAG) == 0 { if i == varint_max::<T>() - LASTOFF && val CMP max_of_last_byte::<T>()
        { return Err(ERRLAST) } else { return Ok(out) } } } Err(ERRLONG) *)
Record rparams (E : Type) := { r_ty : ity; r_mask : N; r_mul : N; r_flag : N; r_lastoff : N;
                               r_cmp : cmp; r_errlast : E; r_errlong : E }.
Arguments r_ty {E}. Arguments r_mask {E}. Arguments r_mul {E}. Arguments r_flag {E}.
Arguments r_lastoff {E}. Arguments r_cmp {E}. Arguments r_errlast {E}. Arguments r_errlong {E}.

(* postcard-dyn's two private error enums *)
Inductive dyn_de_error := DynUnexpectedEndOfData | DynShouldSupportButDont | DynSchemaMismatch.
Inductive dyn_ser_error := DynSerSchemaMismatch | DynSerShouldSupportButDont | DynSerUnsupported.

Definition std_writer (t : ity) : wparams :=
  {| w_ty := t; w_cmp := CLt; w_thresh := 128%N; w_flag := 128%N; w_shift := 7%N |}.
Definition std_reader {E} (t : ity) (e : E) : rparams E :=
  {| r_ty := t; r_mask := 127%N; r_mul := 7%N; r_flag := 128%N; r_lastoff := 1%N; r_cmp := CGt;
     r_errlast := e; r_errlong := e |}.
