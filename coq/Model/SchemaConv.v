(* SchemaConv.v: the From<&DataModelType> for OwnedDataModelType family (owned.rs), interpreted
   from the arm tables the translator reads (the conv tables of GenSchemaDecl); the shape `ty` of the
   schema enums unfolded to a depth (what derive(Deserialize) accepts); and the reading of a
   decoded value back as a schema tree. *)
From PV Require Import Base Utf8 DataModel Schema SchemaDecl.
Open Scope N_scope.

Definition all_prims : list prim :=
  [PBool; PI8; PU8; PI16; PI32; PI64; PI128; PU16; PU32; PU64; PU128; PUsize; PIsize;
   PF32; PF64; PChar; PString; PByteArray; PUnit; PSchema].
Definition all_dkinds : list dkind := [DUnit; DNewtype; DTuple; DStruct].
Definition prim_of_name (n : list N) : option prim :=
  find (fun p => list_N_eqb n (prim_name p)) all_prims.
Definition dkind_of_name (n : list N) : option dkind :=
  find (fun k => list_N_eqb n (dkind_name k)) all_dkinds.

Definition nm_option : list N := [79; 112; 116; 105; 111; 110].
Definition nm_seq : list N := [83; 101; 113].
Definition nm_tuple : list N := [84; 117; 112; 108; 101].
Definition nm_map : list N := [77; 97; 112].
Definition nm_struct : list N := [83; 116; 114; 117; 99; 116].
Definition nm_enum : list N := [69; 110; 117; 109].
Definition nm_name : list N := [110; 97; 109; 101].
Definition nm_ty : list N := [116; 121].
Definition nm_data : list N := [100; 97; 116; 97].
Definition nm_key : list N := [107; 101; 121].
Definition nm_val : list N := [118; 97; 108].
Definition nm_variants : list N := [118; 97; 114; 105; 97; 110; 116; 115].

Fixpoint depth (s : schema) : nat :=
  match s with
  | SPrim _ => 0
  | SOption t | SSeq t => S (depth t)
  | STuple ts => S (fold_right (fun t m => Nat.max (depth t) m) 0%nat ts)
  | SMap k v => S (Nat.max (depth k) (depth v))
  | SStruct _ _ fields => S (fold_right (fun f m => Nat.max (depth (snd f)) m) 0%nat fields)
  | SEnum _ vs =>
    S (fold_right (fun v m => Nat.max (fold_right (fun f m => Nat.max (depth (snd f)) m) 0%nat (snd v)) m) 0%nat vs)
  end.

(* ---- the conversion borrowed -> owned ---- *)
Section Conv.
  Variable conv_dmt conv_data : list (list N * list N * list (list N * list N)).
  Variable conv_nf conv_var : list (list N * list N).

  Definition row (k : list N) (tbl : list (list N * list N * list (list N * list N))) :=
    find (fun r => list_N_eqb k (fst (fst r))) tbl.
  (* target field f is built from the source field of the same name *)
  Definition same_field (f : list N) (pairs : list (list N * list N)) : bool :=
    match assoc f pairs with Some g => list_N_eqb f g | None => false end.

  Section Lists.
    Variable conv : schema -> option schema.
    Fixpoint conv_list (ts : list schema) : option (list schema) :=
      match ts with
      | [] => Some []
      | t :: r => match conv t, conv_list r with Some a, Some b => Some (a :: b) | _, _ => None end
      end.
    Fixpoint conv_fields (fs : list (str * schema)) : option (list (str * schema)) :=
      match fs with
      | [] => Some []
      | f :: r => match conv (snd f), conv_fields r with
                  | Some a, Some b => Some ((fst f, a) :: b)
                  | _, _ => None
                  end
      end.
    Definition conv_data_of (k : dkind) (fields : list (str * schema)) : option (dkind * list (str * schema)) :=
      match row (dkind_name k) conv_data with
      | Some (_, k', _) =>
        match dkind_of_name k', conv_fields fields with
        | Some kd, Some fs =>
          (* NamedField { name, ty } must be carried over field for field *)
          if same_field nm_name conv_nf && same_field nm_ty conv_nf then Some (kd, fs) else None
        | _, _ => None
        end
      | None => None
      end.
  End Lists.

  Fixpoint to_owned (s : schema) : option schema :=
    match row (node_name s) conv_dmt with
    | None => None
    | Some (_, k', pairs) =>
      match s with
      | SPrim _ => option_map SPrim (prim_of_name k')
      | SOption t | SSeq t =>
        match to_owned t with
        | Some t' => if list_N_eqb k' nm_option then Some (SOption t')
                     else if list_N_eqb k' nm_seq then Some (SSeq t') else None
        | None => None
        end
      | STuple ts =>
        if list_N_eqb k' nm_tuple then option_map STuple (conv_list to_owned ts) else None
      | SMap k v =>
        if list_N_eqb k' nm_map then
          match to_owned k, to_owned v, assoc nm_key pairs, assoc nm_val pairs with
          | Some a, Some b, Some fk, Some fv =>
            let pick := fun n => if list_N_eqb n nm_key then Some a else if list_N_eqb n nm_val then Some b else None in
            match pick fk, pick fv with Some x, Some y => Some (SMap x y) | _, _ => None end
          | _, _, _, _ => None
          end
        else None
      | SStruct name k fields =>
        if list_N_eqb k' nm_struct && same_field nm_name pairs && same_field nm_data pairs then
          match conv_data_of to_owned k fields with
          | Some (kd, fs) => Some (SStruct name kd fs)
          | None => None
          end
        else None
      | SEnum name vs =>
        if list_N_eqb k' nm_enum && same_field nm_name pairs && same_field nm_variants pairs
           && same_field nm_name conv_var && same_field nm_data conv_var then
          option_map (SEnum name)
            ((fix go (vs : list (str * dkind * list (str * schema))) : option (list (str * dkind * list (str * schema))) :=
                match vs with
                | [] => Some []
                | v :: r => match conv_data_of to_owned (snd (fst v)) (snd v), go r with
                            | Some (kd, fs), Some b => Some ((fst (fst v), kd, fs) :: b)
                            | _, _ => None
                            end
                end) vs)
        else None
      end
    end.
End Conv.

(* ---- the shape of the schema enums, unfolded d levels ---- *)
Section DeclTy.
  Variable dmt data : list (list N * vshape).
  Variable named_field variant : list (list N * fty).

  Definition fty_ty (self dat nf var : ty) (f : fty) : ty :=
    match f with
    | FSelf => self | FSelfs => TSeq self | FStr => TStr
    | FData => dat | FVariants => TSeq var | FFields => TSeq nf
    end.
  Definition shape_ty (g : fty -> ty) (sh : vshape) : ty :=
    match sh with
    | ShUnit => TUnitStruct
    | ShTuple [f] => TNewtype (g f)
    | ShTuple fs => TTupleStruct (map g fs)
    | ShStruct fs => TStruct (map (fun f => g (snd f)) fs)
    end.
  Definition nf_ty (self : ty) : ty := TStruct (map (fun f => fty_ty self TUnit TUnit TUnit (snd f)) named_field).
  Definition data_ty (self : ty) : ty :=
    TEnum (map (fun r => shape_ty (fty_ty self TUnit (nf_ty self) TUnit) (snd r)) data).
  Definition var_ty (self : ty) : ty :=
    TStruct (map (fun f => fty_ty self (data_ty self) (nf_ty self) TUnit (snd f)) variant).
  Fixpoint decl_ty (d : nat) : ty :=
    match d with
    | O => TEnum []
    | S d' =>
      let self := decl_ty d' in
      TEnum (map (fun r => shape_ty (fty_ty self (data_ty self) (nf_ty self) (var_ty self)) (snd r)) dmt)
    end.

  (* ---- reading a decoded value back as a tree ---- *)
  (* every struct-shaped payload of these declarations has two fields; Some false: declared
     as [n1; n2], Some true: as [n2; n1] *)
  Definition decl_two (decl : list (list N * fty)) (n1 n2 : list N) : option bool :=
    match decl with
    | [(a, _); (b, _)] =>
      if list_N_eqb a n1 && list_N_eqb b n2 then Some false
      else if list_N_eqb a n2 && list_N_eqb b n1 then Some true else None
    | _ => None
    end.

  Section Lists.
    Variable of_value : value -> option schema.
    Fixpoint of_values (vs : list value) : option (list schema) :=
      match vs with
      | [] => Some []
      | v :: r => match of_value v, of_values r with Some a, Some b => Some (a :: b) | _, _ => None end
      end.
    Definition of_named_field (v : value) : option (str * schema) :=
      match v with
      | VStruct [a; b] =>
        match decl_two named_field nm_name nm_ty with
        | Some sw =>
          match (if sw then b else a) with
          | VStr n => option_map (fun s => (n, s)) (of_value (if sw then a else b))
          | _ => None
          end
        | None => None
        end
      | _ => None
      end.
    Fixpoint of_named_fields (vs : list value) : option (list (str * schema)) :=
      match vs with
      | [] => Some []
      | v :: r => match of_named_field v, of_named_fields r with Some a, Some b => Some (a :: b) | _, _ => None end
      end.
    Definition unnamed (ts : list schema) : list (str * schema) := map (fun t => ([], t)) ts.
    Definition of_data (v : value) : option (dkind * list (str * schema)) :=
      match v with
      | VVariant idx p =>
        match nth_error data (N.to_nat idx) with
        | Some (kn, _) =>
          match dkind_of_name kn, p with
          | Some DUnit, VUnitStruct => Some (DUnit, [])
          | Some DNewtype, VNewtype x => option_map (fun s => (DNewtype, [([], s)])) (of_value x)
          | Some DTuple, VNewtype (VSeq xs) => option_map (fun l => (DTuple, unnamed l)) (of_values xs)
          | Some DStruct, VNewtype (VSeq xs) => option_map (fun l => (DStruct, l)) (of_named_fields xs)
          | _, _ => None
          end
        | None => None
        end
      | _ => None
      end.
  End Lists.

  Definition struct_fields (sh : vshape) : list (list N * fty) :=
    match sh with ShStruct fs => fs | _ => [] end.

  Fixpoint of_value (v : value) : option schema :=
    match v with
    | VVariant idx p =>
      match nth_error dmt (N.to_nat idx) with
      | None => None
      | Some (kn, sh) =>
        match prim_of_name kn with
        | Some pr => match p with VUnitStruct => Some (SPrim pr) | _ => None end
        | None =>
          match p with
          | VNewtype x =>
            if list_N_eqb kn nm_option then option_map SOption (of_value x)
            else if list_N_eqb kn nm_seq then option_map SSeq (of_value x)
            else if list_N_eqb kn nm_tuple then
              match x with VSeq xs => option_map STuple (of_values of_value xs) | _ => None end
            else None
          | VStruct [a; b] =>
            let fs := struct_fields sh in
            if list_N_eqb kn nm_map then
              match decl_two fs nm_key nm_val with
              | Some sw =>
                match of_value (if sw then b else a), of_value (if sw then a else b) with
                | Some x, Some y => Some (SMap x y)
                | _, _ => None
                end
              | None => None
              end
            else if list_N_eqb kn nm_struct then
              match decl_two fs nm_name nm_data with
              | Some sw =>
                match (if sw then b else a) with
                | VStr n => option_map (fun kd => SStruct n (fst kd) (snd kd)) (of_data of_value (if sw then a else b))
                | _ => None
                end
              | None => None
              end
            else if list_N_eqb kn nm_enum then
              match decl_two fs nm_name nm_variants, decl_two variant nm_name nm_data with
              | Some sw, Some sw' =>
                match (if sw then b else a), (if sw then a else b) with
                | VStr n, VSeq xs =>
                  option_map (SEnum n)
                    ((fix go (xs : list value) : option (list (str * dkind * list (str * schema))) :=
                        match xs with
                        | [] => Some []
                        | x :: r =>
                          match x with
                          | VStruct [c; d] =>
                            match (if sw' then d else c) with
                            | VStr vn =>
                              match of_data of_value (if sw' then c else d), go r with
                              | Some kd, Some b => Some ((vn, fst kd, snd kd) :: b)
                              | _, _ => None
                              end
                            | _ => None
                            end
                          | _ => None
                          end
                        end) xs)
                | _, _ => None
                end
              | _, _ => None
              end
            else None
          | _ => None
          end
        end
      end
    | _ => None
    end.
End DeclTy.

(* names a schema may carry on the wire: Rust strings *)
Definition name_ok (n : str) : bool :=
  bytes_okb n && utf8_valid n && (N.of_nat (length n) <? 2 ^ 64).
Definition fields_ok (ok : schema -> bool) (fs : list (str * schema)) : bool :=
  forallb (fun f => name_ok (fst f) && ok (snd f)) fs && (N.of_nat (length fs) <? 2 ^ 64).
Fixpoint schema_ok (s : schema) : bool :=
  match s with
  | SPrim _ => true
  | SOption t | SSeq t => schema_ok t
  | STuple ts => forallb schema_ok ts && (N.of_nat (length ts) <? 2 ^ 64)
  | SMap k v => schema_ok k && schema_ok v
  | SStruct name k fields => name_ok name && fields_ok schema_ok fields
  | SEnum name vs =>
    name_ok name && forallb (fun v => name_ok (fst (fst v)) && fields_ok schema_ok (snd v)) vs
    && (N.of_nat (length vs) <? 2 ^ 64)
  end.
