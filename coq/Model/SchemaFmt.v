(* SchemaFmt.v: postcard-schema schema/fmt.rs: the pseudo-Rust formatter
   (fmt_owned_dmt_to_buf / to_pseudocode / Display) and the type discovery (discover_tys /
   all_used_types).  The string literals and the arms that can panic are the tables the
   translator reads from the source (GenFmt.v, GenPanicArms.v); the control structure is
   written here by hand and compared with the crate on generated trees. *)
From Coq Require Import Decimal.
From PV Require Import Base DataModel Schema SchemaDecl.
Open Scope N_scope.

(* decimal text of a length (format!("{}", vec.len())) *)
Fixpoint uint_digits (u : Decimal.uint) : list byte :=
  match u with
  | Decimal.Nil => []
  | Decimal.D0 r => 48 :: uint_digits r | Decimal.D1 r => 49 :: uint_digits r
  | Decimal.D2 r => 50 :: uint_digits r | Decimal.D3 r => 51 :: uint_digits r
  | Decimal.D4 r => 52 :: uint_digits r | Decimal.D5 r => 53 :: uint_digits r
  | Decimal.D6 r => 54 :: uint_digits r | Decimal.D7 r => 55 :: uint_digits r
  | Decimal.D8 r => 56 :: uint_digits r | Decimal.D9 r => 57 :: uint_digits r
  end.
Definition decimal (n : N) : list byte := uint_digits (N.to_uint n).

(* derive(PartialEq) on OwnedDataModelType: structural, names included *)
Definition prim_eqb (a b : prim) : bool := list_N_eqb (prim_name a) (prim_name b).
Definition dkind_eqb (a b : dkind) : bool := list_N_eqb (dkind_name a) (dkind_name b).
Section Eqb.
  Variable eqb : schema -> schema -> bool.
  Fixpoint list_eqb (a b : list schema) : bool :=
    match a, b with
    | [], [] => true
    | x :: a', y :: b' => eqb x y && list_eqb a' b'
    | _, _ => false
    end.
  Fixpoint fields_eqb (a b : list (str * schema)) : bool :=
    match a, b with
    | [], [] => true
    | x :: a', y :: b' => list_N_eqb (fst x) (fst y) && eqb (snd x) (snd y) && fields_eqb a' b'
    | _, _ => false
    end.
End Eqb.
Fixpoint schema_eqb (a b : schema) {struct a} : bool :=
  match a, b with
  | SPrim p, SPrim q => prim_eqb p q
  | SOption x, SOption y | SSeq x, SSeq y => schema_eqb x y
  | STuple xs, STuple ys => list_eqb schema_eqb xs ys
  | SMap k v, SMap k' v' => schema_eqb k k' && schema_eqb v v'
  | SStruct n k fs, SStruct n' k' fs' => list_N_eqb n n' && dkind_eqb k k' && fields_eqb schema_eqb fs fs'
  | SEnum n vs, SEnum n' vs' =>
    list_N_eqb n n' &&
    (fix go (a b : list (str * dkind * list (str * schema))) : bool :=
       match a, b with
       | [], [] => true
       | x :: a', y :: b' =>
         list_N_eqb (fst (fst x)) (fst (fst y)) && dkind_eqb (snd (fst x)) (snd (fst y))
         && fields_eqb schema_eqb (snd x) (snd y) && go a' b'
       | _, _ => false
       end) vs vs'
  | _, _ => false
  end.

Definition join (sep : list byte) (parts : list (list byte)) : list byte :=
  match parts with
  | [] => []
  | p :: r => p ++ flat_map (fun x => sep ++ x) r
  end.

Section Fmt.
  Variable lits dlits : list (list N * list (list N)).
  Variable panics : list (list N * bool).

  Definition panics_on (tbl : list (list N * bool)) (k : list N) : bool :=
    match assoc k tbl with Some b => b | None => true end.     (* no arm: the match would not compile *)
  (* i-th literal of the arm for kind k; Fault: the arm does not have the expected shape *)
  Definition lit (tbl : list (list N * list (list N))) (k : list N) (i : nat) : res (list byte) :=
    match assoc k tbl with
    | Some l => match nth_error l i with Some x => Ok x | None => Fault end
    | None => Fault
    end.

  Section Data.
    Variable render : schema -> res (list byte).
    Fixpoint render_all (ts : list schema) : res (list (list byte)) :=
      match ts with
      | [] => Ok []
      | t :: r => let* a := render t in let* b := render_all r in Ok (a :: b)
      end.
    Fixpoint render_named (sep : list byte) (fs : list (str * schema)) : res (list (list byte)) :=
      match fs with
      | [] => Ok []
      | f :: r => let* a := render (snd f) in let* b := render_named sep r in Ok ((fst f ++ sep ++ a) :: b)
      end.
    (* the fmt_data closure *)
    Definition render_data (k : dkind) (fs : list (str * schema)) : res (list byte) :=
      let kn := dkind_name k in
      match k with
      | DUnit => Ok []
      | DNewtype =>
        match fs with
        | [f] => let* o := lit dlits kn 0 in let* x := render (snd f) in let* c := lit dlits kn 1 in Ok (o ++ x ++ c)
        | _ => Fault
        end
      | DTuple =>
        let* o := lit dlits kn 0 in let* sep := lit dlits kn 1 in let* c := lit dlits kn 2 in
        let* parts := render_all (map snd fs) in Ok (o ++ join sep parts ++ c)
      | DStruct =>
        let* o := lit dlits kn 0 in let* colon := lit dlits kn 1 in let* sep := lit dlits kn 2 in
        let* colon' := lit dlits kn 3 in let* c := lit dlits kn 4 in
        match fs with
        | [] => Ok (o ++ c)
        | f :: r =>
          let* a := render (snd f) in
          let* parts := render_named colon' r in
          Ok (o ++ join sep ((fst f ++ colon ++ a) :: parts) ++ c)
        end
      end.
  End Data.

  (* fmt_owned_dmt_to_buf(dmt, buf, top_level): Struct and Enum are spelled out only at the top
     level; nested occurrences are always rendered with top_level = false *)
  Fixpoint render_in (s : schema) : res (list byte) :=
    let kn := node_name s in
    if panics_on panics kn then Panic else
    match s with
    | SPrim _ => lit lits kn 0
    | SOption t | SSeq t =>
      let* o := lit lits kn 0 in let* x := render_in t in let* c := lit lits kn 1 in Ok (o ++ x ++ c)
    | STuple ts =>
      match ts with
      | [] => lit lits kn 7
      | first :: _ =>
        if forallb (schema_eqb first) ts then
          let* o := lit lits kn 0 in let* semi := lit lits kn 1 in let* c := lit lits kn 3 in
          let* x := render_in first in
          Ok (o ++ x ++ semi ++ decimal (N.of_nat (length ts)) ++ c)
        else
          let* o := lit lits kn 4 in let* sep := lit lits kn 5 in let* c := lit lits kn 6 in
          let* parts := render_all render_in ts in Ok (o ++ join sep parts ++ c)
      end
    | SMap k v =>
      let* o := lit lits kn 0 in let* sep := lit lits kn 1 in let* c := lit lits kn 2 in
      let* a := render_in k in let* b := render_in v in Ok (o ++ a ++ sep ++ b ++ c)
    | SStruct name _ _ => Ok name
    | SEnum name _ => Ok name
    end.

  Definition render_variants (sep : list byte) (vs : list (str * dkind * list (str * schema))) : res (list (list byte)) :=
    (fix go (vs : list (str * dkind * list (str * schema))) : res (list (list byte)) :=
       match vs with
       | [] => Ok []
       | v :: r =>
         let* d := render_data render_in (snd (fst v)) (snd v) in
         let* b := go r in Ok ((fst (fst v) ++ d) :: b)
       end) vs.

  (* to_pseudocode / Display: top_level = true *)
  Definition render_top (s : schema) : res (list byte) :=
    let kn := node_name s in
    match s with
    | SStruct name k fs =>
      if panics_on panics kn then Panic else
      let* kw := lit lits kn 0 in let* d := render_data render_in k fs in Ok (kw ++ name ++ d)
    | SEnum name vs =>
      if panics_on panics kn then Panic else
      let* kw := lit lits kn 0 in let* o := lit lits kn 1 in let* sep := lit lits kn 2 in let* c := lit lits kn 3 in
      let* parts := render_variants sep vs in
      Ok (kw ++ name ++ o ++ join sep parts ++ c)
    | _ => render_in s
    end.
End Fmt.

(* ---- discover_tys: the set as the list of insertions ---- *)
Section Discover.
  Variable panics : list (list N * bool).
  Section Lists.
    Variable discover : schema -> res (list schema).
    Fixpoint discover_list (ts : list schema) : res (list schema) :=
      match ts with
      | [] => Ok []
      | t :: r => let* a := discover t in let* b := discover_list r in Ok (a ++ b)
      end.
    Fixpoint discover_fields (fs : list (str * schema)) : res (list schema) :=
      match fs with
      | [] => Ok []
      | f :: r => let* a := discover (snd f) in let* b := discover_fields r in Ok (a ++ b)
      end.
  End Lists.
  Fixpoint discover (s : schema) : res (list schema) :=
    if panics_on panics (node_name s) then Panic else
    match s with
    | SPrim _ => Ok [s]
    | SOption t | SSeq t => let* l := discover t in Ok (s :: l)
    | STuple ts => let* l := discover_list discover ts in Ok (s :: l)
    | SMap k v => let* a := discover k in let* b := discover v in Ok (s :: a ++ b)
    | SStruct _ _ fs => let* l := discover_fields discover fs in Ok (s :: l)
    | SEnum _ vs =>
      let* l := (fix go (vs : list (str * dkind * list (str * schema))) : res (list schema) :=
                   match vs with
                   | [] => Ok []
                   | v :: r => let* a := discover_fields discover (snd v) in let* b := go r in Ok (a ++ b)
                   end) vs in
      Ok (s :: l)
    end.
End Discover.
