(* DynArms.v: an interpreter for the scalar arms of postcard-dyn's ser_named_type as read from
   postcard-dyn/src/ser.rs (GenDynArms.v).  Proofs/DynArmFacts.v shows Dyn.ser_prim equal to it
   on those kinds. *)
From PV Require Import Base MachineInt VarintParams GenArith GenLoops Varint DataModel Schema SchemaDecl MaxSize Dyn DynArmDecl GenDynArms.
Open Scope N_scope.

Definition dyn_writer_named (ty : list N) : option wparams :=
  if list_N_eqb ty [117; 49; 54] then Some dyn_writer_u16
  else if list_N_eqb ty [117; 51; 50] then Some dyn_writer_u32
  else if list_N_eqb ty [117; 54; 52] then Some dyn_writer_u64
  else if list_N_eqb ty [117; 49; 50; 56] then Some dyn_writer_u128
  else if list_N_eqb ty [117; 115; 105; 122; 101] then Some dyn_writer_usize
  else None.
Definition dyn_zig_zag (w : N) (z : Z) : option Z :=
  if w =? 16 then Some (Dyn.zig_zag_i16 z) else if w =? 32 then Some (Dyn.zig_zag_i32 z)
  else if w =? 64 then Some (Dyn.zig_zag_i64 z) else if w =? 128 then Some (Dyn.zig_zag_i128 z) else None.

Section Arms.
  Variable int_to_f64 : Z -> N.
  Variable narrow : N -> N.

  Inductive dav := DvBool (b : bool) | DvInt (z : Z) | DvF64 (bits : N) | DvF32 (bits : N).
  Definition nm (s : list N) := s.
  Definition acc_bool : list N := [97; 115; 95; 98; 111; 111; 108].
  Definition acc_i64 : list N := [97; 115; 95; 105; 54; 52].
  Definition acc_u64 : list N := [97; 115; 95; 117; 54; 52].
  Definition acc_f64 : list N := [97; 115; 95; 102; 54; 52].

  Definition run_arm (a : dser_arm) (j : json) : dres dyn_ser_error (list byte) :=
    let 'DA acc conv zz emit := a in
    (* value.as_X().right()? *)
    let v0 : option dav :=
        if list_N_eqb acc acc_bool then match j with JBool b => Some (DvBool b) | _ => None end
        else if list_N_eqb acc acc_i64 then option_map DvInt (as_i64 j)
        else if list_N_eqb acc acc_u64 then option_map DvInt (as_u64 j)
        else if list_N_eqb acc acc_f64 then option_map DvF64 (as_f64 int_to_f64 j)
        else None in
    match v0 with
    | None => (DErr DynSerSchemaMismatch)
    | Some v =>
      (* the conversion *)
      let v1 : dres dyn_ser_error dav :=
          match conv, v with
          | CNone, _ => DOk v
          | CTryFrom ty, DvInt z => match ity_of_name ty with
                                    | Some t => if in_rangeb t z then DOk v else (DErr DynSerSchemaMismatch)
                                    | None => DPanic
                                    end
          | CFrom ty, DvInt z => match ity_of_name ty with Some _ => DOk v | None => DPanic end
          | CNarrow, DvF64 b => DOk (DvF32 (narrow b))
          | CNarrowFinite, DvF64 b => if f32_finite (narrow b) then DOk (DvF32 (narrow b)) else (DErr DynSerSchemaMismatch)
          | _, _ => DPanic
          end in
      match v1 with
      | DOk v2 =>
        let v3 : dres dyn_ser_error dav :=
            match zz, v2 with
            | None, _ => DOk v2
            | Some w, DvInt z => match dyn_zig_zag w z with Some r => DOk (DvInt r) | None => DPanic end
            | _, _ => DPanic
            end in
        match v3 with
        | DOk v4 =>
          match emit, v4 with
          | EPushBool, DvBool b => DOk [if b then 1 else 0]
          | EPushAsU8, DvInt z => DOk [Z.to_N (z mod 256)]
          | EPush, DvInt z => DOk [Z.to_N z]
          | EVarint maxty fnty, DvInt z =>
            match ity_of_name maxty, dyn_writer_named fnty with
            | Some mt, Some p => DOk (venc_with (Dyn.varint_max mt) p (Z.to_N z))
            | _, _ => DPanic
            end
          | ELeBytes, DvF64 b => DOk (le_bytes 8 b)
          | ELeBytes, DvF32 b => DOk (le_bytes 4 b)
          | _, _ => DPanic
          end
        | DErr e => DErr e | DPanic => DPanic | DUnbounded => DUnbounded
        end
      | DErr e => DErr e | DPanic => DPanic | DUnbounded => DUnbounded
      end
    end.

  Definition ser_prim_via_arms (p : prim) (j : json) : option (dres dyn_ser_error (list byte)) :=
    option_map (fun a => run_arm a j) (assoc (prim_name p) dyn_ser_scalar_arms).
End Arms.

(* ---- the decoder's scalar arms ---- *)
Definition dyn_reader_named (ty : list N) : option (rparams dyn_de_error) :=
  if list_N_eqb ty [117; 49; 54] then Some dyn_reader_u16
  else if list_N_eqb ty [117; 51; 50] then Some dyn_reader_u32
  else if list_N_eqb ty [117; 54; 52] then Some dyn_reader_u64
  else if list_N_eqb ty [117; 49; 50; 56] then Some dyn_reader_u128
  else if list_N_eqb ty [117; 115; 105; 122; 101] then Some dyn_reader_u64     (* 64-bit host *)
  else None.
Definition dyn_de_zig_zag (w : N) (z : Z) : option Z :=
  if w =? 16 then Some (Dyn.de_zig_zag_i16 z) else if w =? 32 then Some (Dyn.de_zig_zag_i32 z)
  else if w =? 64 then Some (Dyn.de_zig_zag_i64 z) else if w =? 128 then Some (Dyn.de_zig_zag_i128 z) else None.
Definition dyn_de_error_named (e : list N) : option dyn_de_error :=
  if list_N_eqb e [83; 104; 111; 117; 108; 100; 83; 117; 112; 112; 111; 114; 116; 66; 117; 116; 68; 111; 110; 116] then Some DynShouldSupportButDont
  else if list_N_eqb e [83; 99; 104; 101; 109; 97; 77; 105; 115; 109; 97; 116; 99; 104] then Some DynSchemaMismatch
  else if list_N_eqb e [85; 110; 101; 120; 112; 101; 99; 116; 101; 100; 69; 110; 100; 79; 102; 68; 97; 116; 97] then Some DynUnexpectedEndOfData
  else None.

Section DeArms.
  Variable widen : N -> N.

  Inductive ddv := XByte (b : N) | XUns (n : N) | XInt (z : Z) | XBytes (l : list byte) | XF32 (b : N) | XF64 (b : N) | XJson (j : json).

  Definition run_de_step (k : dde_step) (v : ddv) : dres dyn_de_error ddv :=
    match k, v with
    | KMatchBool, XByte b => if b =? 0 then DOk (XJson (JBool false)) else if b =? 1 then DOk (XJson (JBool true)) else DErr DynSchemaMismatch
    | KAsI8, XByte b => DOk (XInt (wrap i8 (Z.of_N b)))
    | KZigZag w, XUns n => match dyn_de_zig_zag w (Z.of_N n) with Some z => DOk (XInt z) | None => DPanic end
    | KTryFrom ty err, XInt z =>
      match ity_of_name ty, dyn_de_error_named err with
      | Some t, Some e => if in_rangeb t z then DOk v else DErr e
      | _, _ => DPanic
      end
    | KTryFrom ty err, XUns n =>
      match ity_of_name ty, dyn_de_error_named err with
      | Some t, Some e => if in_rangeb t (Z.of_N n) then DOk v else DErr e
      | _, _ => DPanic
      end
    | KFromLe n ty, XBytes l =>
      (* copy_from_slice panics unless the lengths agree *)
      if negb (N.of_nat (length l) =? n) then DPanic
      else if list_N_eqb ty [102; 51; 50] then (if n =? 4 then DOk (XF32 (of_le_bytes l)) else DPanic)
      else if list_N_eqb ty [102; 54; 52] then (if n =? 8 then DOk (XF64 (of_le_bytes l)) else DPanic)
      else DPanic
    | _, _ => DPanic
    end.
  Fixpoint run_de_steps (ks : list dde_step) (v : ddv) : dres dyn_de_error ddv :=
    match ks with
    | [] => DOk v
    | k :: r => dbind (run_de_step k v) (run_de_steps r)
    end.
  Definition run_de_final (f : dde_final) (v : ddv) : dres dyn_de_error json :=
    match f, v with
    | FVal, XJson j => DOk j
    | FNumber, XByte b => DOk (JInt (Z.of_N b))
    | FNumber, XUns n => DOk (JInt (Z.of_N n))
    | FNumber, XInt z => DOk (JInt z)
    | FFromF64 true, XF32 b => if f32_finite b then DOk (JFloat (widen b)) else DErr DynSchemaMismatch
    | FFromF64 false, XF64 b => if f64_finite b then DOk (JFloat b) else DErr DynSchemaMismatch
    | _, _ => DPanic
    end.
  Definition run_de_arm (a : dde_arm) (bs : list byte) : dres dyn_de_error (json * list byte) :=
    let 'DDA tk ks fin := a in
    let t0 : dres dyn_de_error (ddv * list byte) :=
        match tk with
        | TOne => dbind (take_one bs) (fun br => DOk (XByte (fst br), snd br))
        | TVarint fn => match dyn_reader_named fn with
                        | Some p => dbind (dvar p bs) (fun nr => DOk (XUns (fst nr), snd nr))
                        | None => DPanic
                        end
        | TTakeN n => dbind (take_n n bs) (fun lr => DOk (XBytes (fst lr), snd lr))
        end in
    dbind t0 (fun vr => dbind (run_de_steps ks (fst vr)) (fun v => dbind (run_de_final fin v) (fun j => DOk (j, snd vr)))).

  Definition de_prim_via_arms (p : prim) (bs : list byte) : option (dres dyn_de_error (json * list byte)) :=
    option_map (fun a => run_de_arm a bs) (assoc (prim_name p) dyn_de_scalar_arms).
End DeArms.
