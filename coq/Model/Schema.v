(* Schema.v: postcard-schema's schema trees.  One tree type serves the borrowed
   (DataModelType, &'static) and the owned (OwnedDataModelType, Box) form: they differ in
   Rust only in how children are held.  A `data` (Data / OwnedData: Unit, Newtype, Tuple,
   Struct) is a kind plus a list of (field name, schema); names are UTF-8 byte strings. *)
From PV Require Import Base DataModel.
Open Scope N_scope.

Notation str := (list N) (only parsing).

Inductive prim :=
| PBool | PI8 | PU8 | PI16 | PI32 | PI64 | PI128 | PU16 | PU32 | PU64 | PU128 | PUsize | PIsize
| PF32 | PF64 | PChar | PString | PByteArray | PUnit | PSchema.
Inductive dkind := DUnit | DNewtype | DTuple | DStruct.

Inductive schema :=
| SPrim (p : prim)
| SOption (t : schema)
| SSeq (t : schema)
| STuple (ts : list schema)
| SMap (k v : schema)
| SStruct (name : str) (k : dkind) (fields : list (str * schema))
| SEnum (name : str) (variants : list (str * dkind * list (str * schema))).

(* Data well-formedness: Unit has no field, Newtype exactly one (unnamed); Tuple fields are
   unnamed *)
Definition data_wf (k : dkind) (fields : list (str * schema)) : bool :=
  match k with
  | DUnit => match fields with [] => true | _ => false end
  | DNewtype => match fields with [(n, _)] => match n with [] => true | _ => false end | _ => false end
  | DTuple => forallb (fun f => match fst f with [] => true | _ => false end) fields
  | DStruct => true
  end.
Fixpoint schema_wf (s : schema) : bool :=
  match s with
  | SPrim _ => true
  | SOption t | SSeq t => schema_wf t
  | STuple ts => forallb schema_wf ts
  | SMap k v => schema_wf k && schema_wf v
  | SStruct _ k fields => data_wf k fields && forallb (fun f => schema_wf (snd f)) fields
  | SEnum _ vs => forallb (fun v => data_wf (snd (fst v)) (snd v) && forallb (fun f => schema_wf (snd f)) (snd v)) vs
  end.

(* the name of each node kind as the Rust enums spell it *)
Definition prim_name (p : prim) : list byte :=
  match p with
  | PBool => [66;111;111;108] | PI8 => [73;56] | PU8 => [85;56] | PI16 => [73;49;54] | PI32 => [73;51;50]
  | PI64 => [73;54;52] | PI128 => [73;49;50;56] | PU16 => [85;49;54] | PU32 => [85;51;50] | PU64 => [85;54;52]
  | PU128 => [85;49;50;56] | PUsize => [85;115;105;122;101] | PIsize => [73;115;105;122;101]
  | PF32 => [70;51;50] | PF64 => [70;54;52] | PChar => [67;104;97;114] | PString => [83;116;114;105;110;103]
  | PByteArray => [66;121;116;101;65;114;114;97;121] | PUnit => [85;110;105;116] | PSchema => [83;99;104;101;109;97]
  end.
Definition dkind_name (k : dkind) : list byte :=
  match k with
  | DUnit => [85;110;105;116] | DNewtype => [78;101;119;116;121;112;101]
  | DTuple => [84;117;112;108;101] | DStruct => [83;116;114;117;99;116]
  end.
Definition node_name (s : schema) : list byte :=
  match s with
  | SPrim p => prim_name p
  | SOption _ => [79;112;116;105;111;110] | SSeq _ => [83;101;113] | STuple _ => [84;117;112;108;101]
  | SMap _ _ => [77;97;112] | SStruct _ _ _ => [83;116;114;117;99;116] | SEnum _ _ => [69;110;117;109]
  end.
