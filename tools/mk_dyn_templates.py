"""One-off builder of tools/dyn_arm_templates.json: the non-scalar match arms of postcard-dyn's
ser_named_type and deserialize as token templates.  Locals become `$name` holes (the match is up to
consistent renaming), error kinds `?E<n>` holes and byte literals `?B<n>` holes whose values are
recorded as the expected ones.  Run once against the source the hand model was written from; the
translator (gen_dyn_composite) matches the current source against the stored templates."""
import json
import re
import sys

sys.path.insert(0, '/verif/tools')
from rustexpr import strip_comments, find_fn, tokenize
from translate_schema import block_after, split_arms
from translate_methods import compact, DYN_SCALARS, norm_arm_key

IDENT = re.compile(r'^[A-Za-z_]\w*$')


def locals_of(toks):
    loc = set()
    i = 0
    n = len(toks)

    def collect(j, close):
        while j < n and toks[j] != close:
            if IDENT.match(toks[j]) and toks[j] not in ('_', 'mut', 'ref'):
                loc.add(toks[j])
            j += 1
        return j
    while i < n:
        t = toks[i]
        if t in ('let', 'for'):
            j = i + 1
            if j < n and toks[j] == 'mut':
                j += 1
            if j < n and toks[j] == '(':
                collect(j + 1, ')')
            elif j < n and toks[j] == 'Some' and toks[j + 1] == '(':
                collect(j + 2, ')')
            elif j < n and IDENT.match(toks[j]):
                loc.add(toks[j])
        elif t == '|' and i > 0 and toks[i - 1] in ('(', ','):
            collect(i + 1, '|')
        i += 1
    return loc


def templ(body, bound=()):
    toks = [t[1] for t in tokenize(body)]
    loc = locals_of(toks) | set(bound)
    out, holes = [], {}
    ne = nb = 0
    i = 0
    while i < len(toks):
        t = toks[i]
        if t in loc:
            out.append('$' + t)
        elif i >= 2 and toks[i - 1] == '::' and toks[i - 2] == 'Error' and IDENT.match(t):
            ne += 1
            h = '?E%d' % ne
            holes[h] = t
            out.append(h)
        elif re.match(r'^0x[0-9a-fA-F]{2}$', t):
            nb += 1
            h = '?B%d' % nb
            holes[h] = t
            out.append(h)
        else:
            out.append(t)
        i += 1
    return ' '.join(out), holes


def arms_of(path, fname):
    text = strip_comments(open(path).read())
    sig, body = find_fn(text, fname)
    mbody = block_after(body, r'\bmatch\s+ty\s*')
    res = {}
    for arm in split_arms(mbody):
        m = re.match(r'^(.*?)=>\s*(.*)$', arm.strip(), re.S)
        pat, b = m.group(1), m.group(2).strip()
        key, bound = norm_arm_key(pat)
        if re.match(r'^OwnedDataModelType::(\w+)$', key) and key.split('::')[1] in DYN_SCALARS:
            continue
        if b.startswith('{') and b.endswith('}'):
            b = b[1:-1]
        res[key] = (b, bound)
    return res


if __name__ == '__main__':
    out = {}
    for tag, path, fname in (('ser', '/repo/source/postcard-dyn/src/ser.rs', 'ser_named_type'),
                             ('de', '/repo/source/postcard-dyn/src/de.rs', 'deserialize')):
        out[tag] = {}
        for key, (body, bound) in arms_of(path, fname).items():
            t, holes = templ(body, bound)
            out[tag][key] = {'template': t, 'holes': holes}
    json.dump(out, open('/verif/tools/dyn_arm_templates.json', 'w'), indent=1, sort_keys=True)
    from translate_schema import coq_str
    lines = ["(* DynCompositeExpected.v: written once by tools/mk_dyn_templates.py from the source the hand model",
             "   of postcard-dyn (Model/Dyn.v) was written from: for every non-scalar arm of ser_named_type and",
             "   deserialize, the error kinds and byte literals at the holes of its token template",
             "   (tools/dyn_arm_templates.json).  GenDynComposite.v carries the same table as matched on this run. *)",
             "From PV Require Import Base.", "Open Scope N_scope.", ""]
    for tag in ('ser', 'de'):
        rows = []
        for k in sorted(out[tag]):
            hs = out[tag][k]['holes']
            rows.append("(%s, [%s])" % (coq_str(k), '; '.join(coq_str(hs[h]) for h in sorted(hs, key=lambda x: (x[1], int(x[2:]))))))
        lines.append("Definition dyn_%s_composite_expected : list (list N * list (list N)) :=\n  [%s]." % (tag, ';\n   '.join(rows)))
    open('/verif/coq/Model/DynCompositeExpected.v', 'w').write('\n'.join(lines) + '\n')
    for tag in out:
        for k, v in out[tag].items():
            print(tag, k, len(v['template'].split()), v['holes'])
