#!/bin/sh
# verify_seed.sh N crate : in /tmp/seedN confirm (1) suite passes with change, (2) demo fails with change, (3) demo passes without
N=$1; CRATE=${2:-postcard}; FEAT=${3:-}
cd /tmp/seed$N || exit 2
DEMO=source/$CRATE/tests/seed_demo.rs
[ -f $DEMO ] || cp demo.rs $DEMO
git diff --quiet -- source && { git apply patch.diff || exit 3; }
mv $DEMO /tmp/seed${N}_demo.rs
R1=$(cargo test --workspace --offline 2>&1 | grep -E '^test result' | awk '{p+=$4; f+=$6} END {print p" passed "f" failed"}')
cp /tmp/seed${N}_demo.rs $DEMO
R2=$(cargo test --offline -p $CRATE $FEAT --test seed_demo 2>&1 | grep -E '^test result' | tail -1)
git apply -R patch.diff
R3=$(cargo test --offline -p $CRATE $FEAT --test seed_demo 2>&1 | grep -E '^test result' | tail -1)
git apply patch.diff
echo "seed$N suite_with_change: $R1 | demo_with_change: $R2 | demo_without: $R3"
