#!/usr/bin/env python3
"""check.py Cxx [--tier quick|thorough] [--replay FILE]

One run = translate the sources to coq/Gen, re-check the property's theorems (full .vo
build of its dependency cone, Print Assumptions, forbidden-construct grep), rebuild the
harness against the current tree, run the implementation on generated inputs (direct
oracles), run the extracted model on the same inputs (correspondence), decide, write
evidence/Cxx.json.  Exit 0: held on everything explored.  Exit 1: a line
`VIOLATION property=Cxx replay=<path>` was printed."""
import fcntl
import json
import os
import re
import shutil
import subprocess
import sys
import time

ROOT = os.path.dirname(os.path.dirname(os.path.abspath(__file__)))
REPO = os.environ.get('VERIF_REPO', '/repo')
COQ = os.path.join(ROOT, 'coq')
RUNNER = os.path.join(ROOT, 'runner')
HARNESS = os.path.join(ROOT, 'harness')
WORK = os.path.join(ROOT, 'work')
ENV = dict(os.environ, CARGO_NET_OFFLINE='true', VERIF_REPO=REPO)

TRUSTED_BASE = [
    "Coq 8.16.1 kernel (coqc; vm_compute used inside proofs for finite sweeps; native_compute not used)",
    "axioms: none (every property theorem must print 'Closed under the global context')",
    "tools/translate.py, translate_schema.py, translate_methods.py, rustexpr.py and the token templates tools/dyn_arm_templates.json, tools/fn_templates.json: Rust fragment -> Gallina translator for coq/Gen/*.v",
    "Coq extraction to OCaml with ExtrOcamlBasic only (bool, option, unit, list, prod, sumbool, sumor mapped; andb/orb inlined; nat/positive/N/Z extracted as inductives); no Extract Constant / Extract Inductive of our own",
    "OCaml 4.13.1 and runner/{util,ops,main}.ml (case parser, printer, comparison)",
    "harness/ (Rust): generators, DynVal serde glue, canonical printing, independent spec encoder/decoder used as direct oracle",
    "modelled, not verified: serde's own impls and derive output, core::str::from_utf8, char::encode_utf8, to_le_bytes/from_le_bytes, std::io read_exact/write_all, heapless::Vec, alloc::Vec, crates cobs 0.2.3 and crc 3.x, serde_json, rustc, the machine-level effect of unsafe pointer accesses",
]

# per-property configuration: harness driver, Properties file, extra files whose proofs are
# the obligations, Gen files the property depends on
PROPS = {}


def prop(pid, driver, design, gens=('GenArith.v', 'GenLoops.v'), eio=False):
    PROPS[pid] = dict(driver=driver, design=design, gens=gens, eio=eio)


prop('C01', 'c01', '4 (C01)', gens=('GenArith.v', 'GenLoops.v', 'GenSerMethods.v', 'GenDeMethods.v'))
prop('C02', 'c02', '4 (C02)', gens=('GenArith.v', 'GenLoops.v', 'GenSerMethods.v', 'GenErrorImpls.v'))
prop('C03', 'c03', '4 (C03)', gens=('GenArith.v', 'GenLoops.v', 'GenDeMethods.v', 'GenErrorImpls.v'))
prop('C04', 'c04', '4 (C04)', gens=('GenArith.v', 'GenLoops.v', 'GenPtrCode.v'))
prop('C05', 'c05', '4 (C05)', gens=('GenArith.v', 'GenLoops.v', 'GenPtrCode.v', 'GenSerMethods.v', 'GenStorages.v'))
prop('C06', 'c06', '5 (C06)', gens=('GenArith.v', 'GenLoops.v', 'GenModifiers.v', 'GenEntryPoints.v', 'GenSerEntry.v'))
prop('C07', 'c07', '5 (C07)', gens=('GenArith.v', 'GenLoops.v', 'GenEntryPoints.v'))
prop('C08', 'c08', '5 (C08)', gens=('GenArith.v', 'GenLoops.v', 'GenAccumulator.v'))
prop('C09', 'c09', '5 (C09)', gens=('GenArith.v', 'GenLoops.v', 'GenAccumulator.v'))
prop('C10', 'c10', '5 (C10)', gens=('GenArith.v', 'GenLoops.v', 'GenModifiers.v', 'GenSerEntry.v'))
prop('C11', 'c11', '6 (C11)', gens=('GenArith.v', 'GenLoops.v', 'GenStorages.v', 'GenIoReaders.v'))
prop('C12', 'c12', '6 (C12)', gens=('GenArith.v', 'GenMaxSize.v', 'GenDeriveMaxSize.v'))
prop('C13', 'c13', '6 (C13)', gens=('GenArith.v', 'GenFixint.v'))
prop('C14', 'c14', '7 (C14)', gens=('GenSchemaDecl.v', 'GenSchemaImpls.v', 'GenDeriveSchema.v'))
prop('C15', 'c15', '7 (C15)', gens=('GenSchemaDecl.v',))
prop('C16', 'c16', '7 (C16)', gens=('GenSchemaDecl.v', 'GenHashTags.v', 'GenArith.v', 'GenKeyFns.v'))
prop('C17', 'c17', '8 (C17)', gens=('GenArith.v', 'GenLoops.v', 'GenPanicArms.v', 'GenDynArms.v', 'GenDynComposite.v', 'GenDynHelpers.v'))
prop('C18', 'c18', '8 (C18)', gens=('GenArith.v', 'GenLoops.v', 'GenPanicArms.v', 'GenDynArms.v', 'GenDynComposite.v', 'GenDynHelpers.v'))
prop('C19', 'c19', '7 (C19)', gens=('GenFmt.v', 'GenPanicArms.v', 'GenFnTemplates.v'))
prop('C20', 'c20', '5 (C20)', gens=('GenArith.v', 'GenLoops.v', 'GenModifiers.v', 'GenStorages.v', 'GenSerEntry.v'))


def sh(cmd, cwd=None, timeout=None, env=None):
    p = subprocess.run(cmd, cwd=cwd, env=env or ENV, stdout=subprocess.PIPE, stderr=subprocess.STDOUT,
                       timeout=timeout, text=True, errors='replace')
    return p.returncode, p.stdout


class Lock:
    """builds share coq/, runner/ and harness/target: serialise them across concurrent checks"""

    def __init__(self, name):
        os.makedirs(WORK, exist_ok=True)
        self.f = open(os.path.join(WORK, name + '.lock'), 'w')

    def __enter__(self):
        fcntl.flock(self.f, fcntl.LOCK_EX)

    def __exit__(self, *a):
        fcntl.flock(self.f, fcntl.LOCK_UN)


FORBIDDEN = re.compile(r'\b(Admitted|admit|Axiom|Axioms|Parameter|Parameters|Conjecture|Hypothesis|Variable|Abort All|Unset Guard Checking|Unset Positivity Checking|Unset Universe Checking|bypass_check|type-in-type|impredicative-set|Admit Obligations)\b')


def strip_coq_comments(text):
    out = []
    depth = 0
    i = 0
    while i < len(text):
        if text.startswith('(*', i):
            depth += 1
            i += 2
        elif text.startswith('*)', i) and depth > 0:
            depth -= 1
            i += 2
        else:
            if depth == 0:
                out.append(text[i])
            i += 1
    return ''.join(out)


def forbidden_constructs():
    """Admitted/Axiom/... anywhere in the development (Variable/Hypothesis/Context are
    allowed inside Sections only; we check that every such line sits between Section/End)"""
    bad = []
    for d, _, fs in os.walk(COQ):
        for f in fs:
            if not f.endswith('.v'):
                continue
            path = os.path.join(d, f)
            text = strip_coq_comments(open(path).read())
            depth = 0
            for ln, line in enumerate(text.split('\n'), 1):
                if re.match(r'\s*Section\b', line):
                    depth += 1
                if re.match(r'\s*End\b', line) and depth > 0:
                    # End of a Module also matches; Modules are not nested in Sections here
                    depth -= 1
                for m in FORBIDDEN.finditer(line):
                    w = m.group(1)
                    if w in ('Hypothesis', 'Variable') and depth > 0:
                        continue
                    bad.append("%s:%d: %s" % (os.path.relpath(path, ROOT), ln, w))
    return bad


def translate():
    rc, out = sh([sys.executable, os.path.join(ROOT, 'tools', 'translate.py')])
    problems = [l[len('UNTRANSLATABLE '):] for l in out.split('\n') if l.startswith('UNTRANSLATABLE ')]
    if rc not in (0, 2):
        problems.append('translate.py failed: ' + out[-400:])
    return problems


def coq_makefile():
    mk = os.path.join(COQ, 'Makefile')
    cp = os.path.join(COQ, '_CoqProject')
    if not os.path.exists(mk) or os.path.getmtime(mk) < os.path.getmtime(cp):
        sh(['coq_makefile', '-f', '_CoqProject', '-o', 'Makefile'], cwd=COQ)


def prove(pid, thorough):
    """returns (obligations, discharged, broken[list of str], log)"""
    coq_makefile()
    vfile = os.path.join(COQ, 'Properties', pid + '.v')
    text = strip_coq_comments(open(vfile).read())
    theorems = re.findall(r'^\s*Theorem\s+(\w+)', text, re.M)
    printed = re.findall(r'^\s*Print Assumptions\s+(\w+)\s*\.', text, re.M)
    broken = []
    for t in theorems:
        if t not in printed:
            broken.append("Properties/%s.v: theorem %s has no Print Assumptions" % (pid, t))
    if re.search(r'\bProof\.\s*(?!exact|intros[^.]*\.\s*(rewrite[^.]*\.\s*)?exact)', text) and False:
        pass
    # always recompile the property file itself so that Print Assumptions output is fresh
    vo = vfile[:-2] + '.vo'
    if os.path.exists(vo):
        os.remove(vo)
    if thorough:
        sh(['make', 'clean'], cwd=COQ, timeout=300)
        coq_makefile()
    t0 = time.time()
    try:
        rc, out = sh(['timeout', '3000' if thorough else '1500', 'make', '-j16', 'Properties/%s.vo' % pid], cwd=COQ, timeout=3100)
    except subprocess.TimeoutExpired:
        rc, out = 124, 'make timed out'
    log = out
    closed = out.count('Closed under the global context')
    axioms = re.findall(r'^Axioms:\s*\n((?:.+\n)+)', out, re.M)
    if rc != 0:
        m = re.search(r'File "([^"]+)", line (\d+)[^\n]*\n((?:.*\n){0,12})', out)
        where = ("%s line %s: %s" % (m.group(1), m.group(2), ' '.join(m.group(3).split())[:300])) if m else out[-300:]
        broken.append("proof does not check: " + where)
        return len(theorems), 0, broken, log
    if axioms:
        broken.append("axioms reported by Print Assumptions: " + ' | '.join(a.strip().replace('\n', ' ') for a in axioms))
    discharged = min(closed, len(theorems))
    if closed < len(printed):
        broken.append("only %d of %d Print Assumptions are closed under the global context" % (closed, len(printed)))
    if thorough:
        try:
            rc2, out2 = sh(['timeout', '1500', 'coqchk', '-silent', '-o', '-Q', 'Gen', 'PV', '-Q', 'Model', 'PV', '-Q', 'Spec', 'PV',
                            '-Q', 'Proofs', 'PV', '-Q', 'Properties', 'PV', 'PV.' + pid], cwd=COQ, timeout=1600)
        except subprocess.TimeoutExpired:
            rc2, out2 = 124, 'coqchk timed out'
        log += '\n--- coqchk ---\n' + out2[-2000:]
        if rc2 != 0:
            broken.append("coqchk failed: " + out2[-300:])
        elif 'Axioms: <none>' not in out2.replace('\n', ' ').replace('  ', ' ') and not re.search(r'Axioms:\s*<none>', out2):
            broken.append("coqchk reports axioms: " + out2[-300:])
    return len(theorems), discharged, broken, log


def build_model_runner():
    """extraction (part of the Coq build) + ocaml build; returns problems"""
    coq_makefile()
    rc, out = sh(['timeout', '1500', 'make', '-j16', 'Model/Extract.vo'], cwd=COQ, timeout=1600)
    if rc != 0:
        return ["extraction does not build: " + out[-400:]]
    src = os.path.join(RUNNER, 'model.ml')
    exe = os.path.join(RUNNER, 'pvrunner')
    deps = [os.path.join(RUNNER, f) for f in ('model.ml', 'util.ml', 'ops.ml', 'main.ml')]
    if not os.path.exists(exe) or any(os.path.getmtime(d) > os.path.getmtime(exe) for d in deps):
        rc, out = sh(['sh', os.path.join(RUNNER, 'build.sh')], timeout=900)
        if rc != 0 or not os.path.exists(exe):
            return ["runner does not build: " + out[-400:]]
    return []


def build_harness(profile, features=()):
    tmpl = open(os.path.join(HARNESS, 'Cargo.toml.in')).read().replace('@REPO@', REPO)
    path = os.path.join(HARNESS, 'Cargo.toml')
    if not os.path.exists(path) or open(path).read() != tmpl:
        open(path, 'w').write(tmpl)
    lock = os.path.join(HARNESS, 'Cargo.lock')
    if not os.path.exists(lock):
        shutil.copy(os.path.join(REPO, 'Cargo.lock'), lock)
    cmd = ['cargo', 'build', '--offline', '--quiet']
    if profile == 'release':
        cmd.append('--release')
    target = os.path.join(HARNESS, 'target' + ('-' + '-'.join(features) if features else ''))
    cmd += ['--target-dir', target]
    if features:
        cmd += ['--features', ','.join(features)]
    env = dict(ENV, RUSTFLAGS='--cfg postcard_verif')
    try:
        rc, out = sh(['timeout', '1700'] + cmd, cwd=HARNESS, env=env, timeout=1800)
    except subprocess.TimeoutExpired:
        rc, out = 124, 'cargo build timed out'
    exe = os.path.join(target, profile if profile == 'release' else 'debug', 'pvh')
    if rc != 0 or not os.path.exists(exe):
        errs = [l for l in out.split('\n') if l.startswith('error')]
        return None, "harness does not build against the current tree: " + (' | '.join(errs[:4]) or out[-400:])
    return exe, None


def run_runner(cases_path, shards=16):
    """split the case file and run pvrunner on the parts in parallel"""
    exe = os.path.join(RUNNER, 'pvrunner')
    lines = open(cases_path).read().split('\n')
    lines = [l for l in lines if l]
    n = len(lines)
    if n == 0:
        return 0, []
    shards = max(1, min(shards, n // 500 + 1))
    procs = []
    for i in range(shards):
        part = cases_path + '.part%d' % i
        with open(part, 'w') as f:
            f.write('\n'.join(lines[i::shards]) + '\n')
        procs.append((i, part, subprocess.Popen([exe, part], stdout=subprocess.PIPE, stderr=subprocess.STDOUT, text=True, errors='replace')))
    mismatches = []
    done = 0
    for i, part, p in procs:
        out, _ = p.communicate()
        ok = False
        for l in out.split('\n'):
            if l.startswith('MISMATCH') or l.startswith('MALFORMED'):
                mismatches.append(l)
            m = re.match(r'DONE cases=(\d+) mismatches=(\d+)', l)
            if m:
                done += int(m.group(1))
                ok = True
        if not ok:
            mismatches.append("RUNNER-CRASH shard %d rc=%s: %s" % (i, p.returncode, out[-300:]))
        os.remove(part)
    return done, mismatches


def load_known(pid):
    known, fixed = {}, []
    path = os.path.join(ROOT, 'known_findings.jsonl')
    if os.path.exists(path):
        for line in open(path):
            line = line.strip()
            if not line or line.startswith('#'):
                continue
            if line.startswith('fixed:'):
                fixed.append(line)
                continue
            e = json.loads(line)
            if e.get('property') == pid and e.get('status') == 'known':
                known[e['class']] = e
    return known, fixed


def write_replay(pid, seed, n, kind, body):
    os.makedirs(os.path.join(ROOT, 'replays'), exist_ok=True)
    path = os.path.join(ROOT, 'replays', '%s-%d-%d.json' % (pid, seed, n))
    body = dict(property=pid, kind=kind, seed=seed, **body)
    with open(path, 'w') as f:
        json.dump(body, f, indent=1)
    return path


def main():
    args = sys.argv[1:]
    if not args:
        print(__doc__)
        return 2
    pid = args[0].upper()
    tier = os.environ.get('VERIF_TIER', 'quick')
    replay = None
    i = 1
    while i < len(args):
        if args[i] == '--tier':
            tier = args[i + 1]
            i += 2
        elif args[i] == '--replay':
            replay = args[i + 1]
            i += 2
        else:
            i += 1
    thorough = tier == 'thorough'
    seed = int(os.environ.get('VERIF_SEED', '1'))
    cfg = PROPS[pid]
    t0 = time.time()
    os.makedirs(os.path.join(WORK, pid), exist_ok=True)
    os.makedirs(os.path.join(ROOT, 'evidence'), exist_ok=True)
    cases = os.path.join(WORK, pid, 'cases.txt')
    summary_path = os.path.join(WORK, pid, 'summary.json')
    broken = []          # proof obligations / translation / correspondence that no longer check
    log_parts = []

    with Lock('build'):
        # 1. translate
        tp = translate()
        # 2. prove
        obligations, discharged, pb, plog = prove(pid, thorough)
        broken += pb
        log_parts.append(plog)
        fb = forbidden_constructs()
        if fb:
            broken += ["forbidden construct " + x for x in fb]
            discharged = 0
        # 3. model runner
        rp = build_model_runner()
        broken += rp
        # a fragment the translator cannot read breaks exactly the proofs (and the extracted
        # model) that depend on it: it is this property's problem only if one of them broke
        if tp and (pb or rp):
            broken += ["untranslatable: " + p for p in tp]
        # 4. harness
        exe, err = build_harness('release')
        exe_dbg = None
        # the overflow-checked build runs in the thorough tier, and whenever a tie to the source is
        # already broken (the search for a failing input then also covers arithmetic that only
        # panics with overflow checks on)
        if exe and (thorough or broken):
            exe_dbg, err2 = build_harness('debug')
            if err2:
                err = err2
    open(os.path.join(WORK, pid, 'build.log'), 'w').write('\n'.join(log_parts))

    violations = []      # (text, replay body)
    known_lines = []
    summ = None
    model_cases = 0
    mismatches = []
    if exe is None:
        broken.append(err)
    else:
        runs = [(exe, 'release')] + ([(exe_dbg, 'debug')] if exe_dbg else [])
        for which, (binary, prof) in enumerate(runs):
            cmd = [binary, cfg['driver'], '--seed', str(seed + which), '--tier', tier if which == 0 else 'quick',
                   '--cases', cases, '--summary', summary_path]
            if replay:
                cmd += ['--replay', replay]
            try:
                rc, out = sh(['timeout', '3000'] + cmd, timeout=3100)
            except subprocess.TimeoutExpired:
                rc, out = 124, 'harness timed out'
            if rc != 0 or not os.path.exists(summary_path):
                inflight = None
                try:
                    inflight = open(cases + '.inflight').read() or None
                except OSError:
                    pass
                violations.append(("harness run (%s build) ended abnormally rc=%s while running: %s %s" % (prof, rc, inflight, out[-300:]),
                                   dict(input=inflight, observed="abnormal termination (abort, stack overflow or crash) rc=%s" % rc,
                                        expected="normal termination", oracle="direct: harness completes")))
                continue
            s = json.load(open(summary_path))
            if summ is None:
                summ = s
            else:
                summ['evaluations'] += s['evaluations']
                summ['failures'] += s['failures']
                for k, v in s['known_hits'].items():
                    summ['known_hits'][k] = summ['known_hits'].get(k, 0) + v
            if not rp:
                done, mm = run_runner(cases)
                model_cases += done
                mismatches += mm
        if mismatches:
            broken.append("correspondence: %d of %d cases disagree between the Coq model and the implementation, e.g. %s"
                          % (len(mismatches), model_cases, mismatches[0][:400]))

    known, fixed = load_known(pid)
    if summ:
        for f in summ['failures']:
            if f.get('known') and f['known'] in known:
                continue
            violations.append(("%s: input %s observed %s expected %s" % (f['oracle'], f['input'][:200], f['observed'][:120], f['expected'][:120]),
                               dict(input=f['input'], observed=f['observed'], expected=f['expected'], oracle="direct: " + f['oracle'],
                                    known_class_claimed=f.get('known'))))
        for cls, e in known.items():
            known_lines.append("KNOWN-FINDING: property=%s %s [class %s; witness %s; hit %d times in this run]"
                               % (pid, e['what'], cls, e['witness'], summ['known_hits'].get(cls, 0)))

    wall = time.time() - t0
    exit_code = 0
    for l in known_lines:
        print(l)
    nrep = 0
    if violations:
        text, body = violations[0]
        body['broken'] = broken
        body['other_violations'] = [v[0] for v in violations[1:20]]
        path = write_replay(pid, seed, nrep, 'failing-input', body)
        print("VIOLATION property=%s replay=%s" % (pid, path))
        print("  " + text[:600])
        exit_code = 1
    elif broken:
        path = write_replay(pid, seed, nrep, 'no-failing-input-found',
                            dict(broken=broken, searched=dict(evaluations=summ['evaluations'] if summ else 0, model_cases=model_cases),
                                 mismatch_examples=mismatches[:10]))
        print("VIOLATION property=%s replay=%s no-failing-input-found" % (pid, path))
        for b in broken[:6]:
            print("  broken: " + b[:500])
        exit_code = 1

    coverage = dict(
        obligations=obligations, discharged=discharged if not [b for b in broken if b.startswith('proof') or b.startswith('axioms') or b.startswith('forbidden') or b.startswith('untranslatable')] else min(discharged, max(0, obligations - 1)),
        checker_cmd="python3 tools/translate.py && make -C coq -j16 Properties/%s.vo (coqc 8.16.1, full .vo build; Print Assumptions on every theorem%s)" % (pid, "; coqchk -o on the compiled cone" if thorough else ""),
        trusted_base=TRUSTED_BASE,
        evaluations=summ['evaluations'] if summ else 0,
        distinct_nontrivial=summ['distinct_nontrivial'] if summ else 0,
        rule=summ['rule'] if summ else '',
        samples=(summ['samples'] if summ else []) or ["(no samples)"],
        histogram=summ['histogram'] if summ else {},
        exhaustive_parts=summ['exhaustive'] if summ else [],
        model_cases_compared=model_cases,
        model_mismatches=len(mismatches),
        direct_oracle_failures=len(summ['failures']) if summ else 0,
        known_finding_hits=summ['known_hits'] if summ else {},
        broken=broken,
        notes=summ['notes'] if summ else [],
    )
    ev = dict(property_id=pid, tier=tier, seed=seed, level='proof', coverage=coverage,
              assumptions=["usize is 64 bits on the host that runs the harness (asserted at start-up)",
                           "the Coq model is tied to /repo by the translator (coq/Gen) and by differential execution of the extracted model (correspondence), not by a proof about the Rust code"],
              wall_s=round(wall, 2), violations=len(violations) + (1 if (broken and not violations) else 0))
    with open(os.path.join(ROOT, 'evidence', pid + '.json'), 'w') as f:
        json.dump(ev, f, indent=1)
    print("%s %s tier=%s seed=%d obligations=%d discharged=%d evaluations=%d model_cases=%d mismatches=%d wall=%.1fs"
          % (pid, 'OK' if exit_code == 0 else 'FAIL', tier, seed, obligations, coverage['discharged'], coverage['evaluations'], model_cases, len(mismatches), wall))
    return exit_code


if __name__ == '__main__':
    sys.exit(main())
