#!/usr/bin/env python3
"""Regenerates MANIFEST.json from the table below (kept in one place so that the claimed
checks, the not_applicable list and properties.jsonl never drift apart)."""
import json
import os

ROOT = os.path.dirname(os.path.dirname(os.path.abspath(__file__)))
TECH = "machine-checked proof in Coq 8.16 over an executable model tied to the source (translator + differential correspondence of the extracted model)"
NOTE = ("trusted: Coq 8.16.1 kernel (no axioms: every theorem closed under the global context), extraction (ExtrOcamlBasic only), "
        "tools/translate.py, the OCaml runner and the Rust harness; modelled rather than verified: ")

CLAIMED = {
    'C01': dict(
        text="C01_roundtrip: for every value of every shape over the 29 serde kinds and every following byte string, de_slice t (enc v ++ rest) = Ok (v, rest), by induction over the value tree on the bit-level model of the varint/zig-zag code whose loop constants and expressions are regenerated from the source on every run; the harness runs 5 encode x 3 decode entry points of the real crate on generated shapes/values (direct round-trip oracle) and the extracted model is compared on the same inputs. C01_encoder_is_the_method_bodies / C01_decoder_is_the_method_bodies: the encoder and decoder of these theorems are what the bodies of the serializer's and deserializer's methods, read from ser/serializer.rs and de/deserializer.rs on every run and interpreted step by step, compute.",
        note=NOTE + "serde's data-model plumbing (visitors, derive), from_utf8/encode_utf8, to_le_bytes; heapless/alloc/io storage entry points are covered by the harness oracle (their models arrive with C05/C11)",
        design="4 (C01)"),
    'C02': dict(
        text="C02_encode_is_spec: enc v = spec_enc v for every typed value, where spec_enc is written from wire-format.md with div/mod only; canonical varints (valid and minimal), zig-zag equals the arithmetic definition, usize = u64, unknown lengths refused with nothing emitted, collect_str = str; GenLoops/GenArith tie the theorems to the current source text. Direct oracle: independent Rust encoder from the spec. C02_model_is_the_method_bodies: the serializer model is, clause by clause, the interpretation of the method bodies translated from ser/serializer.rs (30 serialize_* methods, 5 varint helpers, 8 element methods; collect_str by template).",
        note=NOTE + "serde's Serialize impls for the values the harness constructs; collect_str's Display is a list of pieces",
        design="4 (C02)"),
    'C03': dict(
        text="C03_de_is_spec: on every byte string and every shape the implementation-shaped bit-level decoder equals the arithmetic reference decoder spec_de written from wire-format.md (acceptance, value, remainder, error kind); C03_varint_exact: the reference varint reader accepts exactly the permitted encodings incl. non-minimal ones (iff with the declarative valid_varint); C03_varint_errors classifies truncation vs bad varint; C03_accepts_encodings: every encoding is accepted with the remainder untouched. C03_remaining_bytes_irrelevant: a successful decode consumes a prefix that alone determines the result; C03_strict_prefix_unexpected_end: every strict prefix of a valid message of any shape fails with unexpected-end (every reader is a local parser; locality is closed under sequencing and iteration). Direct oracle: independent Rust decoder from the spec, exhaustive short strings. C03_model_is_the_method_bodies: the decoder model is, clause by clause and for every lawful flavour, the interpretation of the method bodies translated from de/deserializer.rs (31 deserialize_* methods, VariantAccess, variant_seed; SeqAccess/MapAccess by template).",
        note=NOTE + "serde visitors (DynVal shape-directed seeds in the harness), from_utf8",
        design="4 (C03)"),
    'C04': dict(
        text="C04_total_in_bounds: for every byte string and shape, the decoder over the raw-pointer slice flavour (cursor/end indices; an out-of-range read is Fault, an over-wide shift or bad slice is Panic) equals the reference decoder and returns a value or an error only - proved through a generic flavour-simulation theorem (de_sim) and the invariant cursor <= end = len; borrowed strings/bytes are the sub-list of the input at the cursor (C04_borrowed_in_input); the sequence size hint never exceeds the remaining bytes (C04_hint_sound, rule translated from the source); C04_decoded_size_linear: for every shape without zero-width collection elements and every input, whatever lengths it claims, the size of the value a successful decode returns (nodes + string/byte content) is at most slope(shape) * consumed bytes + offset(shape) - the allocation clause for successful decodes, by a compositional 'bounded parser' argument in which every loop round consumes at least one byte. Partial: the machine-level effect of the unsafe reads and the real allocator are observed by the harness (inputs flush against PROT_NONE pages on either side, counting allocator, adversarial length prefixes), not proved.",
        note=NOTE + "the unsafe pointer reads themselves (indices into a list in the model), serde's collection visitors and size_hint::cautious, the allocator",
        design="4 (C04)"),
    'C05': dict(
        text="C05_slice / C05_heapless / C05_slice_cobs / C05_heapless_cobs / C05_slice_crc / C05_heapless_crc: for every ordinary value and every capacity, serialising into a caller slice (raw start/cursor/end pointers, a stray write is Fault) or a fixed-capacity vector, plain or under COBS or CRC framing, succeeds exactly when capacity >= length of the complete output, then returns exactly the unbounded output at the front with the rest of the buffer untouched, and otherwise returns buffer-full - never Panic/Fault; C05_growable, C05_size. Proved once for any 'lawful sink' and instantiated per storage. Correspondence + direct oracle: every capacity 0..len+2 for every generated value, slices flush against PROT_NONE pages, canaries.",
        note=NOTE + "heapless::Vec push/extend_from_slice (all-or-nothing), alloc::Vec, the unsafe pointer writes (indices in the model; guard pages in the harness)",
        design="4 (C05)"),
    'C06': dict(
        text="C06_output_is_cobs: the streaming COBS encoder with placeholder back-patching produces exactly cobs_ref (the block definition) of the plain encoding plus the sentinel, on every storage that fits; C06_one_zero, C06_length (n + floor(n/254) + 2: exact for zero-free messages, upper bound otherwise), C06_roundtrip, C06_frames / C06_frames_no_last_sentinel (frame-at-a-time decoding of back-to-back frames returns each value in order with exactly the bytes after its frame). Direct oracle: independent COBS encoder; exhaustive short messages over {00,01,02,FF}, run lengths around multiples of 254.",
        note=NOTE + "crate cobs 0.2.3 EncoderState (transcribed from enc.rs, compared on every case)",
        design="5 (C06)"),
    'C07': dict(
        text="C07_decoder_is_reference: for every buffer the in-place decoder of crate cobs (modelled index by index on one buffer, every access checked) computes exactly the reference COBS decoding of the first frame, fails exactly when a code byte points past the frame, keeps the buffer length and leaves everything from the frame end on untouched (invariant: the write index trails the read index); C07_take_from_bytes_cobs / C07_from_bytes_cobs: the entry points equal reference-decode-then-plain-decode with the remainder starting right after the sentinel; C07_total: never Panic/Fault/out-of-fuel on any bytes. Direct oracle: independent COBS decoder + plain decoder on exhaustive strings over a code-byte alphabet, corruptions and truncations, buffers flush against guard pages.",
        note=NOTE + "crate cobs 0.2.3 decode_in_place / decode_in_place_report (transcribed from dec.rs, compared on every case)",
        design="5 (C07)"),
    'C08': dict(
        text="C08_every_chunking: for EVERY list of chunks (the chunking is universally quantified), capacity and target type, driving the documented feed loop chunk by chunk reports exactly the events of a byte-stream reference semantics on the concatenation and leaves exactly its tail buffered, provided every segment and the tail fit; C08_one_result_per_frame / C08_exactly_once: on a stream of zero-terminated segments that is one result per zero byte in order, equal to decoding each segment in isolation; C08_conservation: remainder = tail of the chunk. Correspondence: every feed call of every explored chunking compared with the model including the implementation's buffered bytes (cfg hook); exhaustive chunkings of short streams. C08_step_is_the_source: the accumulator step these theorems are about equals, on every state and chunk, the interpretation of the statement tree of CobsAccumulator::feed_ref translated from accumulator.rs on every run.",
        note=NOTE + "from_bytes_cobs is the C07-verified model; const-generic capacities instantiated finitely in the harness",
        design="5 (C08)"),
    'C09': dict(
        text="C09_feed_total (no panic / out-of-range slice for any state and input, capacity preserved), C09_reset_after_zero (initial state after every zero byte; remainder = what follows it), C09_overflow_reported (an over-long segment yields an OverFull event under every chunking), C09_loop_terminates (the documented loop never exhausts 2*len+2 iterations for capacity >= 1) and C09_capacity_zero_stalls (why >= 1). Correspondence and direct oracles on streams with over-long segments, garbage, capacity = frame-1/frame/frame+1, exhaustive chunkings. C09_step_is_the_source: the accumulator step these theorems are about equals, on every state and chunk, the interpretation of the statement tree of CobsAccumulator::feed_ref translated from accumulator.rs on every run.",
        note=NOTE + "as C08",
        design="5 (C09)"),
    'C10': dict(
        text="C10_output (frame = plain ++ le(crc(plain))), C10_roundtrip, C10_accept_sound (whatever CRC-checked decoding accepts: consumed bytes followed by their correct checksum, value and length those of plain decoding; by simulation of the CRC modifier with a consumption-tracking slice), C10_checksum_pinned, C10_crc_bound; C10_burst_detected (any two messages whose register bit streams differ only inside a window of at most `width` bits have different checksums, for every width/polynomial with non-zero constant term/init/reflection/xorout: linearity of the shift register + injectivity of the zero-input step), C10_single_bit_detected, C10_burst_rejected and C10_bit_flip_rejected (the frame-level consequence: same trailing bytes, corrupted payload, not accepted); the algorithm hypotheses are the executable alg_okb, evaluated by the correspondence on the 10 catalogue algorithms the driver uses. The harness additionally applies every single-bit flip and bursts <= width in the algorithm's bit order to every sampled frame and recomputes checksums with an independent bitwise CRC.",
        note=NOTE + "crate crc (table-driven Digest) as the bitwise Rocksoft model, compared on every frame",
        design="5 (C10)"),
    'C11': dict(
        text="C11_to_io_is_encode / C11_to_io_failure / C11_writer_prefix (writer receives exactly the plain encoding; a failing writer gives an error and holds a prefix), C11_from_io_is_slice (reader path = slice path, reader left holding exactly the bytes after the message), C11_from_io_total (any failing reader, any scratch size: value or error, never a panic or a write outside the scratch), C11_scratch_slots (borrowed data in consecutive disjoint slots); C11_any_chunking_is_slice: for EVERY schedule by which a reader hands over its data piecewise (any chunk sizes, any interruptions), decoding through std's read_exact loop (modelled, IoChunks.v) equals slice decoding and consumes exactly the message; C11_any_schedule_total: with end-of-stream reports or failures at any call it is a value or an error and the loop terminates. The modelled loop is tied to the real one by replaying, event by event, what the harness's reader did on each run (op fromioc). C11_any_write_chunking_is_encode / C11_any_write_schedule_total: the same for std's write_all loop over a writer that accepts data piecewise (op toioc). Partial: both loops are std's (modelled, tied by replay); the embedded-io adapters are not built; the harness drives real std::io readers/writers with 1-byte/short/whole schedules, interruptions and failure injection at every offset.",
        note=NOTE + "std::io::{Read::read_exact, Write::write_all, flush}; embedded-io adapters are not yet exercised",
        design="6 (C11)"),
    'C12': dict(
        text="C12_bound: for every type expression over all built-in MaxSize impls (integers, NonZero*, floats, bool, char, unit, PhantomData, Option, Result, arrays, references, Box/Rc/Arc, tuples 1-6, ranges, heapless Vec/String of any capacity) and the derive (structs: sum of fields; enums: discriminant width + max over variants), every value of the type serialises to at most max_size bytes, where max_size EVALUATES the impl rows translated from max_size.rs on every run with varint_max/varint_size/max/varint_size_discriminant translated from the sources; C12_varint_size / C12_discriminant: the two size helpers bound the prefix/discriminant varints (leading_zeros arithmetic with wrap-around discharged); C12_tight: for integers, floats, bool, char, unit, arrays, tuples, options, fixed-capacity strings/vectors (and wrappers/derived structs of those) an explicit value attains the maximum; C12_enum_not_tight example. Correspondence + direct oracle: about 130 concrete types using the WORKSPACE derive: T::POSTCARD_MAX_SIZE vs the model, serialized_size of maximising and random values <= the constant, to_slice into a buffer of that size, captured values typed by the model, tightness attained.",
        note=NOTE + "serde's impls for the corpus types (captured by a recording serializer and compared with the model's typing), the proc-macro expansion of the derive (its rule is hand-modelled; its output is compared on the corpus incl. enums with 0,1,2,4,127,128,129 variants)",
        design="6 (C12)"),
    'C13': dict(
        text="C13_ops/C13_bytes/C13_length/C13_roundtrip: for every width, sign, byte order and integer a fixint field serialises as exactly size_of raw pushes in the chosen order (never a varint) and decodes back; the extracted model is compared with the real crate on every generated value and the direct oracle (bytes == to_{le,be}_bytes, round trip) runs on the implementation.",
        note=NOTE + "serde's [u8;N] impl (array as tuple) and to_le_bytes/from_le_bytes",
        design="6 (C13)"),    'C14': dict(
        text="C14_conforms_typed: for EVERY schema tree and EVERY tree of named data-model items, if the items conform to the schema (kinds, field names and order, variant names and indices, arity, element types; the Schema kind = a serialised schema tree) then the erased value has exactly the shape the schema prescribes; C14_schema_reader_exact: hence a reader that knows nothing but the schema parses the value's encoding followed by any bytes, consuming exactly the encoding (through the round-trip theorem of C01). Per-type layer: C14_builtin_rows_total and C14_builtin_rows_conform: for every type expression over the built-in impls (and the plain derive forms), at any nesting, the schema that the `impl Schema for X` rows TRANSLATED FROM THE SOURCE ON EVERY RUN build for it is one that the items a value of the type serialises as (hand model of serde's Serialize impls, emit_ok) conform to; C14_alias_rows: the alloc / heapless 0.8 rows equal the std / heapless 0.7 rows. The model's reading of the rows (schema_of) is compared with the real T::SCHEMA of every corpus type, and emit_ok with the serde call tree recorded from every corpus value, on every run. Partial on the 'programs' axis: that rustc, serde, serde_derive and the Schema derive make a particular Rust type emit what emit_ok describes is not a theorem; it is decided per (type, value) by running the extracted `conforms`, `emit_ok` and `schema_skip` and an independent Rust conformance checker on the serde call trees captured by a recording serializer for a corpus covering every built-in impl and the workspace derive.",
        note=NOTE + "rustc + serde impls + serde_derive + the Schema derive (their joint output is captured at run time, not modelled); nalgebra integration not built in the harness",
        design="7 (C14)"),
    'C15': dict(
        text="C15_decl_agree: the borrowed (mod.rs) and owned (owned.rs) enum/struct declarations, as the translator reads them on every run, agree variant for variant and field for field; C15_conversion_faithful: the From<&DataModelType> family, interpreted from its translated arm tables, is the identity on the common tree view (every kind, name, order, nesting preserved) for every schema tree; C15_same_bytes: both forms serialise to identical bytes; C15_roundtrip: those bytes followed by anything decode (owned enum unfolded deep enough) to the conversion, consuming exactly them; C15_read_back: the decoded value determines the tree; C15_decoder_complete: the executable schema decoder used by the runner returns the tree and what follows (every level of nesting costs at least one byte). Correspondence + direct oracles: random trees over all 26+4 kinds with random names, leaked to 'static; bytes vs an independent encoder; conversion vs directly built owned tree; truncated/mutated bytes vs the model's decoder.",
        note=NOTE + "serde derive(Serialize/Deserialize) on the four schema types (modelled from the declarations: variant index = declaration order, fields in declared order); Box/slice/str plumbing of the conversions",
        design="7 (C15)"),
    'C16': dict(
        text="C16_const_is_documented / C16_owned_is_documented: each of the two schema walks of key/hash.rs, interpreting the tag table translated from ITS OWN copy of the code and the FNV constants translated from the source, yields le_bytes 8 (FNV-1a64 (path ++ documented stream)) for every schema tree and path; C16_hashers_agree; C16_type_names_ignored: struct/enum type names never enter the key; C16_one_byte_changes_key: every FNV-1a step is a bijection of the 64-bit state and injective in the byte (inverse of the prime exhibited), so changing exactly one hashed byte (path byte, name byte, kind tag - C16_tags_distinct) always changes the key. Partial: collision-freeness for longer edits is not a theorem (2^64 keys); order sensitivity is FALSE on the unchanged tree (C16_order_sensitivity_refuted, C16_swap_condition; known finding F10). Correspondence + direct oracle: const hasher (cfg hook) vs run-time hasher vs independent FNV over an independent stream function, every single-node mutation.",
        note=NOTE + "the const-fn evaluation of the hasher by rustc (the hook runs the same function at run time); Key::for_path::<T> checked against the hook on a corpus",
        design="7 (C16)"),
    'C17': dict(
        text="C17_encode_agrees: for every schema tree s and every tree v of named data-model items that conforms to s (C14's `conforms`), is unambiguous (integers within i64/u64, finite floats, string-keyed maps with ascending keys) and in scope (no embedded-schema kind, nothing nullable directly inside Option, distinct field and variant names), to_stdvec_dyn's model on json_of v (the hand model of serde_json::to_value) returns exactly the static encoder's bytes enc (erase v) - by nested induction over v, using the translated private varint/zig-zag copies (= the core's, C17_private_copies_agree), key-order lemmas for serde_json's sorted maps, and the single float fact narrow (widen b) = b as an explicit hypothesis. C17_decode_agrees: under the same hypotheses (plus small_seqs: sequences/maps of at most 65536 elements, which only matters for zero-width elements = known finding F9) from_slice_dyn's model on the static bytes returns exactly json_of v - both directions are theorems for every schema and every conforming value. Correspondence: for every tested (type, value) the harness checks to_stdvec_dyn(schema, to_value(v)) == to_allocvec(v), from_slice_dyn(schema, bytes) == to_value(v), and against the extracted model: dyn_ser, dyn_de, json_of == to_value on the captured items, in_scope/unamb/conforms all true (so the theorem's hypotheses hold on the tested inputs); 0 disagreements on ~16k cases per quick run.",
        note=NOTE + "serde_json (Value, Number, Map ordering, to_value: hand-modelled as json_of and compared on every captured value), the host's float conversions (parameters of the model; OCaml floats in the runner; the theorem assumes only narrow (widen b) = b), the control structure of the two walks (hand-modelled, compared on every run)",
        design="8 (C17)"),
    'C18': dict(
        text="C18_decode_total: for every well-formed schema tree and every byte string from_slice_dyn's model never panics (no todo!/unreachable arm in the translated table, no over-wide shift in the private varint reader, every take_one/take_n/get checked) and every remainder it passes on is a suffix of the input; C18_encode_total: to_stdvec_dyn's model never panics for every schema and every JSON value; C18_private_reader: the private varint reader = the reference reader of the wire format. C18_reencode: for every well-formed schema of any depth outside the classes of F7/F8 (reenc_scope) and every JSON value serde_json can hold (json_wf: UTF-8 strings, ascending keys, finite floats, at most 65536 entries per array/object), whatever to_stdvec_dyn's model accepts, from_slice_dyn's model decodes and re-encodes to the same bytes (induction over the schema; float conversions of the host enter as three hypotheses); reenc_scope and json_wf are tied to the harness's own classification and to every generated serde_json value by the correspondence (op reencscope). Partial: the allocation bound and the re-encode clause are FALSE on the unchanged tree for three classes (C18_allocation_bound_refuted, C18_reencode_refuted_option, C18_reencode_refuted_duplicate_fields = known findings F9, F7, F8); the allocation bound outside F9 is decided by the harness (counting allocator) and the model's DUnbounded outcome on ~18k cases per run, not by a theorem.",
        note=NOTE + "serde_json, the host's float conversions (parameters of the model), the allocator; the control structure of the two walks is hand-modelled and compared with the crate on every run",
        design="8 (C18)"),
    'C19': dict(
        text="C19_render_total: to_pseudocode/Display (hand-modelled control structure over the string literals and panic-arm tables translated from fmt.rs) returns text for every well-formed schema; C19_used_types_total: all_used_types answers for every schema incl. Usize/Isize/Schema (no panicking arm in the translated table - false before fix e6c0fbb); C19_used_types_exact: the collected set is exactly the schema and everything nested in it (subschema relation), nothing else; C19_struct_mentions / C19_enum_mentions: the top-level rendering contains the type name, each field name and each variant name as infixes. Correspondence + direct oracle: text compared byte for byte, set compared with an independent nesting function, catch_unwind.",
        note=NOTE + "String/format!/HashSet of std; the formatter's control structure is hand-modelled (its literals and panic arms are translated)",
        design="7 (C19)"),
    'C20': dict(
        text="C20_crc_inside_cobs: Crc<Cobs<storage>> outputs the COBS frame of (plain bytes ++ their checksum); C20_cobs_any_storage / C20_crc_any_storage: each modifier is its transformation of the plain encoding on slice, heapless and growable storage alike; C20_unstack: undoing the layers in reverse order recovers the value; C20_user_flavour: a user flavour receives exactly the plain encoding in order, with or without a try_extend override. Direct oracle: independent COBS/CRC transforms composed over to_allocvec's bytes.",
        note=NOTE + "crates cobs and crc as above; the recording user flavour stands for any user flavour (it sees the call sequence)",
        design="5 (C20)"),
}


def main():
    props = [json.loads(l) for l in open(os.path.join(ROOT, 'properties.jsonl'))]
    checks = []
    for p in props:
        pid = p['id']
        if pid not in CLAIMED:
            continue
        c = CLAIMED[pid]
        checks.append(dict(
            property_id=pid,
            quick_cmd="python3 tools/check.py %s --tier quick" % pid,
            thorough_cmd="python3 tools/check.py %s --tier thorough" % pid,
            evidence_file="/verif/evidence/%s.json" % pid,
            replay_cmd_template="python3 tools/check.py %s --replay {path}" % pid,
            engine="coq-proof+correspondence",
            level_claimed=dict(category="proof", text=c['text'], design_ref=c['design']),
            level_note=c['note'],
            technique=TECH))
    na = [dict(property_id=p['id'], reason="check not built yet in this round (planned in DESIGN.md section 14); not a claim that the technique cannot apply")
          for p in props if p['id'] not in CLAIMED]
    m = dict(
        version=1,
        setup_cmd="sh tools/setup.sh",
        hooks=dict(guard="--cfg postcard_verif",
                   enable="RUSTFLAGS=\"--cfg postcard_verif\" (set by tools/check.py and tools/setup.sh when they build harness/ against /repo)",
                   baseline_off_cmd="cd /repo && cargo test --workspace --no-fail-fast --offline",
                   source_commits=HOOK_COMMITS, add_only=True),
        engines=[dict(name="coq-proof+correspondence", path="/verif/tools/check.py", serves_properties=sorted(CLAIMED.keys()),
                      kind_free_text="Coq 8.16 theorems over an executable model tied to the source by tools/translate.py (coq/Gen regenerated every run), extracted to OCaml (runner/) and run against the real crates by harness/ (Rust), which also evaluates each property's direct oracle on the implementation")],
        checks=checks,
        notes="See DESIGN.md. Repairs of genuine defects in /repo are listed in known_findings.jsonl (fixed: lines).",
        not_applicable=na)
    with open(os.path.join(ROOT, 'MANIFEST.json'), 'w') as f:
        json.dump(m, f, indent=1)


HOOK_COMMITS = ["3177503"]

if __name__ == '__main__':
    main()
