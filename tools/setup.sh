#!/bin/sh
# Run once after a fresh restore, offline: builds the whole framework from files on disk.
set -e
cd "$(dirname "$0")/.."
export CARGO_NET_OFFLINE=true
REPO="${VERIF_REPO:-/repo}"
mkdir -p work evidence replays coq/Gen
python3 tools/translate.py || true
( cd coq && coq_makefile -f _CoqProject -o Makefile >/dev/null && timeout 3000 make -j16 )
sh runner/build.sh
sed "s#@REPO@#$REPO#g" harness/Cargo.toml.in > harness/Cargo.toml
[ -f harness/Cargo.lock ] || cp "$REPO/Cargo.lock" harness/Cargo.lock
( cd harness && RUSTFLAGS="--cfg postcard_verif" cargo build --offline --release --quiet --target-dir target )
( cd harness && RUSTFLAGS="--cfg postcard_verif" cargo build --offline --quiet --target-dir target )
echo "setup done"
