import sys
pid, n, hint = sys.argv[1], sys.argv[2], sys.argv[3]
prop = open('/tmp/prop_%s.txt' % pid).read()
print(f"""You are helping test a verification framework by producing a subtle, realistic BUG in a Rust library. Work ONLY inside the git worktree /tmp/seed{n} (a checkout of the `postcard` serde binary serializer workspace: crates under /tmp/seed{n}/source/postcard, postcard-schema, postcard-dyn, postcard-derive). Do not touch /repo or /verif and do not read anything under /verif. There is no network; use `cargo ... --offline`.

The library is supposed to satisfy this property:

---
{prop}---
({hint})

Your task: make a SMALL source change (a few lines, under /tmp/seed{n}/source) that BREAKS this property, such that:
1. the workspace still compiles and ALL existing tests still pass: run `cd /tmp/seed{n} && cargo test --workspace --offline` and confirm every test passes with your change;
2. the bug needs something specific to manifest - an unusual input, a boundary value, a particular capacity or chunking or multi-step sequence of operations, a specific error path, or two cooperating sites that each look fine alone - NOT something ordinary use would expose at once;
3. it looks like a plausible mistake or "optimisation" a maintainer could make.

Also write a demonstration: a small Rust integration test file (in the `tests/` directory of the crate you changed, e.g. /tmp/seed{n}/source/postcard/tests/seed_demo.rs, using only the public API) that FAILS with your change and PASSES on the original code. Verify both: run it with your change (must fail), then save your change with `git diff -- source > patch.diff` and undo it with `git apply -R patch.diff` (never use `git stash`: the stash is shared between worktrees), run the test on the original (must pass), then re-apply with `git apply patch.diff`.

Finally produce:
- /tmp/seed{n}/patch.diff : `git diff` of the source change only (not the demo test), applicable with `git apply` from the repository root;
- /tmp/seed{n}/demo.rs : a copy of the demonstration test;
- /tmp/seed{n}/meta.json : {{"property":"{pid}","summary":"<one sentence: what the change does>","needs":"<what specific input/condition is needed for it to manifest>","files":["..."],"commands_run":["..."]}}.

Report back briefly: what you changed, the exact failing input or sequence, and confirmation that the existing test suite passes with the change and the demo fails with / passes without it.""")
