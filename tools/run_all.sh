#!/bin/sh
# runs every registered check (quick tier) on the current tree; used before committing evidence
cd "$(dirname "$0")/.."
for p in $(python3 -c "import json;print(' '.join(c['property_id'] for c in json.load(open('MANIFEST.json'))['checks']))"); do
  python3 tools/check.py $p --tier ${1:-quick} | tail -1
done
