"""One-off builder of tools/fn_templates.json: whole function bodies as token templates (locals and
parameters become `$name` holes: the match is up to consistent renaming).  Run once against the
source the hand model was written from; gen_fn_templates matches the current source against them."""
import json
import sys

sys.path.insert(0, '/verif/tools')
from rustexpr import strip_comments, find_fn, tokenize
from translate_methods import params_of
from mk_dyn_templates import locals_of

FNS = [('fmt', 'source/postcard-schema/src/schema/fmt.rs', ['is_prim', 'fmt_owned_dmt_to_buf', 'discover_tys']),
       ('dynser', 'source/postcard-dyn/src/ser.rs', ['to_stdvec_dyn', 'right', 'from']),
       ('dynde', 'source/postcard-dyn/src/de.rs', ['from_slice_dyn', 'right', 'take_one']),
       ('error', 'source/postcard/src/error.rs', ['@impl serde::ser::Error for Error']),
       ('key', 'source/postcard-schema/src/key/mod.rs', ['for_path', 'from_bytes', 'to_bytes', 'const_cmp', 'for_owned_schema_path']),
       ('derive_ms', 'source/postcard-derive/src/max_size.rs', ['do_derive_max_size', 'add_trait_bounds', 'max_size_sum', 'sum_fields']),
       ('derive_schema', 'source/postcard-derive/src/schema.rs', ['do_derive_schema', 'new', 'generate_type', 'generate_struct', 'generate_variants', 'add_trait_bounds'])]


def fn_template(text, name):
    if name.startswith('@'):
        # a region: from the marker to the end of the file
        body = text[text.index(name[1:]):]
        toks = [t[1] for t in tokenize(body)]
        loc = locals_of(toks)
    else:
        sig, body = find_fn(text, name)
        toks = [t[1] for t in tokenize(body)]
        loc = locals_of(toks) | set(params_of(sig))
    from translate import RUST_KEYWORDS
    loc = loc - RUST_KEYWORDS
    out, n = [], 0
    for t in toks:
        if t in loc:
            out.append('$' + t)
        elif t.startswith('"'):
            # string literals are translated separately (GenFmt.v): any literal may stand here
            n += 1
            out.append('?S%d' % n)
        else:
            out.append(t)
    return out


if __name__ == '__main__':
    out = {}
    for tag, path, names in FNS:
        text = strip_comments(open('/repo/' + path).read())
        out[tag] = {'path': path, 'fns': {n: fn_template(text, n) for n in names}}
        for n in names:
            print(tag, n, len(out[tag]['fns'][n]))
    json.dump(out, open('/verif/tools/fn_templates.json', 'w'), indent=1, sort_keys=True)
