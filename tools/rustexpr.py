"""A small Rust fragment reader: tokenizer, function extractor and a typed expression
translator for the straight-line integer functions of postcard (zig-zag, varint_max,
max_of_last_byte, varint_size, ...).  Output: Gallina terms over PV.Model.MachineInt.

Only what those fragments use is supported; anything else raises Untranslatable, which
the check treats like a broken proof obligation."""
import re


class Untranslatable(Exception):
    pass


TOKEN_RE = re.compile(r"""
    (?P<ws>\s+)
  | (?P<lcomment>//[^\n]*)
  | (?P<bcomment>/\*.*?\*/)
  | (?P<num>0x[0-9a-fA-F_]+|0b[01_]+|0o[0-7_]+|[0-9][0-9_]*)(?P<suffix>(?:u|i)(?:8|16|32|64|128|size))?
  | (?P<ident>[A-Za-z_][A-Za-z0-9_]*)
  | (?P<str>"(?:[^"\\]|\\.)*")
  | (?P<char>'(?:[^'\\]|\\.)')
  | (?P<life>'[A-Za-z_][A-Za-z0-9_]*)
  | (?P<op>::|<<=|>>=|\.\.=|\.\.|<<|>>|<=|>=|==|!=|&&|\|\||->|=>|\+=|-=|\*=|/=|%=|\^=|&=|\|=|[-+*/%^&|!<>=(){}\[\];:,.#?@$~])
""", re.X | re.S)


def tokenize(src):
    toks = []
    pos = 0
    while pos < len(src):
        m = TOKEN_RE.match(src, pos)
        if not m:
            raise Untranslatable("cannot tokenize at %r" % src[pos:pos + 20])
        pos = m.end()
        k = m.lastgroup
        if m.group('ws') is not None or m.group('lcomment') is not None or m.group('bcomment') is not None:
            continue
        if m.group('num') is not None:
            toks.append(('num', m.group('num'), m.group('suffix')))
        elif m.group('ident') is not None:
            toks.append(('id', m.group('ident'), None))
        elif m.group('str') is not None:
            toks.append(('str', m.group('str'), None))
        elif m.group('char') is not None:
            toks.append(('char', m.group('char'), None))
        elif m.group('life') is not None:
            toks.append(('life', m.group('life'), None))
        else:
            toks.append(('op', m.group('op'), None))
    return toks


def strip_comments(src):
    """remove // and /* */ comments (not inside string literals; good enough here)"""
    out = []
    i = 0
    n = len(src)
    while i < n:
        c = src[i]
        if c == '"':
            j = i + 1
            while j < n and src[j] != '"':
                if src[j] == '\\':
                    j += 1
                j += 1
            out.append(src[i:j + 1])
            i = j + 1
        elif src.startswith('//', i):
            j = src.find('\n', i)
            if j < 0:
                j = n
            i = j
        elif src.startswith('/*', i):
            j = src.find('*/', i)
            i = j + 2 if j >= 0 else n
        else:
            out.append(c)
            i += 1
    return ''.join(out)


def find_fn(src, name, occurrence=0):
    """return (signature_text, body_text) of the occurrence-th `fn name` in src"""
    pat = re.compile(r'\bfn\s+' + re.escape(name) + r'\b')
    ms = list(pat.finditer(src))
    if occurrence >= len(ms):
        raise Untranslatable("fn %s (occurrence %d) not found" % (name, occurrence))
    m = ms[occurrence]
    i = src.index('{', m.end())
    sig = src[m.start():i]
    depth = 0
    j = i
    while j < len(src):
        if src[j] == '{':
            depth += 1
        elif src[j] == '}':
            depth -= 1
            if depth == 0:
                return sig, src[i + 1:j]
        j += 1
    raise Untranslatable("unbalanced braces in fn %s" % name)


def find_mod(src, name):
    """text of `mod name { ... }`"""
    m = re.search(r'\bmod\s+' + re.escape(name) + r'\s*\{', src)
    if not m:
        raise Untranslatable("mod %s not found" % name)
    i = m.end() - 1
    depth = 0
    j = i
    while j < len(src):
        if src[j] == '{':
            depth += 1
        elif src[j] == '}':
            depth -= 1
            if depth == 0:
                return src[i + 1:j]
        j += 1
    raise Untranslatable("unbalanced braces in mod %s" % name)


INT_TYPES = ['u8', 'u16', 'u32', 'u64', 'u128', 'usize', 'i8', 'i16', 'i32', 'i64', 'i128', 'isize']

BINOPS = {
    '*': (10, 'mul'), '/': (10, 'div'), '%': (10, 'rem'),
    '+': (9, 'add'), '-': (9, 'sub'),
    '<<': (8, 'shl'), '>>': (8, 'shr'),
    '&': (7, 'band'), '^': (6, 'bxor'), '|': (5, 'bor'),
    '==': (4, 'eq'), '!=': (4, 'ne'), '<': (4, 'lt'), '>': (4, 'gt'), '<=': (4, 'le'), '>=': (4, 'ge'),
}


def parse_num(text):
    t = text.replace('_', '')
    if t.startswith('0x'):
        return int(t, 16)
    if t.startswith('0b'):
        return int(t, 2)
    if t.startswith('0o'):
        return int(t, 8)
    return int(t)


class Parser:
    """expression AST: ('lit', n, ty|None) ('var', name) ('bin', op, a, b) ('neg', a)
    ('as', a, ty) ('sizeof', tyname) ('lz', a) ('call', name, [tyargs], [args])"""

    def __init__(self, toks):
        self.t = toks
        self.i = 0

    def peek(self, k=0):
        return self.t[self.i + k] if self.i + k < len(self.t) else ('eof', '', None)

    def next(self):
        tok = self.peek()
        self.i += 1
        return tok

    def expect(self, kind, val=None):
        tok = self.next()
        if tok[0] != kind or (val is not None and tok[1] != val):
            raise Untranslatable("expected %s %s, got %r" % (kind, val, tok))
        return tok

    def at(self, kind, val=None):
        tok = self.peek()
        return tok[0] == kind and (val is None or tok[1] == val)

    def expr(self, minprec=0):
        lhs = self.unary()
        while True:
            tok = self.peek()
            if tok[0] == 'id' and tok[1] == 'as':
                # `as` binds tighter than every binary operator
                self.next()
                ty = self.expect('id')[1]
                lhs = ('as', lhs, ty)
                continue
            if tok[0] == 'op' and tok[1] in BINOPS:
                prec, name = BINOPS[tok[1]]
                if prec < minprec:
                    break
                self.next()
                rhs = self.expr(prec + 1)
                lhs = ('bin', name, lhs, rhs)
                continue
            break
        return lhs

    def unary(self):
        if self.at('op', '-'):
            self.next()
            return ('neg', self.unary())
        return self.postfix(self.atom())

    def postfix(self, e):
        while True:
            if self.at('op', '.') and self.peek(1)[0] == 'id':
                meth = self.peek(1)[1]
                if self.peek(2) == ('op', '(', None):
                    self.next(); self.next(); self.next()
                    args = []
                    while not self.at('op', ')'):
                        args.append(self.expr())
                        if self.at('op', ','):
                            self.next()
                    self.expect('op', ')')
                    if meth == 'leading_zeros' and not args:
                        e = ('lz', e)
                    else:
                        e = ('method', meth, e, args)
                    continue
            if self.at('op', '['):
                self.next()
                idx = self.expr()
                self.expect('op', ']')
                e = ('index', e, idx)
                continue
            break
        return e

    def path(self):
        """ident(::ident|::<tys>)*  -> (names, tyargs)"""
        names = [self.expect('id')[1]]
        tyargs = []
        while self.at('op', '::'):
            self.next()
            if self.at('op', '<'):
                self.next()
                while not self.at('op', '>'):
                    tyargs.append(self.expect('id')[1])
                    if self.at('op', ','):
                        self.next()
                self.expect('op', '>')
            else:
                names.append(self.expect('id')[1])
        return names, tyargs

    def atom(self):
        tok = self.peek()
        if tok[0] == 'num':
            self.next()
            return ('lit', parse_num(tok[1]), tok[2])
        if tok[0] == 'op' and tok[1] == '(':
            self.next()
            e = self.expr()
            self.expect('op', ')')
            return e
        if tok[0] == 'id':
            names, tyargs = self.path()
            if self.at('op', '('):
                self.next()
                args = []
                while not self.at('op', ')'):
                    args.append(self.expr())
                    if self.at('op', ','):
                        self.next()
                self.expect('op', ')')
                if names[-1] == 'size_of' and len(tyargs) == 1 and not args:
                    return ('sizeof', tyargs[0])
                return ('call', names[-1], tyargs, args)
            if len(names) == 1:
                return ('var', names[0])
            return ('var', '::'.join(names))
        raise Untranslatable("unexpected token %r" % (tok,))


def gty(ty, generics):
    if ty in generics:
        return ty
    if ty in INT_TYPES:
        return ty
    raise Untranslatable("unsupported type %s" % ty)


class Typer:
    def __init__(self, env, generics):
        self.env = dict(env)       # name -> type name (or None for untyped const)
        self.generics = generics

    def infer(self, e):
        k = e[0]
        if k == 'lit':
            return e[2]
        if k == 'var':
            if e[1] not in self.env:
                raise Untranslatable("unknown variable %s" % e[1])
            return self.env[e[1]]
        if k == 'as':
            return gty(e[2], self.generics)
        if k == 'sizeof':
            return 'usize'
        if k == 'lz':
            return 'u32'
        if k == 'neg':
            return self.infer(e[1])
        if k == 'bin':
            if e[1] in ('shl', 'shr'):
                return self.infer(e[2])
            if e[1] in ('eq', 'ne', 'lt', 'gt', 'le', 'ge'):
                return 'bool'
            return self.infer(e[2]) or self.infer(e[3])
        if k == 'call':
            return CALL_RET.get(e[1])
        raise Untranslatable("cannot type %r" % (e,))

    def gen(self, e, expected=None):
        """Gallina term for e, at type `expected` when e itself is untyped"""
        k = e[0]
        if k == 'lit':
            return str(e[1]) if e[1] >= 0 else "(%d)" % e[1]
        if k == 'var':
            return e[1]
        if k == 'sizeof':
            return "(size_of %s)" % gty(e[1], self.generics)
        if k == 'as':
            inner_t = self.infer(e[1])
            return "(cast %s %s)" % (gty(e[2], self.generics), self.gen(e[1], inner_t))
        if k == 'lz':
            t = self.infer(e[1]) or expected
            if t is None:
                raise Untranslatable("leading_zeros on untyped value")
            return "(leading_zeros %s %s)" % (t, self.gen(e[1], t))
        if k == 'neg':
            t = self.infer(e[1]) or expected
            if t is None:
                raise Untranslatable("untyped negation")
            return "(neg %s %s)" % (t, self.gen(e[1], t))
        if k == 'bin':
            op = e[1]
            if op in ('shl', 'shr'):
                t = self.infer(e[2]) or expected
                if t is None:
                    raise Untranslatable("untyped shift")
                return "(%s %s %s %s)" % (op, t, self.gen(e[2], t), self.gen(e[3], None))
            if op in ('eq', 'ne', 'lt', 'gt', 'le', 'ge'):
                t = self.infer(e[2]) or self.infer(e[3])
                a, b = self.gen(e[2], t), self.gen(e[3], t)
                return {'eq': "(%s =? %s)", 'ne': "(negb (%s =? %s))", 'lt': "(%s <? %s)",
                        'gt': "(%s >? %s)", 'le': "(%s <=? %s)", 'ge': "(%s >=? %s)"}[op] % (a, b)
            t = self.infer(e) or expected
            if t is None:
                raise Untranslatable("untyped arithmetic %r" % (e,))
            return "(%s %s %s %s)" % (op, t, self.gen(e[2], t), self.gen(e[3], t))
        if k == 'call':
            if e[1] in CALL_RET:
                targs = ' '.join(gty(t, self.generics) for t in e[2])
                args = ' '.join(self.gen(a, None) for a in e[3])
                return "(%s %s %s)" % (e[1], targs, args)
            raise Untranslatable("unsupported call %s" % e[1])
        raise Untranslatable("cannot translate %r" % (e,))


CALL_RET = {'varint_max': 'usize', 'max_of_last_byte': 'u8'}


def translate_fn(src, name, coq_name=None, occurrence=0):
    """Translate `fn name<T: ..>(params) -> ret { consts; lets; [if c { return e; }] e }`"""
    sig, body = find_fn(src, name, occurrence)
    coq_name = coq_name or name
    generics = []
    m = re.match(r'fn\s+\w+\s*(?:<([^>]*)>)?\s*\(([^)]*)\)\s*(?:->\s*([A-Za-z0-9_]+))?', sig)
    if not m:
        raise Untranslatable("cannot read signature of %s" % name)
    if m.group(1):
        for g in m.group(1).split(','):
            g = g.strip().split(':')[0].strip()
            if g:
                generics.append(g)
    params = []
    if m.group(2).strip():
        for p in m.group(2).split(','):
            pn, pt = [x.strip() for x in p.split(':')]
            pn = pn.replace('mut ', '').strip()
            params.append((pn, gty(pt, generics)))
    ret = m.group(3)
    if ret is None:
        raise Untranslatable("fn %s has no return type" % name)
    ret = gty(ret, generics)
    toks = tokenize(body)
    p = Parser(toks)
    env = dict(params)
    ty = Typer(env, generics)
    lets = []
    early = None
    while True:
        if p.at('id', 'const'):
            p.next()
            cn = p.expect('id')[1]
            p.expect('op', ':')
            ct = gty(p.expect('id')[1], generics)
            p.expect('op', '=')
            e = p.expr()
            p.expect('op', ';')
            lets.append((cn, ty.gen(e, ct)))
            ty.env[cn] = ct
        elif p.at('id', 'let'):
            p.next()
            if p.at('id', 'mut'):
                raise Untranslatable("mutable binding in %s" % name)
            vn = p.expect('id')[1]
            vt = None
            if p.at('op', ':'):
                p.next()
                vt = gty(p.expect('id')[1], generics)
            p.expect('op', '=')
            e = p.expr()
            p.expect('op', ';')
            t = vt or ty.infer(e)
            if t is None:
                raise Untranslatable("cannot type let %s in %s" % (vn, name))
            lets.append((vn, ty.gen(e, t)))
            ty.env[vn] = t
        elif p.at('id', 'if'):
            if early is not None:
                raise Untranslatable("more than one early return in %s" % name)
            p.next()
            c = p.expr()
            p.expect('op', '{')
            p.expect('id', 'return')
            r = p.expr()
            p.expect('op', ';')
            p.expect('op', '}')
            early = (ty.gen(c, None), ty.gen(r, ret), len(lets))
        else:
            break
    final = p.expr()
    if not p.at('eof'):
        raise Untranslatable("trailing tokens in %s: %r" % (name, p.peek()))
    term = ty.gen(final, ret)
    # result is returned at type ret: literal arithmetic inside is already typed
    for idx in range(len(lets) - 1, -1, -1):
        if early is not None and early[2] == idx + 1:
            term = "if %s then %s else %s" % (early[0], early[1], term)
        term = "let %s := %s in %s" % (lets[idx][0], lets[idx][1], term)
    if early is not None and early[2] == 0:
        term = "if %s then %s else %s" % (early[0], early[1], term)
    binders = ''.join(" (%s : ity)" % g for g in generics) + ''.join(" (%s : Z)" % pn for pn, _ in params)
    return "Definition %s%s : Z := %s." % (coq_name, binders, term)


def translate_const(src, name, coq_name=None):
    m = re.search(r'\bconst\s+' + re.escape(name) + r'\s*:\s*(\w+)\s*=\s*([^;]+);', src)
    if not m:
        raise Untranslatable("const %s not found" % name)
    toks = tokenize(m.group(2))
    p = Parser(toks)
    e = p.expr()
    ty = Typer({}, [])
    return "Definition %s : Z := %s." % (coq_name or name, ty.gen(e, gty(m.group(1), [])))
