"""Translators for the schema side: declarations of the schema types (GenSchemaDecl.v), the
tag bytes and recursion pattern of the two key hashers (GenHashTags.v), the MaxSize table
(GenMaxSize.v), the Schema impl table (GenSchemaImpls.v) and the panicking arms of the
inspection helpers and of postcard-dyn (GenPanicArms.v)."""
import re

from rustexpr import Untranslatable, find_fn, tokenize, parse_num


def coq_str(s):
    return '[' + '; '.join(str(b) for b in s.encode()) + ']'


def block_after(src, header_re):
    m = re.search(header_re, src)
    if not m:
        raise Untranslatable("declaration not found: %s" % header_re)
    i = src.index('{', m.end() - 1)
    depth = 0
    j = i
    while j < len(src):
        if src[j] == '{':
            depth += 1
        elif src[j] == '}':
            depth -= 1
            if depth == 0:
                return src[i + 1:j]
        j += 1
    raise Untranslatable("unbalanced braces after %s" % header_re)


def split_top(text, sep=','):
    out, depth, cur = [], 0, ''
    for ch in text:
        if ch in '([{<':
            depth += 1
        elif ch in ')]}>':
            depth -= 1
        if ch == sep and depth == 0:
            out.append(cur)
            cur = ''
        else:
            cur += ch
    if cur.strip():
        out.append(cur)
    return [x.strip() for x in out if x.strip()]


def split_arms(text):
    """match arms `pat => expr,` / `pat => { block }` (no comma needed after a block)"""
    arms = []
    i, n = 0, len(text)
    while i < n:
        # pattern: up to the `=>` at depth 0
        depth, j = 0, i
        while j < n:
            c = text[j]
            if c in '([{':
                depth += 1
            elif c in ')]}':
                depth -= 1
            elif c == '=' and depth == 0 and text.startswith('=>', j):
                break
            j += 1
        if j >= n:
            if text[i:].strip():
                raise Untranslatable("dangling match arm `%s`" % ' '.join(text[i:].split())[:60])
            break
        pat = text[i:j].strip()
        k = j + 2
        while k < n and text[k].isspace():
            k += 1
        if k < n and text[k] == '{':
            depth, e = 0, k
            while e < n:
                if text[e] == '{':
                    depth += 1
                elif text[e] == '}':
                    depth -= 1
                    if depth == 0:
                        break
                e += 1
            body = text[k:e + 1]
            e += 1
            while e < n and text[e].isspace():
                e += 1
            if e < n and text[e] == ',':
                e += 1
        else:
            depth, e = 0, k
            while e < n:
                c = text[e]
                if c in '([{':
                    depth += 1
                elif c in ')]}':
                    depth -= 1
                elif c == ',' and depth == 0:
                    break
                e += 1
            body = text[k:e]
            e += 1
        arms.append(pat + ' => ' + body.strip())
        i = e
    return arms


FTY = [
    (r"^&'static\s+Self$|^Box<Self>$|^&'static\s+DataModelType$|^Box<OwnedDataModelType>$|^OwnedDataModelType$", 'FSelf'),
    (r"^&'static\s*\[&'static\s+Self\]$|^Box<\[Self\]>$|^&'static\s*\[&'static\s+DataModelType\]$|^Box<\[OwnedDataModelType\]>$", 'FSelfs'),
    (r"^&'static\s+str$|^Box<str>$", 'FStr'),
    (r"^Data$|^OwnedData$", 'FData'),
    (r"^&'static\s*\[&'static\s+Variant\]$|^Box<\[OwnedVariant\]>$", 'FVariants'),
    (r"^&'static\s*\[&'static\s+NamedField\]$|^Box<\[OwnedNamedField\]>$", 'FFields'),
]


def fty(t, what):
    t = ' '.join(t.split())
    t = t.replace("& 'static", "&'static")
    for pat, name in FTY:
        if re.match(pat, t):
            return name
    raise Untranslatable("%s: unsupported field type `%s`" % (what, t))


def strip_attrs(text):
    text = re.sub(r'#\[[^\]]*\]', '', text)
    return text


def enum_decl(src, name, coqname):
    body = strip_attrs(block_after(src, r'\bpub\s+enum\s+' + name + r'\s*\{'))
    rows = []
    for v in split_top(body):
        m = re.match(r'^(\w+)\s*$', v)
        if m:
            rows.append("(%s, ShUnit)" % coq_str(m.group(1)))
            continue
        m = re.match(r'^(\w+)\s*\((.*)\)$', v, re.S)
        if m:
            fs = [fty(x, name + '::' + m.group(1)) for x in split_top(m.group(2))]
            rows.append("(%s, ShTuple [%s])" % (coq_str(m.group(1)), '; '.join(fs)))
            continue
        m = re.match(r'^(\w+)\s*\{(.*)\}$', v, re.S)
        if m:
            fs = []
            for f in split_top(m.group(2)):
                fm = re.match(r'^(?:pub\s+)?(\w+)\s*:\s*(.*)$', f, re.S)
                if not fm:
                    raise Untranslatable("%s::%s: field `%s`" % (name, m.group(1), f))
                fs.append("(%s, %s)" % (coq_str(fm.group(1)), fty(fm.group(2), name + '::' + m.group(1))))
            rows.append("(%s, ShStruct [%s])" % (coq_str(m.group(1)), '; '.join(fs)))
            continue
        raise Untranslatable("%s: variant `%s`" % (name, v))
    return "Definition %s : list (list N * vshape) :=\n  [%s]." % (coqname, ';\n   '.join(rows))


def struct_decl(src, name, coqname):
    body = strip_attrs(block_after(src, r'\bpub\s+struct\s+' + name + r'\s*\{'))
    fs = []
    for f in split_top(body):
        fm = re.match(r'^(?:pub\s+)?(\w+)\s*:\s*(.*)$', f, re.S)
        if not fm:
            raise Untranslatable("%s: field `%s`" % (name, f))
        fs.append("(%s, %s)" % (coq_str(fm.group(1)), fty(fm.group(2), name)))
    return "Definition %s : list (list N * fty) := [%s]." % (coqname, '; '.join(fs))


def conv_arms(src, from_ty, to_ty, coqname):
    """arms of `impl From<&from_ty> for to_ty`: (source variant, target variant, [(target field, source binding)])"""
    body = block_after(src, r'impl\s+From<&' + from_ty + r'>\s+for\s+' + to_ty + r'\s*\{')
    mbody = block_after(body, r'\bmatch\s+\w+\s*\{')
    rows = []
    for arm in split_arms(mbody):
        m = re.match(r'^' + from_ty + r'::(\w+)\s*(\([^)]*\)|\{[^}]*\})?\s*=>\s*Self::(\w+)\s*(.*)$', arm, re.S)
        if not m:
            raise Untranslatable("From<&%s> for %s: arm `%s`" % (from_ty, to_ty, ' '.join(arm.split())[:80]))
        srcv, binders, dstv, rest = m.group(1), m.group(2) or '', m.group(3), m.group(4).strip()
        pairs = []
        if rest.startswith('{'):
            inner = rest[1:rest.rindex('}')]
            for f in split_top(inner):
                fm = re.match(r'^(\w+)\s*:\s*(.*)$', f, re.S)
                if not fm:
                    raise Untranslatable("From<&%s>: field init `%s`" % (from_ty, f))
                used = re.findall(r'\b([a-z_]\w*)\b', re.sub(r'\b(Box|new|into|iter|map|collect|i)\b', ' ', fm.group(2)))
                used = [u for u in used if u in re.findall(r'\w+', binders)]
                if len(set(used)) != 1:
                    raise Untranslatable("From<&%s>::%s: field %s is built from %s" % (from_ty, srcv, fm.group(1), used))
                pairs.append("(%s, %s)" % (coq_str(fm.group(1)), coq_str(used[0])))
        rows.append((srcv, "(%s, %s, [%s])" % (coq_str(srcv), coq_str(dstv), '; '.join(pairs))))
    rows = [r[1] for r in sorted(rows, key=lambda r: r[0])]     # arms over distinct variants: canonical order
    return "Definition %s : list (list N * list N * list (list N * list N)) :=\n  [%s]." % (coqname, ';\n   '.join(rows))


def conv_struct(src, from_ty, to_ty, coqname):
    """`impl From<&from_ty> for to_ty { fn from(value) -> Self { Self { f: value.g.into(), .. } } }`:
    [(target field, source field)]"""
    body = block_after(src, r'impl\s+From<&' + from_ty + r'>\s+for\s+' + to_ty + r'\s*\{')
    m = re.search(r'fn\s+from\s*\(\s*(\w+)\s*:', body)
    if not m:
        raise Untranslatable("From<&%s>: fn from not found" % from_ty)
    arg = m.group(1)
    init = block_after(block_after(body, r'fn\s+from[^{]*\{'), r'\bSelf\s*\{')
    pairs = []
    for f in split_top(init):
        if not f.strip():
            continue
        fm = re.match(r'^\s*(\w+)\s*:\s*\(?\s*&?\s*' + arg + r'\.(\w+)\s*\)?\s*\.into\(\)\s*$', f, re.S)
        if not fm:
            raise Untranslatable("From<&%s>: field init `%s`" % (from_ty, ' '.join(f.split())))
        pairs.append("(%s, %s)" % (coq_str(fm.group(1)), coq_str(fm.group(2))))
    return "Definition %s : list (list N * list N) := [%s]." % (coqname, '; '.join(pairs))


def gen_schema_decl(src, attempt):
    out = ["(* GENERATED by tools/translate.py from the Rust sources. Do not edit. *)",
           "From PV Require Import Base SchemaDecl.", "Open Scope N_scope.", ""]
    b = src('source/postcard-schema/src/schema/mod.rs')
    o = src('source/postcard-schema/src/schema/owned.rs')
    out.append("(* source/postcard-schema/src/schema/mod.rs *)")
    attempt(out, 'schema/mod.rs:DataModelType', lambda: enum_decl(b, 'DataModelType', 'borrowed_dmt'), 'borrowed_dmt')
    attempt(out, 'schema/mod.rs:Data', lambda: enum_decl(b, 'Data', 'borrowed_data'), 'borrowed_data')
    attempt(out, 'schema/mod.rs:NamedField', lambda: struct_decl(b, 'NamedField', 'borrowed_named_field'), 'borrowed_named_field')
    attempt(out, 'schema/mod.rs:Variant', lambda: struct_decl(b, 'Variant', 'borrowed_variant'), 'borrowed_variant')
    out.append("(* source/postcard-schema/src/schema/owned.rs *)")
    attempt(out, 'schema/owned.rs:OwnedDataModelType', lambda: enum_decl(o, 'OwnedDataModelType', 'owned_dmt'), 'owned_dmt')
    attempt(out, 'schema/owned.rs:OwnedData', lambda: enum_decl(o, 'OwnedData', 'owned_data'), 'owned_data')
    attempt(out, 'schema/owned.rs:OwnedNamedField', lambda: struct_decl(o, 'OwnedNamedField', 'owned_named_field'), 'owned_named_field')
    attempt(out, 'schema/owned.rs:OwnedVariant', lambda: struct_decl(o, 'OwnedVariant', 'owned_variant'), 'owned_variant')
    out.append("(* the From conversions, arm by arm *)")
    attempt(out, 'schema/owned.rs:From<&DataModelType>', lambda: conv_arms(o, 'DataModelType', 'OwnedDataModelType', 'conv_dmt'), 'conv_dmt')
    attempt(out, 'schema/owned.rs:From<&Data>', lambda: conv_arms(o, 'Data', 'OwnedData', 'conv_data'), 'conv_data')
    attempt(out, 'schema/owned.rs:From<&NamedField>', lambda: conv_struct(o, 'NamedField', 'OwnedNamedField', 'conv_named_field'), 'conv_named_field')
    attempt(out, 'schema/owned.rs:From<&Variant>', lambda: conv_struct(o, 'Variant', 'OwnedVariant', 'conv_variant'), 'conv_variant')
    return '\n'.join(out) + '\n'


# ----------------------------------------------------------------------------------------
# GenHashTags.v

def hash_fn_arms(modsrc, fname, enum_prefix, what):
    """arms of the match in a hasher function: (variant, tag byte, hashes_name, children...)"""
    sig, body = find_fn(modsrc, fname)
    mbody = block_after(body, r'\bmatch\s+[\w&.]+\s*\{')
    rows = []
    for arm in split_arms(mbody):
        m = re.match(r'^' + enum_prefix + r'::(\w+)\s*(\([^)]*\)|\{[^}]*\})?\s*=>\s*(.*)$', arm, re.S)
        if not m:
            raise Untranslatable("%s: arm `%s`" % (what, ' '.join(arm.split())[:80]))
        variant, binders, rhs = m.group(1), m.group(2) or '', ' '.join(m.group(3).split())
        tags = re.findall(r'hash_update\s*\(\s*state\s*,\s*&\s*\[\s*(0x[0-9A-Fa-f]+|\d+)\s*\]\s*\)', rhs)
        calls = re.findall(r'\b(hash_sdm_type(?:_owned)?|hash_struct|hash_variant|hash_named_field)\s*\(\s*state\s*,\s*([^)]*)\)', rhs)
        loop = 'while' in rhs
        rows.append((variant, tags, calls, loop, rhs))
    return rows


def gen_hash_tags(src, attempt):
    out = ["(* GENERATED by tools/translate.py from the Rust sources. Do not edit. *)",
           "From PV Require Import Base SchemaDecl.", "Open Scope N_scope.", ""]
    s = src('source/postcard-schema/src/key/hash.rs')
    from rustexpr import find_mod

    def one(modname, suffix, prefix_dmt, prefix_data, coq):
        def go():
            mod = find_mod(s, modname)
            lines = []
            # node kinds
            rows = hash_fn_arms(mod, 'hash_sdm_type' + suffix, prefix_dmt, modname + '::hash_sdm_type' + suffix)
            items = []
            for variant, tags, calls, loop, rhs in rows:
                if variant == 'Struct':
                    if tags or not re.match(r'^hash_struct \( ?state , name , data \)$|^hash_struct\(state, name, data\)$', rhs.replace(' (', '(')) and 'hash_struct' not in rhs:
                        raise Untranslatable("%s: Struct arm `%s`" % (modname, rhs))
                    items.append("(%s, HDelegateStruct)" % coq_str(variant))
                    continue
                if len(tags) != 1:
                    raise Untranslatable("%s: arm %s has %d tag bytes" % (modname, variant, len(tags)))
                tag = parse_num(tags[0])
                kids = [c[0] for c in calls]
                if variant == 'Enum':
                    if kids != ['hash_variant'] or not loop:
                        raise Untranslatable("%s: Enum arm `%s`" % (modname, rhs))
                    items.append("(%s, HTagVariants %d)" % (coq_str(variant), tag))
                elif not kids:
                    items.append("(%s, HTag %d)" % (coq_str(variant), tag))
                elif loop:
                    if len(kids) != 1:
                        raise Untranslatable("%s: arm %s loops over %s" % (modname, variant, kids))
                    items.append("(%s, HTagList %d)" % (coq_str(variant), tag))
                else:
                    args = [c[1].strip().lstrip('&').strip() for c in calls]
                    items.append("(%s, HTagChildren %d [%s])" % (coq_str(variant), tag, '; '.join(coq_str(a) for a in args)))
            # match arms over distinct variants are order-free: emit them in a canonical order
            # (stable sort by variant name), so that reordering arms in one copy changes nothing
            items.sort(key=lambda it: it[:it.index(']')])
            lines.append("Definition %s_nodes : list (list N * hrule) :=\n  [%s]." % (coq, ';\n   '.join(items)))
            # hash_struct / hash_variant: per Data kind
            for fn, hashes_name_expected in (('hash_struct', False), ('hash_variant', True)):
                sig, body = find_fn(mod, fn)
                nb = ' '.join(body.split())
                pre = nb[:nb.index('match')]
                hashes_name = bool(re.search(r'hash_update\s*\(\s*state\s*,\s*\w+\.name\.as_bytes\(\)\s*\)', pre)) or bool(re.search(r'hash_update\s*\(\s*state\s*,\s*name\.as_bytes\(\)\s*\)', pre))
                rows = hash_fn_arms(mod, fn, prefix_data, modname + '::' + fn)
                items = []
                for variant, tags, calls, loop, rhs in rows:
                    if len(tags) != 1:
                        raise Untranslatable("%s::%s: arm %s has %d tag bytes" % (modname, fn, variant, len(tags)))
                    kids = [c[0] for c in calls]
                    kind = 'DKNone' if not kids else ('DKOne' if not loop and kids[0].startswith('hash_sdm_type') else ('DKList' if kids[0].startswith('hash_sdm_type') else ('DKFields' if kids == ['hash_named_field'] and loop else None)))
                    if kind is None:
                        raise Untranslatable("%s::%s: arm %s `%s`" % (modname, fn, variant, rhs))
                    items.append("(%s, %d, %s)" % (coq_str(variant), parse_num(tags[0]), kind))
                items.sort(key=lambda it: it[:it.index(']')])
                lines.append("Definition %s_%s : bool * list (list N * N * dchild) :=\n  (%s, [%s])." % (coq, fn, 'true' if hashes_name else 'false', '; '.join(items)))
            # hash_named_field: name bytes then type
            sig, body = find_fn(mod, 'hash_named_field')
            nb = ' '.join(t[1] for t in tokenize(body))
            ok1 = re.match(r'^let state = hash_update \( state , nt \. name \. as_bytes \( \) \) ; hash_sdm_type(?:_owned)? \( state , &? ?nt \. ty \)$', nb)
            if not ok1:
                raise Untranslatable("%s::hash_named_field has an unexpected body `%s`" % (modname, nb))
            lines.append("Definition %s_field_name_first : bool := true." % coq)
            # the path: hash_update_str(BASIS, path) then the type
            return '\n'.join(lines)
        return go
    out.append("(* mod fnv1a64: the const hasher over the borrowed schema *)")
    attempt(out, 'key/hash.rs:fnv1a64', one('fnv1a64', '', 'DataModelType', 'Data', 'hconst'), 'hconst')
    out.append("(* mod fnv1a64_owned: the run-time hasher over the owned schema *)")
    attempt(out, 'key/hash.rs:fnv1a64_owned', one('fnv1a64_owned', '_owned', 'OwnedDataModelType', 'OwnedData', 'howned'), 'howned')
    return '\n'.join(out) + '\n'


# ----------------------------------------------------------------------------------------
# GenPanicArms.v

PANICS = re.compile(r'\b(todo|unreachable|unimplemented|panic)\s*!|\.unwrap\s*\(\s*\)|\.expect\s*\(')


def panic_arms(fsrc, fname, enum_prefix, what, occurrence=0):
    sig, body = find_fn(fsrc, fname, occurrence)
    # the last top-level match over the type
    ms = list(re.finditer(r'\bmatch\s+(\w+)\s*\{', body))
    best = None
    for m in ms:
        blk = block_after(body[m.start():], r'\bmatch\s+\w+\s*\{')
        if enum_prefix + '::Bool' in blk:
            best = blk
    if best is None:
        raise Untranslatable("%s: no match over %s" % (what, enum_prefix))
    rows = []
    for arm in split_arms(best):
        m = re.match(r'^((?:\|?\s*' + enum_prefix + r'::\w+\s*(?:\([^)]*\)|\{(?:[^{}]|\{[^{}]*\})*\})?\s*)+)=>\s*(.*)$', arm, re.S)
        if not m:
            raise Untranslatable("%s: arm `%s`" % (what, ' '.join(arm.split())[:80]))
        variants = re.findall(enum_prefix + r'::(\w+)', m.group(1))
        # a data pattern inside (OwnedData::X) refines Struct arms
        datak = re.findall(r'OwnedData::(\w+)', m.group(1))
        panics = bool(PANICS.search(m.group(2)))
        for i, v in enumerate(variants):
            key = v + ('/' + datak[0] if datak and v == 'Struct' else '')
            rows.append((key, panics))
    return rows


LIT = re.compile(r'"((?:[^"\\]|\\.)*)"')


def unescape(lit):
    return bytes(lit, 'utf-8').decode('unicode_escape').encode('latin-1').decode('utf-8')


def fmt_literals(fsrc, what):
    """string literals of every arm of the formatter, in source order: (kind, [literals])"""
    sig, body = find_fn(fsrc, 'fmt_owned_dmt_to_buf', 0)
    # the closure over OwnedData
    cm = re.search(r'let\s+fmt_data\s*=\s*\|[^|]*\|\s*match\s+\w+\s*\{', body)
    if not cm:
        raise Untranslatable("%s: fmt_data closure not found" % what)
    cblk = block_after(body[cm.start():], r'\bmatch\s+\w+\s*\{')
    drows = []
    for arm in split_arms(cblk):
        m = re.match(r'^OwnedData::(\w+)\s*(?:\([^)]*\))?\s*=>\s*(.*)$', arm, re.S)
        if not m:
            raise Untranslatable("%s: fmt_data arm `%s`" % (what, ' '.join(arm.split())[:80]))
        drows.append((m.group(1), [unescape(x) for x in LIT.findall(m.group(2))]))
    rest = body[cm.start() + len(cblk):]
    best = None
    for m in re.finditer(r'\bmatch\s+(\w+)\s*\{', rest):
        blk = block_after(rest[m.start():], r'\bmatch\s+\w+\s*\{')
        if 'OwnedDataModelType::Bool' in blk:
            best = blk
    if best is None:
        raise Untranslatable("%s: no match over OwnedDataModelType" % what)
    rows = []
    for arm in split_arms(best):
        m = re.match(r'^OwnedDataModelType::(\w+)\s*(?:\([^)]*\)|\{[^{}]*\})?\s*=>\s*(.*)$', arm, re.S)
        if not m:
            raise Untranslatable("%s: arm `%s`" % (what, ' '.join(arm.split())[:80]))
        rows.append((m.group(1), [unescape(x) for x in LIT.findall(m.group(2))]))

    def tbl(name, rows):
        rows = sorted(rows, key=lambda r: r[0])        # arms over distinct variants: canonical order
        return "Definition %s : list (list N * list (list N)) :=\n  [%s]." % (
            name, ';\n   '.join("(%s, [%s])" % (coq_str(k), '; '.join(coq_str(l) for l in ls)) for k, ls in rows))
    return tbl('fmt_lits', rows) + "\n" + tbl('fmt_data_lits', drows)


def gen_fmt(src, attempt):
    out = ["(* GENERATED by tools/translate.py from the Rust sources. Do not edit. *)",
           "From PV Require Import Base.", "Open Scope N_scope.", "",
           "(* source/postcard-schema/src/schema/fmt.rs: the string literals each arm of the formatter appends, in order *)"]
    attempt(out, 'schema/fmt.rs:fmt_owned_dmt_to_buf literals',
            lambda: fmt_literals(src('source/postcard-schema/src/schema/fmt.rs'), 'fmt.rs:fmt_owned_dmt_to_buf'), 'fmt_lits')
    return '\n'.join(out) + '\n'


def gen_panic_arms(src, attempt):
    out = ["(* GENERATED by tools/translate.py from the Rust sources. Do not edit. *)",
           "From PV Require Import Base.", "Open Scope N_scope.", ""]

    def table(path, fname, coq, what):
        def go():
            rows = sorted(panic_arms(src(path), fname, 'OwnedDataModelType', what), key=lambda r: r[0])   # canonical order
            return "Definition %s : list (list N * bool) :=\n  [%s]." % (coq, ';\n   '.join("(%s, %s)" % (coq_str(k), 'true' if p else 'false') for k, p in rows))
        return go
    out.append("(* which arms can panic (todo!/unreachable!/unwrap/...) *)")
    attempt(out, 'schema/fmt.rs:discover_tys', table('source/postcard-schema/src/schema/fmt.rs', 'discover_tys', 'panics_discover', 'fmt.rs:discover_tys'), 'panics_discover')
    attempt(out, 'schema/fmt.rs:fmt_owned_dmt_to_buf', table('source/postcard-schema/src/schema/fmt.rs', 'fmt_owned_dmt_to_buf', 'panics_fmt', 'fmt.rs:fmt_owned_dmt_to_buf'), 'panics_fmt')
    attempt(out, 'postcard-dyn/ser.rs:ser_named_type', table('source/postcard-dyn/src/ser.rs', 'ser_named_type', 'panics_dyn_ser', 'dyn ser.rs:ser_named_type'), 'panics_dyn_ser')
    attempt(out, 'postcard-dyn/de.rs:deserialize', table('source/postcard-dyn/src/de.rs', 'deserialize', 'panics_dyn_de', 'dyn de.rs:deserialize'), 'panics_dyn_de')
    return '\n'.join(out) + '\n'


def SCHEMA_GENERATORS(src, attempt, problems):
    return [('GenSchemaDecl.v', lambda: gen_schema_decl(src, attempt)),
            ('GenHashTags.v', lambda: gen_hash_tags(src, attempt)),
            ('GenPanicArms.v', lambda: gen_panic_arms(src, attempt)),
            ('GenFmt.v', lambda: gen_fmt(src, attempt)),
            ('GenMaxSize.v', lambda: gen_max_size(src, attempt)),
            ('GenSchemaImpls.v', lambda: gen_schema_impls(src, attempt, problems)),
            ('GenSerMethods.v', lambda: __import__('translate_methods').gen_ser_methods(src, attempt)),
            ('GenDeMethods.v', lambda: __import__('translate_methods').gen_de_methods(src, attempt)),
            ('GenAccumulator.v', lambda: __import__('translate_methods').gen_accumulator(src, attempt)),
            ('GenPtrCode.v', lambda: __import__('translate_methods').gen_ptr_code(src, attempt)),
            ('GenModifiers.v', lambda: __import__('translate_methods').gen_modifiers(src, attempt)),
            ('GenDynArms.v', lambda: __import__('translate_methods').gen_dyn_arms(src, attempt)),
            ('GenDynComposite.v', lambda: __import__('translate_methods').gen_dyn_composite(src, attempt, __import__('translate').match_template, __import__('rustexpr').tokenize)),
            ('GenFnTemplates.v', lambda: __import__('translate_methods').gen_fn_templates(src, attempt, __import__('translate').match_template, __import__('rustexpr').tokenize, ('fmt',))),
            ('GenDeriveMaxSize.v', lambda: __import__('translate_methods').gen_fn_templates(src, attempt, __import__('translate').match_template, __import__('rustexpr').tokenize, ('derive_ms',))),
            ('GenDeriveSchema.v', lambda: __import__('translate_methods').gen_fn_templates(src, attempt, __import__('translate').match_template, __import__('rustexpr').tokenize, ('derive_schema',))),
            ('GenErrorImpls.v', lambda: __import__('translate_methods').gen_fn_templates(src, attempt, __import__('translate').match_template, __import__('rustexpr').tokenize, ('error',))),
            ('GenKeyFns.v', lambda: __import__('translate_methods').gen_fn_templates(src, attempt, __import__('translate').match_template, __import__('rustexpr').tokenize, ('key',))),
            ('GenDynHelpers.v', lambda: __import__('translate_methods').gen_fn_templates(src, attempt, __import__('translate').match_template, __import__('rustexpr').tokenize, ('dynser', 'dynde'))),
            ('GenStorages.v', lambda: __import__('translate_methods').gen_storages(src, attempt)),
            ('GenFixint.v', lambda: __import__('translate_methods').gen_fixint(src, attempt)),
            ('GenEntryPoints.v', lambda: __import__('translate_methods').gen_entry_points(src, attempt, __import__('translate').match_template, __import__('rustexpr').tokenize)),
            ('GenSerEntry.v', lambda: __import__('translate_methods').gen_ser_entry(src, attempt, __import__('translate').match_template, __import__('rustexpr').tokenize)),
            ('GenIoReaders.v', lambda: __import__('translate_methods').gen_io_readers(src, attempt, __import__('translate').match_template, __import__('rustexpr').tokenize))]


# ----------------------------------------------------------------------------------------
# GenMaxSize.v: the `impl MaxSize for X { const POSTCARD_MAX_SIZE: usize = EXPR; }` rows

def norm_self(t):
    t = re.sub(r"'_\s*", '', t)
    t = re.sub(r'\s+', '', t)
    t = t.replace('&mut', '&mut ')
    return t


class MExprParser:
    """EXPR := term ('+' term)* ; term := atom ('*' atom)* ; atoms as they occur in max_size.rs"""

    def __init__(self, text, type_params, const_params):
        self.toks = re.findall(r"<\[|\]>|::|[A-Za-z_][A-Za-z0-9_]*|\d+|[()\[\];,+*<>]", text)
        self.i = 0
        self.tp, self.cp = type_params, const_params
        self.text = text

    def peek(self):
        return self.toks[self.i] if self.i < len(self.toks) else None

    def eat(self, t=None):
        x = self.peek()
        if x is None or (t is not None and x != t):
            raise Untranslatable("max_size expression `%s`: expected %s at token %d (%s)" % (' '.join(self.text.split()), t, self.i, x))
        self.i += 1
        return x

    def expr(self):
        a = self.term()
        while self.peek() == '+':
            self.eat()
            a = "(EAdd %s %s)" % (a, self.term())
        return a

    def term(self):
        a = self.atom()
        while self.peek() == '*':
            self.eat()
            a = "(EMul %s %s)" % (a, self.atom())
        return a

    def elem(self, name):
        if name in self.tp:
            return "(EParam %s)" % coq_str(name)
        return "(EOf %s)" % coq_str(name)

    def atom(self):
        t = self.peek()
        if t is None:
            raise Untranslatable("max_size expression `%s`: unexpected end" % self.text)
        if t.isdigit():
            self.eat()
            return "(EConst %s)" % t
        if t == '(':
            self.eat()
            a = self.expr()
            self.eat(')')
            return a
        if t == 'max':
            self.eat(); self.eat('(')
            a = self.expr(); self.eat(',')
            b = self.expr(); self.eat(')')
            return "(EMax %s %s)" % (a, b)
        if t == 'varint_size':
            self.eat(); self.eat('(')
            a = self.expr(); self.eat(')')
            return "(EVarintSize %s)" % a
        if t == 'varint_max':
            self.eat(); self.eat('::'); self.eat('<'); self.eat('Self'); self.eat('>'); self.eat('('); self.eat(')')
            return "EVarintMaxSelf"
        if t == '<[':
            self.eat()
            el = self.eat(); self.eat(';')
            ln = self.eat(); self.eat(']>'); self.eat('::'); self.eat('POSTCARD_MAX_SIZE')
            if ln not in self.cp:
                raise Untranslatable("max_size expression `%s`: array length %s is not a const parameter" % (self.text, ln))
            return "(EArrayOf %s %s)" % (self.elem(el), coq_str(ln))
        if re.match(r'[A-Za-z_]', t):
            self.eat()
            if self.peek() == '::':
                self.eat(); self.eat('POSTCARD_MAX_SIZE')
                return self.elem(t)
            if t in self.cp:
                return "(ELen %s)" % coq_str(t)
        raise Untranslatable("max_size expression `%s`: token `%s`" % (' '.join(self.text.split()), t))


def gen_max_size(src, attempt):
    out = ["(* GENERATED by tools/translate.py from the Rust sources. Do not edit. *)",
           "From PV Require Import Base MaxSizeDecl.", "Open Scope N_scope.", "",
           "(* source/postcard/src/max_size.rs: every `impl MaxSize for X`, Self text normalised *)"]

    def rows():
        text = src('source/postcard/src/max_size.rs')
        text = text[:text.index('mod tests')] if 'mod tests' in text else text
        res = []
        for m in re.finditer(r'impl\s*(<[^{]*?>)?\s*MaxSize\s+for\s+([^{]+?)\s*\{\s*const\s+POSTCARD_MAX_SIZE\s*:\s*usize\s*=\s*(.+?);\s*\}', text, re.S):
            gen, selft, expr = m.group(1) or '', m.group(2), m.group(3)
            tps = re.findall(r'\b([A-Z]\w*)\s*(?::|,|>)', re.sub(r'const\s+\w+\s*:\s*usize', '', gen))
            cps = re.findall(r'const\s+(\w+)\s*:\s*usize', gen)
            p = MExprParser(expr, tps, cps)
            e = p.expr()
            if p.peek() is not None:
                raise Untranslatable("max_size expression `%s`: trailing `%s`" % (' '.join(expr.split()), p.peek()))
            res.append("(%s, %s)" % (coq_str(norm_self(selft)), e))
        if len(res) < 40:
            raise Untranslatable("max_size.rs: only %d impl rows found" % len(res))
        return "Definition maxsize_impls : list (list N * mexpr) :=\n  [%s]." % ';\n   '.join(res)
    attempt(out, 'max_size.rs:impl rows', rows, 'maxsize_impls')
    return '\n'.join(out) + '\n'


# ----------------------------------------------------------------------------------------
# GenSchemaImpls.v: the `impl Schema for X { const SCHEMA: &'static DataModelType = EXPR; }`
# rows of postcard-schema (built-ins, feature-gated integrations, Key, the schema types)

SCHEMA_IMPL_FILES = ['source/postcard-schema/src/impls/builtins_nostd.rs',
                     'source/postcard-schema/src/impls/builtins_alloc.rs',
                     'source/postcard-schema/src/impls/builtins_std.rs',
                     'source/postcard-schema/src/impls/chrono_v0_4.rs',
                     'source/postcard-schema/src/impls/heapless_v0_7.rs',
                     'source/postcard-schema/src/impls/heapless_v0_8.rs',
                     'source/postcard-schema/src/impls/uuid_v1_0.rs',
                     'source/postcard-schema/src/impls/nalgebra_v0_33.rs',
                     'source/postcard-schema/src/impls/mod.rs',
                     'source/postcard-schema/src/key/mod.rs',
                     'source/postcard-schema/src/schema/owned.rs']


def strip_path(t):
    return re.sub(r'^(crate::schema::|crate::|schema::)', '', t.strip())


def balanced(text, open_ch, close_ch):
    """text starts with open_ch: return (inside, rest)"""
    assert text[0] == open_ch
    depth = 0
    for i, c in enumerate(text):
        if c == open_ch:
            depth += 1
        elif c == close_ch:
            depth -= 1
            if depth == 0:
                return text[1:i], text[i + 1:]
    raise Untranslatable("unbalanced %s in `%s`" % (open_ch, text[:40]))


def fields_of(text):
    """`name: expr, other: expr` -> dict"""
    d = {}
    for part in split_top(text):
        m = re.match(r'(\w+)\s*:\s*(.+)$', part, re.S)
        if not m:
            raise Untranslatable("field initialiser `%s`" % part[:40])
        d[m.group(1)] = m.group(2).strip()
    return d


def str_lit(t):
    m = re.match(r'^"((?:[^"\\]|\\.)*)"$', t.strip())
    if not m:
        raise Untranslatable("expected a string literal, found `%s`" % t[:40])
    return coq_str(unescape(m.group(1)))


def tyx(t, cps):
    t = re.sub(r'\s+', '', t)
    m = re.match(r'^\[(.+);(\w+)\]$', t)
    if m:
        n = m.group(2)
        if not n.isdigit():
            raise Untranslatable("array length `%s` in a type path" % n)
        return "(TxArray %s %s)" % (tyx(m.group(1), cps), n)
    if re.match(r'^[\w:]+$', t):
        return "(TxName %s)" % coq_str(t)
    raise Untranslatable("type `%s` in `<T as Schema>::SCHEMA`" % t)


def sexpr(text, tps, cps):
    t = text.strip().rstrip(',').strip()
    if t.startswith('&'):
        t = t[1:].strip()
    t = strip_path(t)
    m = re.match(r'^(\w+)::SCHEMA$', t)
    if m:
        if m.group(1) not in tps:
            raise Untranslatable("`%s::SCHEMA`: not a type parameter of the impl" % m.group(1))
        return "(XParam %s)" % coq_str(m.group(1))
    m = re.match(r'^<(.+)\s+as\s+(?:crate::)?Schema>::SCHEMA$', t, re.S)
    if m:
        return "(XOfTy %s)" % tyx(m.group(1), cps)
    m = re.match(r'^DataModelType::(\w+)\s*(.*)$', t, re.S)
    if not m:
        raise Untranslatable("schema expression `%s`" % ' '.join(t.split())[:80])
    kind, rest = m.group(1), m.group(2).strip()
    if kind in ('Option', 'Seq'):
        inner, tail = balanced(rest, '(', ')')
        if tail.strip():
            raise Untranslatable("trailing `%s`" % tail[:30])
        return "(X%s %s)" % (kind, sexpr(inner, tps, cps))
    if kind == 'Tuple':
        inner, tail = balanced(rest, '(', ')')
        if tail.strip():
            raise Untranslatable("trailing `%s`" % tail[:30])
        return slice_of(inner, tps, cps, 'XTuple', 'XTupleRep')
    if kind == 'Map':
        inner, tail = balanced(rest, '{', '}')
        f = fields_of(inner)
        if set(f) != {'key', 'val'} or tail.strip():
            raise Untranslatable("Map fields %s" % sorted(f))
        return "(XMap %s %s)" % (sexpr(f['key'], tps, cps), sexpr(f['val'], tps, cps))
    if kind == 'Struct':
        inner, tail = balanced(rest, '{', '}')
        f = fields_of(inner)
        if set(f) != {'name', 'data'} or tail.strip():
            raise Untranslatable("Struct fields %s" % sorted(f))
        return "(XStruct %s %s)" % (str_lit(f['name']), xdata(f['data'], tps, cps))
    if kind == 'Enum':
        inner, tail = balanced(rest, '{', '}')
        f = fields_of(inner)
        if set(f) != {'name', 'variants'} or tail.strip():
            raise Untranslatable("Enum fields %s" % sorted(f))
        vs = f['variants'].strip()
        if not vs.startswith('&'):
            raise Untranslatable("variants `%s`" % vs[:30])
        lst, tail2 = balanced(vs[1:].strip(), '[', ']')
        rows = []
        for v in split_top(lst):
            mv = re.match(r'^&\s*(?:crate::schema::)?Variant\s*(\{.*)$', v.strip(), re.S)
            if not mv:
                raise Untranslatable("variant `%s`" % v[:40])
            vin, _ = balanced(mv.group(1), '{', '}')
            vf = fields_of(vin)
            if set(vf) != {'name', 'data'}:
                raise Untranslatable("Variant fields %s" % sorted(vf))
            rows.append("(%s, %s)" % (str_lit(vf['name']), xdata(vf['data'], tps, cps)))
        return "(XEnum %s [%s])" % (str_lit(f['name']), '; '.join(rows))
    if rest:
        raise Untranslatable("schema expression `%s`" % ' '.join(t.split())[:80])
    return "(XPrim %s)" % coq_str(kind)


def slice_of(inner, tps, cps, many, rep):
    t = inner.strip()
    if not t.startswith('&'):
        raise Untranslatable("expected a slice literal, found `%s`" % t[:40])
    lst, tail = balanced(t[1:].strip(), '[', ']')
    if tail.strip():
        raise Untranslatable("trailing `%s`" % tail[:30])
    semi = split_top(lst, ';')
    if len(semi) == 2:
        if semi[1] not in cps:
            raise Untranslatable("repeat count `%s` is not a const parameter" % semi[1])
        return "(%s %s %s)" % (rep, sexpr(semi[0], tps, cps), coq_str(semi[1]))
    return "(%s [%s])" % (many, '; '.join(sexpr(e, tps, cps) for e in split_top(lst)))


def xdata(text, tps, cps):
    t = strip_path(text.strip().rstrip(',').strip())
    m = re.match(r'^Data::(\w+)\s*(.*)$', t, re.S)
    if not m:
        raise Untranslatable("data expression `%s`" % t[:60])
    kind, rest = m.group(1), m.group(2).strip()
    if kind == 'Unit' and not rest:
        return "XDUnit"
    inner, tail = balanced(rest, '(', ')')
    if tail.strip():
        raise Untranslatable("trailing `%s`" % tail[:30])
    if kind == 'Newtype':
        return "(XDNewtype %s)" % sexpr(inner, tps, cps)
    if kind == 'Tuple':
        t2 = inner.strip()
        lst, _ = balanced(t2[1:].strip(), '[', ']')
        return "(XDTuple [%s])" % '; '.join(sexpr(e, tps, cps) for e in split_top(lst))
    if kind == 'Struct':
        t2 = inner.strip()
        if not t2.startswith('&'):
            raise Untranslatable("expected a slice literal, found `%s`" % t2[:40])
        lst, _ = balanced(t2[1:].strip(), '[', ']')
        rows = []
        for nf in split_top(lst):
            mf = re.match(r'^&\s*(?:crate::schema::)?NamedField\s*(\{.*)$', nf.strip(), re.S)
            if not mf:
                raise Untranslatable("named field `%s`" % nf[:40])
            fin, _ = balanced(mf.group(1), '{', '}')
            ff = fields_of(fin)
            if set(ff) != {'name', 'ty'}:
                raise Untranslatable("NamedField fields %s" % sorted(ff))
            rows.append("(%s, %s)" % (str_lit(ff['name']), sexpr(ff['ty'], tps, cps)))
        return "(XDStruct [%s])" % '; '.join(rows)
    raise Untranslatable("data kind `%s`" % kind)


def gen_schema_impls(src, attempt, problems):
    out = ["(* GENERATED by tools/translate.py from the Rust sources. Do not edit. *)",
           "From PV Require Import Base SchemaImplDecl.", "Open Scope N_scope.", "",
           "(* postcard-schema: every `impl Schema for X`, Self text normalised; the two arms of",
           "   the impl_schema! macro are expanded from their templates *)"]

    notes = []

    def rows():
        res = []
        for path in SCHEMA_IMPL_FILES:
            text = src(path)
            text = re.sub(r'//[^\n]*', '', text)
            if path.endswith('builtins_nostd.rs'):
                # the macro: templates of the two arms
                mac = block_after(text, r'macro_rules!\s*impl_schema\s*')
                m1 = re.search(r'\(\$\(\$t:ty:\s*\$sdm:expr\),\*\)\s*=>\s*\{(.*?)\};\s*\(tuple', mac, re.S)
                m2 = re.search(r'\(tuple\s*=>\s*\[\$\(\(\$\(\$generic:ident\),\*\)\),\*\]\)\s*=>\s*\{(.*)\}\s*;?\s*$', mac, re.S)
                if not m1 or not m2:
                    raise Untranslatable("impl_schema!: macro arms not recognised")
                t1 = re.search(r'impl\s+Schema\s+for\s+\$t\s*\{\s*const\s+SCHEMA\s*:\s*&\'static\s+DataModelType\s*=\s*(.+?);', m1.group(1), re.S)
                t2 = re.search(r'impl<\$\(\$generic:\s*Schema\),\*>\s*Schema\s+for\s+\(\$\(\$generic,\)\*\)\s*\{\s*const\s+SCHEMA\s*:\s*&\'static\s+DataModelType\s*=\s*(.+?);', m2.group(1), re.S)
                if not t1 or not t2:
                    raise Untranslatable("impl_schema!: arm templates not recognised")
                if t1.group(1).strip() != '&$sdm':
                    raise Untranslatable("impl_schema! first arm: SCHEMA = `%s`, expected `&$sdm`" % t1.group(1).strip())
                tmpl = t2.group(1)
                if '$($generic::SCHEMA),*' not in tmpl:
                    raise Untranslatable("impl_schema! tuple arm: `%s`" % tmpl.strip())
                for inv in re.finditer(r'impl_schema!\s*([\[(])', text):
                    body, _ = balanced(text[inv.end() - 1:], inv.group(1), {'[': ']', '(': ')'}[inv.group(1)])
                    if re.match(r'\s*tuple\s*=>', body):
                        lst, _ = balanced(body[body.index('['):], '[', ']')
                        for tup in split_top(lst):
                            gens = [g.strip() for g in tup.strip()[1:-1].split(',') if g.strip()]
                            key = '(%s,)' % gens[0] if len(gens) == 1 else '(%s)' % ','.join(gens)
                            e = tmpl.replace('$($generic::SCHEMA),*', ', '.join('%s::SCHEMA' % g for g in gens))
                            res.append("(%s, %s)" % (coq_str(key), sexpr(e, gens, [])))
                    else:
                        for row in split_top(body):
                            m = re.match(r'^(.+?)\s*:\s*(DataModelType::.+)$', row, re.S)
                            if not m:
                                raise Untranslatable("impl_schema! row `%s`" % row[:40])
                            res.append("(%s, %s)" % (coq_str(norm_self(m.group(1))), sexpr(m.group(2), [], [])))
                text = text[:text.index('macro_rules!')] + text[text.index('impl<T: Schema> Schema for Option<T>'):] if 'impl<T: Schema> Schema for Option<T>' in text else text
            for m in re.finditer(r'impl\s*(<[^{]*?>)?\s*(?:crate::)?Schema\s+for\s+([^{]+?)\s*(?:where[^{]*)?\{\s*const\s+SCHEMA\s*:\s*&\'static\s+(?:crate::schema::)?DataModelType\s*=\s*(.+?);\s*\}', text, re.S):
                gen, selft, expr = m.group(1) or '', m.group(2), m.group(3)
                if '$' in selft:
                    continue
                tps = re.findall(r'\b([A-Z]\w*)\s*(?::|,|>)', re.sub(r'const\s+\w+\s*:\s*usize', '', gen))
                cps = re.findall(r'const\s+(\w+)\s*:\s*usize', gen)
                key = norm_self(selft)
                try:
                    res.append("(%s, %s)" % (coq_str(key), sexpr(expr, tps, cps)))
                except Untranslatable as e:
                    if 'nalgebra' in path:
                        # outside the modelled fragment (const fn over raw parts): recorded, row opaque
                        notes.append("(* row `%s` in %s is outside the translated fragment (%s): opaque *)" % (key[:60], path.split('/')[-1], str(e).replace('*)', '* )')))
                        res.append("(%s, XOpaque)" % coq_str(key))
                    else:
                        raise Untranslatable("row `%s` in %s: %s" % (key, path.split('/')[-1], e))
        if len(res) < 60:
            raise Untranslatable("postcard-schema impls: only %d rows found" % len(res))
        return '\n'.join(notes) + "\nDefinition schema_impls : list (list N * sexpr) :=\n  [%s]." % ';\n   '.join(res)
    attempt(out, 'postcard-schema impls:rows', rows, 'schema_impls')
    return '\n'.join(out) + '\n'
