"""Translator for the bodies of the serializer's methods (ser/serializer.rs): every
`fn serialize_*`, the `try_push_varint_*` helpers and the element / field / key / value methods
are straight-line code; each body becomes a list of steps over a small expression language
(GenSerMethods.v), which Model/SerMethods.v interprets and Proofs/SerMethodFacts.v proves equal,
method by method, to the clauses of the hand-written Ser.v."""
import re

from rustexpr import Untranslatable, find_fn
from translate_schema import coq_str, split_top, split_arms, block_after

MAPERR = r'(?:\.map_err\(\|_\|Error::SerializeBufferFull\))'


def compact(s):
    return re.sub(r'\s+', '', s)


def split_stmts(body):
    """top-level statements of a block; the last one may be a tail expression"""
    out, depth, cur = [], 0, ''
    for ch in body:
        if ch in '([{':
            depth += 1
        elif ch in ')]}':
            depth -= 1
        if ch == ';' and depth == 0:
            out.append(cur)
            cur = ''
        else:
            cur += ch
    if cur.strip():
        out.append(cur)
    return [compact(x) for x in out if x.strip()]


def arg_expr(a, what):
    m = re.match(r'^(\w+)$', a)
    if m and not a[0].isdigit():
        return "(MVar %s)" % coq_str(a)
    if re.match(r'^\d+$', a):
        return "(MConst %s)" % a
    m = re.match(r'^&(?:mut)?(\w+)$', a)
    if m:
        return "(MVar %s)" % coq_str(m.group(1))
    m = re.match(r'^if(\w+)\{(\d+)\}else\{(\d+)\}$', a)
    if m:
        return "(MIf %s %s %s)" % (coq_str(m.group(1)), m.group(2), m.group(3))
    m = re.match(r'^(\w+)\.to_le_bytes\(\)\[0\]$', a)
    if m:
        return "(MByte0 %s)" % coq_str(m.group(1))
    m = re.match(r'^(\w+)\.len\(\)$', a)
    if m:
        return "(MLen %s)" % coq_str(m.group(1))
    m = re.match(r'^(\w+)\.as_bytes\(\)$', a)
    if m:
        return "(MBytesOf %s)" % coq_str(m.group(1))
    m = re.match(r'^(\w+)\.ok_or\(Error::SerializeSeqLengthUnknown\)\?$', a)
    if m:
        return "(MLenOrErr %s)" % coq_str(m.group(1))
    raise Untranslatable("%s: argument `%s`" % (what, a))


def let_expr(e, what):
    m = re.match(r'^zig_zag_i(\d+)\((\w+)\)$', e)
    if m:
        return "(MZigZag %s %s)" % (m.group(1), coq_str(m.group(2)))
    m = re.match(r'^(\w+)\.to_bits\(\)\.to_le_bytes\(\)$', e)
    if m:
        return "(MBitsLe %s)" % coq_str(m.group(1))
    m = re.match(r'^\[0u8;(\d+)\]$', e)
    if m:
        return "(MZeros %s)" % m.group(1)
    m = re.match(r'^\[0u8;varint_max::<(\w+)>\(\)\]$', e)
    if m:
        return "(MZerosVarintMax %s)" % coq_str(m.group(1))
    m = re.match(r'^(\w+)\.encode_utf8\(&mut(\w+)\)$', e)
    if m:
        return "(MEncodeUtf8 %s %s)" % (coq_str(m.group(1)), coq_str(m.group(2)))
    m = re.match(r'^varint_(\w+)\((\w+),&mut(\w+)\)$', e)
    if m:
        return "(MVarintBytes %s %s %s)" % (coq_str(m.group(1)), coq_str(m.group(2)), coq_str(m.group(3)))
    raise Untranslatable("%s: expression `%s`" % (what, e))


def stmt(s, what):
    m = re.match(r'^let(?:mut)?(\w+)=(.+)$', s)
    if m and not s.startswith('letmut') or (m and s.startswith('letmut')):
        name = m.group(1)
        if s.startswith('letmut'):
            name = re.match(r'^letmut(\w+)=', s).group(1)
        return "SLet %s %s" % (coq_str(name), let_expr(s[s.index('=') + 1:], what))
    m = re.match(r'^self\.try_push_varint_(\w+)\((.+?)\)' + MAPERR + r'?\??$', s)
    if m:
        return "SHelper %s %s" % (coq_str('try_push_varint_' + m.group(1)), arg_expr(m.group(2), what))
    m = re.match(r'^self\.output\.try_push\((.+?)\)' + MAPERR + r'?\??$', s)
    if m:
        return "SPush %s" % arg_expr(m.group(1), what)
    m = re.match(r'^self\.output\.try_extend\((.+?)\)' + MAPERR + r'?\??$', s)
    if m:
        return "SExtend %s" % arg_expr(m.group(1), what)
    m = re.match(r'^self\.(serialize_\w+)\((.+)\)\??$', s)
    if m:
        return "SCall %s %s" % (coq_str(m.group(1)), arg_expr(m.group(2), what))
    m = re.match(r'^(\w+)\.serialize\((?:self|&mut\*\*self)\)$', s)
    if m:
        return "SValue %s" % coq_str(m.group(1))
    if s == 'Ok(())':
        return "SRetUnit"
    if s == 'Ok(self)':
        return "SRetSelf"
    raise Untranslatable("%s: statement `%s`" % (what, s))


def params_of(sig):
    i = sig.index('(')
    depth, j = 0, i
    while j < len(sig):
        if sig[j] == '(':
            depth += 1
        elif sig[j] == ')':
            depth -= 1
            if depth == 0:
                break
        j += 1
    inner = sig[i + 1:j]
    names = []
    for p in split_top(inner):
        p = p.strip()
        if p in ('self', '&self', '&mut self', 'mut self'):
            continue
        m = re.match(r'^(?:mut\s+)?(\w+)\s*:', p)
        if not m:
            raise Untranslatable("parameter `%s`" % p)
        names.append(m.group(1))
    return names


SER_METHODS = ['serialize_bool', 'serialize_i8', 'serialize_i16', 'serialize_i32', 'serialize_i64', 'serialize_i128',
               'serialize_u8', 'serialize_u16', 'serialize_u32', 'serialize_u64', 'serialize_u128',
               'serialize_f32', 'serialize_f64', 'serialize_char', 'serialize_str', 'serialize_bytes',
               'serialize_none', 'serialize_some', 'serialize_unit', 'serialize_unit_struct', 'serialize_unit_variant',
               'serialize_newtype_struct', 'serialize_newtype_variant', 'serialize_seq', 'serialize_tuple',
               'serialize_tuple_struct', 'serialize_tuple_variant', 'serialize_map', 'serialize_struct',
               'serialize_struct_variant']
HELPERS = ['try_push_varint_usize', 'try_push_varint_u128', 'try_push_varint_u64', 'try_push_varint_u32', 'try_push_varint_u16']
# (trait impl, method): the element / field / key / value methods
ELEMENTS = [('SerializeSeq', 'serialize_element'), ('SerializeTuple', 'serialize_element'),
            ('SerializeTupleStruct', 'serialize_field'), ('SerializeTupleVariant', 'serialize_field'),
            ('SerializeMap', 'serialize_key'), ('SerializeMap', 'serialize_value'),
            ('SerializeStruct', 'serialize_field'), ('SerializeStructVariant', 'serialize_field')]


def gen_ser_methods(src, attempt):
    out = ["(* GENERATED by tools/translate.py from the Rust sources. Do not edit. *)",
           "From PV Require Import Base SerMethodDecl.", "Open Scope N_scope.", "",
           "(* source/postcard/src/ser/serializer.rs: the body of every serializer method as steps *)"]
    text = src('source/postcard/src/ser/serializer.rs')

    def row(name, sig, body, key=None):
        what = 'serializer.rs:' + (key or name)
        if '<' in sig.split('(')[0] and 'where' in sig:
            pass
        steps = [stmt(s, what) for s in split_stmts(body)]
        return "(%s, ([%s], [%s]))" % (coq_str(key or name), '; '.join(coq_str(p) for p in params_of(sig)), '; '.join(steps))

    def rows():
        res = []
        for name in HELPERS + SER_METHODS:
            sig, body = find_fn(text, name)
            res.append(row(name, sig, body))
        for trait, meth in ELEMENTS:
            m = re.search(r'impl<F>\s*ser::' + trait + r'\s+for\s+&mut\s+Serializer<F>', text)
            if not m:
                raise Untranslatable("impl ser::%s not found" % trait)
            sig, body = find_fn(text[m.end():], meth)
            res.append(row(meth, sig, body, key=trait + '::' + meth))
            sig, body = find_fn(text[m.end():], 'end')
            if compact(body) != 'Ok(())':
                raise Untranslatable("%s::end is `%s`" % (trait, compact(body)))
        return "Definition ser_methods : list (list N * (list (list N) * list sstep)) :=\n  [%s]." % ';\n   '.join(res)
    attempt(out, 'ser/serializer.rs:methods', rows, 'ser_methods')

    def collect():
        sig, body = find_fn(text, 'collect_str')
        c = compact(body)
        # the counting pass adds the byte length of every piece; the length goes out as varint(usize);
        # the second pass extends with the bytes of every piece; both passes format the same value
        need = ['self.ct+=s.len();', 'write!(&mutctr,"{value}").map_err(|_|Error::CollectStrError)?;letlen=ctr.ct;',
                'self.try_push_varint_usize(len).map_err(|_|Error::SerializeBufferFull)?;',
                'self.output.try_extend(s.as_bytes()).map_err(|_|core::fmt::Error)',
                'write!(&mutfw,"{value}").map_err(|_|Error::CollectStrError)?;Ok(())']
        pos = 0
        for n in need:
            i = c.find(n, pos)
            if i < 0:
                raise Untranslatable("collect_str: expected `%s` (in this order)" % n)
            pos = i + len(n)
        return "Definition collect_str_two_passes_over_bytes : bool := true."
    attempt(out, 'ser/serializer.rs:collect_str', collect, 'collect_str_two_passes_over_bytes')
    return '\n'.join(out) + '\n'


# ----------------------------------------------------------------------------------------
# GenDeMethods.v: the bodies of the deserializer's methods (de/deserializer.rs)

DE_METHODS = ['deserialize_any', 'deserialize_bool', 'deserialize_i8', 'deserialize_i16', 'deserialize_i32', 'deserialize_i64',
              'deserialize_i128', 'deserialize_u8', 'deserialize_u16', 'deserialize_u32', 'deserialize_u64', 'deserialize_u128',
              'deserialize_f32', 'deserialize_f64', 'deserialize_char', 'deserialize_str', 'deserialize_string',
              'deserialize_bytes', 'deserialize_byte_buf', 'deserialize_option', 'deserialize_unit', 'deserialize_unit_struct',
              'deserialize_newtype_struct', 'deserialize_seq', 'deserialize_tuple', 'deserialize_tuple_struct',
              'deserialize_map', 'deserialize_struct', 'deserialize_enum', 'deserialize_identifier', 'deserialize_ignored_any',
              'unit_variant', 'newtype_variant_seed', 'tuple_variant', 'struct_variant', 'variant_seed']


def dexp(a, what):
    m = re.match(r'^(\w+)$', a)
    if m and not a[0].isdigit():
        return "(DVar %s)" % coq_str(a)
    if re.match(r'^\d+$', a):
        return "(DConst %s)" % a
    if a == 'self.flavor.pop()?':
        return "DPop"
    if a == 'self.flavor.pop()?asi8':
        return "DPopAsI8"
    m = re.match(r'^self\.try_take_varint_(\w+)\(\)\?$', a)
    if m:
        return "(DVarint %s)" % coq_str(m.group(1))
    m = re.match(r'^self\.flavor\.try_take_n\((\w+)\)\?$', a)
    if m:
        return "(DTake %s)" % dexp(m.group(1), what)
    m = re.match(r'^de_zig_zag_i(\d+)\((\w+)\)$', a)
    if m:
        return "(DUnZigZag %s %s)" % (m.group(1), coq_str(m.group(2)))
    m = re.match(r'^f(\d+)::from_bits\(u(\d+)::from_le_bytes\((\w+)\)\)$', a)
    if m and m.group(1) == m.group(2):
        return "(DFromLeBits %s %s)" % (m.group(1), coq_str(m.group(3)))
    m = re.match(r'^\[0u8;(\d+)\]$', a)
    if m:
        return "(DZeros %s)" % m.group(1)
    m = re.match(r'^(\w+)\.len\(\)$', a)
    if m:
        return "(DLenOf %s)" % coq_str(m.group(1))
    m = re.match(r'^core::str::from_utf8\((\w+)\)\.map_err\(\|_\|Error::(\w+)\)\?$', a)
    if m:
        return "(DFromUtf8 %s %s)" % (coq_str(m.group(1)), m.group(2))
    m = re.match(r'^core::str::from_utf8\((\w+)\)\.map_err\(\|_\|Error::(\w+)\)\?\.chars\(\)$', a)
    if m:
        return "(DCharsOfUtf8 %s %s)" % (coq_str(m.group(1)), m.group(2))
    m = re.match(r'^(\w+)\.next\(\)\.ok_or\(Error::(\w+)\)\?$', a)
    if m:
        return "(DNextOrErr %s %s)" % (coq_str(m.group(1)), m.group(2))
    raise Untranslatable("%s: expression `%s`" % (what, a))


def dstmt(s, what):
    m = re.match(r'^let(\w+)=DeserializeSeed::deserialize\(seed,(\w+)\.into_deserializer\(\)\)\?$', s)
    if m:
        return "DSeedOnIndex %s %s" % (coq_str(m.group(1)), coq_str(m.group(2)))
    # match on the popped byte with literal arms
    m = re.match(r'^let(\w+)=matchself\.flavor\.pop\(\)\?\{0=>false,1=>true,_=>returnErr\(Error::(\w+)\),\}$', s)
    if m:
        return "DLetBoolOfPop %s %s" % (coq_str(m.group(1)), m.group(2))
    m = re.match(r'^matchself\.flavor\.pop\(\)\?\{0=>visitor\.visit_none\(\),1=>visitor\.visit_some\(self\),_=>Err\(Error::(\w+)\),\}$', s)
    if m:
        return "DOptionOfPop %s" % m.group(1)
    m = re.match(r'^if(\w+)>(\d+)\{returnErr\(Error::(\w+)\);\}(.*)$', s)
    if m:
        rest = m.group(4)
        return "DRejectGt %s %s %s" % (coq_str(m.group(1)), m.group(2), m.group(3)) + ("; " + dstmt(rest, what) if rest else "")
    m = re.match(r'^if(\w+)\.next\(\)\.is_some\(\)\{returnErr\(Error::(\w+)\);\}(.*)$', s)
    if m:
        rest = m.group(3)
        return "DRejectMore %s %s" % (coq_str(m.group(1)), m.group(2)) + ("; " + dstmt(rest, what) if rest else "")
    m = re.match(r'^let(?:mut)?(\w+)(?::&\'de\[u8\])?=(.+)$', s)
    if m:
        name = m.group(1)
        if s.startswith('letmut'):
            name = re.match(r'^letmut(\w+)', s).group(1)
        return "DLet %s %s" % (coq_str(name), dexp(m.group(2), what))
    m = re.match(r'^(\w+)\.copy_from_slice\((\w+)\)$', s)
    if m:
        return "DCopy %s %s" % (coq_str(m.group(1)), coq_str(m.group(2)))
    m = re.match(r'^visitor\.visit_(seq|map)\((Seq|Map)Access\{deserializer:self,len,?\}\)$', s)
    if m and m.group(1).capitalize() == m.group(2):
        return "DVisitAccess %s %s" % (coq_str(m.group(1)), coq_str('len'))
    if s == 'visitor.visit_unit()':
        return "DVisitUnit"
    if s == 'visitor.visit_newtype_struct(self)':
        return "DVisitNewtype"
    if s == 'visitor.visit_enum(self)':
        return "DVisitEnum"
    m = re.match(r'^visitor\.visit_(\w+)\((.+)\)$', s)
    if m:
        return "DVisit %s %s" % (coq_str(m.group(1)), dexp(m.group(2), what))
    m = re.match(r'^self\.(deserialize_\w+)\((.*)\)$', s)
    if m:
        args = [a for a in split_top(m.group(2))]
        return "DDelegate %s [%s]" % (coq_str(m.group(1)), '; '.join(dexp(a, what) for a in args if a != 'visitor'))
    m = re.match(r'^serde::de::Deserializer::(deserialize_\w+)\(self,(.*)\)$', s)
    if m:
        args = [a for a in split_top(m.group(2))]
        return "DDelegate %s [%s]" % (coq_str(m.group(1)), '; '.join(dexp(a, what) for a in args if a != 'visitor'))
    if s == 'DeserializeSeed::deserialize(seed,self)':
        return "DSeedHere"
    m = re.match(r'^Err\(Error::(\w+)\)$', s)
    if m:
        return "DFail %s" % m.group(1)
    if s == 'Ok(())':
        return "DRetUnit"
    m = re.match(r'^let(\w+)=DeserializeSeed::deserialize\(seed,(\w+)\.into_deserializer\(\)\)\?$', s)
    if m:
        return "DSeedOnIndex %s %s" % (coq_str(m.group(1)), coq_str(m.group(2)))
    m = re.match(r'^Ok\(\((\w+),self\)\)$', s)
    if m:
        return "DRetWithSelf %s" % coq_str(m.group(1))
    raise Untranslatable("%s: statement `%s`" % (what, s))


ACCESS_TEMPLATES = {
    ('SeqAccess', 'next_element_seed'): 'ifself.len>0{self.len-=1;Ok(Some(DeserializeSeed::deserialize(seed,&mut*self.deserializer,)?))}else{Ok(None)}',
    ('MapAccess', 'next_key_seed'): 'ifself.len>0{self.len-=1;Ok(Some(DeserializeSeed::deserialize(seed,&mut*self.deserializer,)?))}else{Ok(None)}',
    ('MapAccess', 'next_value_seed'): 'DeserializeSeed::deserialize(seed,&mut*self.deserializer)',
}


def gen_de_methods(src, attempt):
    out = ["(* GENERATED by tools/translate.py from the Rust sources. Do not edit. *)",
           "From PV Require Import Base DeMethodDecl.", "Open Scope N_scope.", "",
           "(* source/postcard/src/de/deserializer.rs: the body of every deserializer method as steps *)"]
    text = src('source/postcard/src/de/deserializer.rs')

    def rows():
        res = []
        i0 = text.index('de::Deserializer<\'de> for &mut Deserializer')
        for name in DE_METHODS:
            sig, body = find_fn(text[i0:], name)
            what = 'deserializer.rs:' + name
            # the visitor / seed parameter may carry any name: normalise it
            mv = re.search(r'\b(\w+)\s*:\s*[VK]\b', sig)
            if mv and mv.group(1) not in ('visitor', '_visitor', 'seed'):
                canon = 'seed' if 'seed' in name else 'visitor'
                body = re.sub(r'\b' + re.escape(mv.group(1)) + r'\b', canon, body)
                sig = re.sub(r'\b' + re.escape(mv.group(1)) + r'\b', canon, sig)
            steps = [dstmt(s, what) for s in split_stmts(body)]
            ps = [p for p in params_of(sig) if p not in ('visitor', '_visitor', 'seed')]
            res.append("(%s, ([%s], [%s]))" % (coq_str(name), '; '.join(coq_str(p) for p in ps), '; '.join(steps)))
        return "Definition de_methods : list (list N * (list (list N) * list dstep)) :=\n  [%s]." % ';\n   '.join(res)
    attempt(out, 'de/deserializer.rs:methods', rows, 'de_methods')

    def access():
        for (ty, meth), want in ACCESS_TEMPLATES.items():
            m = re.search(r'impl<[^{]*?>\s*serde::de::' + ty + r"<'b>\s+for\s+" + ty, text)
            if not m:
                raise Untranslatable("impl serde::de::%s not found" % ty)
            sig, body = find_fn(text[m.end():], meth)
            if compact(body) != want:
                raise Untranslatable("%s::%s is `%s`" % (ty, meth, compact(body)[:120]))
        return "Definition access_hands_out_len_elements_in_order : bool := true."
    attempt(out, 'de/deserializer.rs:SeqAccess/MapAccess', access, 'access_hands_out_len_elements_in_order')
    return '\n'.join(out) + '\n'


# ----------------------------------------------------------------------------------------
# GenAccumulator.v: CobsAccumulator::feed_ref as a statement tree

class AccParser:
    def __init__(self, text, what):
        self.s = text
        self.i = 0
        self.what = what

    def fail(self, msg):
        raise Untranslatable("%s: %s near `%s`" % (self.what, msg, self.s[self.i:self.i + 60]))

    def eat(self, lit):
        if not self.s.startswith(lit, self.i):
            self.fail("expected `%s`" % lit)
        self.i += len(lit)

    def block(self):
        """`{ stmts }` -> list of coq statement terms"""
        self.eat('{')
        out = []
        while not self.s.startswith('}', self.i):
            out.append(self.stmt())
        self.eat('}')
        return out

    def until(self, ch):
        """text up to the next `ch` at depth 0 (consumes ch)"""
        depth, j = 0, self.i
        while j < len(self.s):
            c = self.s[j]
            if c == ch and depth == 0:
                t = self.s[self.i:j]
                self.i = j + 1
                return t
            if c in '([{':
                depth += 1
            elif c in ')]}':
                if depth == 0:
                    self.fail("unbalanced")
                depth -= 1
            j += 1
        self.fail("no `%s`" % ch)

    def aexp(self, t):
        t = t.strip()
        while t.startswith('(') and t.endswith(')') and self.balanced(t[1:-1]):
            t = t[1:-1]
        for op, ctor in (('+', 'AAdd'), ('-', 'ASub')):
            k = self.top_index(t, op)
            if k > 0:
                return "(%s %s %s)" % (ctor, self.aexp(t[:k]), self.aexp(t[k + 1:]))
        if t == 'self.idx':
            return "AIdx"
        if t == 'N':
            return "ACap"
        if re.match(r'^\d+$', t):
            return "(AConst %s)" % t
        m = re.match(r'^(\w+)\.len\(\)$', t)
        if m:
            return "(ALen %s)" % coq_str(m.group(1))
        if re.match(r'^\w+$', t):
            return "(AVarN %s)" % coq_str(t)
        self.fail("expression `%s`" % t)

    @staticmethod
    def balanced(t):
        d = 0
        for c in t:
            if c in '([{':
                d += 1
            elif c in ')]}':
                d -= 1
                if d < 0:
                    return False
        return d == 0

    @staticmethod
    def top_index(t, op):
        d = 0
        for k in range(len(t) - 1, -1, -1):
            c = t[k]
            if c in ')]}':
                d += 1
            elif c in '([{':
                d -= 1
            elif c == op and d == 0:
                return k
        return -1

    def cond(self, t):
        m = re.match(r'^(\w+)\.is_empty\(\)$', t)
        if m:
            return "(CEmpty %s)" % coq_str(m.group(1))
        for op, ctor in (('<=', 'CLe'), ('>=', 'CGe'), ('<', 'CLt'), ('>', 'CGt')):
            k = t.find(op)
            if k > 0:
                return "(%s %s %s)" % (ctor, self.aexp(t[:k]), self.aexp(t[k + len(op):]))
        self.fail("condition `%s`" % t)

    def slice_(self, t):
        m = re.match(r'^&(\w+)\[(.+)\.\.\]$', t)
        if m:
            return "(SFrom %s %s)" % (coq_str(m.group(1)), self.aexp(m.group(2)))
        if re.match(r'^\w+$', t):
            return "(SVar %s)" % coq_str(t)
        self.fail("slice `%s`" % t)

    def result(self, t):
        if t == 'FeedResult::Consumed':
            return "RConsumed"
        m = re.match(r'^FeedResult::(OverFull|DeserError)\((.+)\)$', t)
        if m:
            return "(R%s %s)" % (m.group(1), self.slice_(m.group(2)))
        self.fail("result `%s`" % t)

    def stmt(self):
        s = self.s
        if s.startswith('ifletSome(', self.i):
            self.eat('ifletSome(')
            n = self.until(')')
            self.eat('=')
            j = s.index('{', self.i)
            v = s[self.i:j]
            self.i = j
            th = self.block()
            self.eat('else')
            el = self.block()
            return "AIfSome %s %s [%s] [%s]" % (coq_str(n), coq_str(v), '; '.join(th), '; '.join(el))
        if s.startswith('if', self.i) and not s.startswith('iflet', self.i):
            self.eat('if')
            j = s.index('{', self.i)
            c = s[self.i:j]
            self.i = j
            th = self.block()
            el = []
            if s.startswith('else', self.i):
                self.eat('else')
                el = self.block()
            return "AIfC %s [%s] [%s]" % (self.cond(c), '; '.join(th), '; '.join(el))
        if s.startswith('let(', self.i):
            self.eat('let(')
            a = self.until(',')
            b = self.until(')')
            self.eat('=')
            e = self.until(';')
            m = re.match(r'^(\w+)\.split_at\((.+)\)$', e)
            if not m:
                self.fail("pair binding `%s`" % e)
            return "ALetSplit %s %s %s %s" % (coq_str(a), coq_str(b), coq_str(m.group(1)), self.aexp(m.group(2)))
        if s.startswith('let', self.i):
            self.eat('let')
            name = self.until('=')
            e = self.until(';')
            m = re.match(r'^(\w+)\.iter\(\)\.position\(\|&(\w+)\|(\w+)==0\)$', e)
            if m and m.group(2) == m.group(3):
                return "ALetZeroPos %s %s" % (coq_str(name), coq_str(m.group(1)))
            m = re.match(r'^matchcrate::from_bytes_cobs::<T>\(&mutself\.buf\[\.\.self\.idx\]\)\{Ok\((\w+)\)=>FeedResult::Success\{data:(\w+),remaining:(\w+),\},Err\(_\)=>FeedResult::DeserError\((\w+)\),\}$', e)
            if m and m.group(1) == m.group(2):
                return "ALetDecode %s %s %s" % (coq_str(name), coq_str(m.group(3)), coq_str(m.group(4)))
            return "ALetN %s %s" % (coq_str(name), self.aexp(e))
        if s.startswith('self.idx=', self.i):
            self.eat('self.idx=')
            return "ASetIdx %s" % self.aexp(self.until(';'))
        if s.startswith('self.extend_unchecked(', self.i):
            self.eat('self.extend_unchecked(')
            v = self.until(')')
            self.eat(';')
            return "AExtend %s" % coq_str(v)
        if s.startswith('return', self.i):
            self.eat('return')
            return "ARet %s" % self.result(self.until(';'))
        # tail expression: up to the closing brace of the enclosing block
        j = self.i
        d = 0
        while j < len(s):
            if s[j] in '([{':
                d += 1
            elif s[j] in ')]}':
                if d == 0:
                    break
                d -= 1
            j += 1
        t = s[self.i:j]
        self.i = j
        if re.match(r'^\w+$', t):
            return "ARetVar %s" % coq_str(t)
        return "ARet %s" % self.result(t)


def gen_accumulator(src, attempt):
    out = ["(* GENERATED by tools/translate.py from the Rust sources. Do not edit. *)",
           "From PV Require Import Base AccDecl.", "Open Scope N_scope.", "",
           "(* source/postcard/src/accumulator.rs: CobsAccumulator::feed_ref as a statement tree *)"]
    text = src('source/postcard/src/accumulator.rs')

    def body():
        sig, b = find_fn(text, 'feed_ref')
        m = re.search(r'\(&\'de\s*mut\s+self\s*,\s*(\w+)\s*:', sig)
        if not m:
            raise Untranslatable("feed_ref: signature `%s`" % ' '.join(sig.split()))
        p = AccParser('{' + compact(b) + '}', 'accumulator.rs:feed_ref')
        stmts = p.block()
        sig2, b2 = find_fn(text, 'extend_unchecked')
        if compact(b2) != 'letnew_end=self.idx+input.len();self.buf[self.idx..new_end].copy_from_slice(input);self.idx=new_end;':
            raise Untranslatable("extend_unchecked is `%s`" % compact(b2)[:120])
        sig3, b3 = find_fn(text, 'feed')
        if compact(b3) != 'self.feed_ref(input)':
            raise Untranslatable("feed is `%s`" % compact(b3)[:120])
        return ("Definition feed_ref_input : list N := %s.\nDefinition feed_ref_body : list astmt :=\n  [%s]." % (coq_str(m.group(1)), ';\n   '.join(stmts)))
    attempt(out, 'accumulator.rs:feed_ref', body, 'feed_ref_body')
    return '\n'.join(out) + '\n'


# ----------------------------------------------------------------------------------------
# GenPtrCode.v: the raw-pointer methods of the two Slice flavours (ser/flavors.rs, de/flavors.rs)

class PtrParser(AccParser):
    """statement trees over raw-pointer fields (start / cursor / end)"""

    def pexp(self, t):
        t = t.strip()
        while t.startswith('(') and t.endswith(')') and self.balanced(t[1:-1]):
            t = t[1:-1]
        m = re.match(r'^\((.+)asusize\)-\((.+)asusize\)$', t)
        if m and self.balanced(m.group(1)) and self.balanced(m.group(2)):
            return "(PDiff %s %s)" % (self.pexp(m.group(1)), self.pexp(m.group(2)))
        m = re.match(r'^self\.(\w+)$', t)
        if m:
            return "(PField %s)" % coq_str(m.group(1))
        m = re.match(r'^(.+)\.add\((\w+)\)$', t)
        if m and self.balanced(m.group(1)):
            return "(PAddP %s %s)" % (self.pexp(m.group(1)), self.pexp(m.group(2)))
        m = re.match(r'^(\w+)\.len\(\)$', t)
        if m:
            return "(PLenOf %s)" % coq_str(m.group(1))
        if re.match(r'^\d+$', t):
            return "(PConst %s)" % t
        if re.match(r'^\w+$', t):
            return "(PVar %s)" % coq_str(t)
        self.fail("pointer expression `%s`" % t)

    def pcond(self, t):
        for op, ctor in (('==', 'PEq'), ('<=', 'PLe'), ('>=', 'PGe'), ('<', 'PLt'), ('>', 'PGt')):
            k = t.find(op)
            if k > 0:
                return "(%s %s %s)" % (ctor, self.pexp(t[:k]), self.pexp(t[k + len(op):]))
        self.fail("condition `%s`" % t)

    def tail(self, t):
        m = re.match(r'^Err\(Error::(\w+)\)$', t)
        if m:
            return "PRetErr %s" % m.group(1)
        if t == 'Ok(())':
            return "PRetUnit"
        m = re.match(r'^Ok\((\w+)\)$', t)
        if m:
            return "PRetVar %s" % coq_str(m.group(1))
        m = re.match(r'^Ok\(core::slice::from_raw_parts(?:_mut)?\((.+),(\w+)\)\)$', t)
        if m:
            return "PRetSlice %s %s" % (self.pexp(m.group(1)), self.pexp(m.group(2)))
        m = re.match(r'^Some\((.+)\)$', t)
        if m:
            return "PRetSome %s" % self.pexp(m.group(1))
        m = re.match(r'^&mut\*(.+)$', t)
        if m:
            return "PRetPlace %s" % self.pexp(m.group(1))
        if re.match(r'^\w+$', t):
            return "PRetVar %s" % coq_str(t)
        self.fail("tail expression `%s`" % t)

    def stmt(self):
        s = self.s
        if s.startswith('unsafe{', self.i):
            self.eat('unsafe')
            inner = self.block()
            return '; '.join(inner)
        if s.startswith('if', self.i):
            self.eat('if')
            j = s.index('{', self.i)
            c = s[self.i:j]
            self.i = j
            th = self.block()
            el = []
            if s.startswith('else', self.i):
                self.eat('else')
                el = self.block()
            return "PIf %s [%s] [%s]" % (self.pcond(c), '; '.join(th), '; '.join(el))
        if s.startswith('assert!(', self.i):
            self.eat('assert!(')
            c = self.until(')')
            self.eat(';')
            return "PAssert %s" % self.pcond(c)
        if s.startswith('return', self.i):
            self.eat('return')
            return self.tail(self.until(';'))
        if s.startswith('let', self.i):
            self.eat('let')
            name = self.until('=')
            e = self.until(';')
            m = re.match(r'^Ok\(\*(.+)\)$', e)
            if m:
                return "PLetOkDeref %s %s" % (coq_str(name), self.pexp(m.group(1)))
            m = re.match(r'^(?:unsafe\{)?core::slice::from_raw_parts(?:_mut)?\((.+),(\w+)\)\}?$', e)
            if m:
                return "PLetSlice %s %s %s" % (coq_str(name), self.pexp(m.group(1)), self.pexp(m.group(2)))
            return "PLet %s %s" % (coq_str(name), self.pexp(e))
        m = re.match(r'^self\.(\w+)=', s[self.i:])
        if m:
            self.eat('self.' + m.group(1) + '=')
            return "PSetField %s %s" % (coq_str(m.group(1)), self.pexp(self.until(';')))
        if s.startswith('core::ptr::copy_nonoverlapping(', self.i):
            self.eat('core::ptr::copy_nonoverlapping(')
            a = self.until(',')
            b = self.until(',')
            n = self.until(')')
            self.eat(';')
            m = re.match(r'^(\w+)\.as_ptr\(\)$', a)
            if not m:
                self.fail("copy source `%s`" % a)
            return "PCopy %s %s %s" % (coq_str(m.group(1)), self.pexp(b), self.pexp(n))
        m = re.match(r'^(self\.\w+)\.write\((\w+)\);', s[self.i:])
        if m:
            self.i += len(m.group(0))
            return "PWrite %s %s" % (self.pexp(m.group(1)), coq_str(m.group(2)))
        # tail expression
        j = self.i
        d = 0
        while j < len(s):
            if s[j] in '([{':
                d += 1
            elif s[j] in ')]}':
                if d == 0:
                    break
                d -= 1
            j += 1
        t = s[self.i:j]
        self.i = j
        if t.startswith('unsafe{') and t.endswith('}'):
            t = t[7:-1]
        return self.tail(t)


PTR_METHODS = [
    ('source/postcard/src/ser/flavors.rs', r"impl<'a>\s*Flavor\s+for\s+Slice<'a>", 'try_push', 'ser_slice_try_push'),
    ('source/postcard/src/ser/flavors.rs', r"impl<'a>\s*Flavor\s+for\s+Slice<'a>", 'try_extend', 'ser_slice_try_extend'),
    ('source/postcard/src/ser/flavors.rs', r"impl<'a>\s*Flavor\s+for\s+Slice<'a>", 'finalize', 'ser_slice_finalize'),
    ('source/postcard/src/ser/flavors.rs', r"impl\s+IndexMut<usize>\s+for\s+Slice<'_>", 'index_mut', 'ser_slice_index_mut'),
    ('source/postcard/src/de/flavors.rs', r"impl<'de>\s*Flavor<'de>\s+for\s+Slice<'de>", 'pop', 'de_slice_pop'),
    ('source/postcard/src/de/flavors.rs', r"impl<'de>\s*Flavor<'de>\s+for\s+Slice<'de>", 'size_hint', 'de_slice_size_hint'),
    ('source/postcard/src/de/flavors.rs', r"impl<'de>\s*Flavor<'de>\s+for\s+Slice<'de>", 'try_take_n', 'de_slice_try_take_n'),
    ('source/postcard/src/de/flavors.rs', r"impl<'de>\s*Flavor<'de>\s+for\s+Slice<'de>", 'finalize', 'de_slice_finalize'),
]


def gen_ptr_code(src, attempt):
    out = ["(* GENERATED by tools/translate.py from the Rust sources. Do not edit. *)",
           "From PV Require Import Base PtrDecl.", "Open Scope N_scope.", "",
           "(* the raw-pointer methods of the two Slice flavours as statement trees *)"]
    for path, impl_re, meth, coq in PTR_METHODS:
        def one(path=path, impl_re=impl_re, meth=meth, coq=coq):
            text = src(path)
            m = re.search(impl_re, text)
            if not m:
                raise Untranslatable("%s: impl `%s` not found" % (path.split('/')[-1], impl_re))
            sig, body = find_fn(text[m.end():], meth)
            ps = [p for p in params_of(sig)]
            p = PtrParser('{' + compact(body) + '}', '%s:%s' % (path.split('/')[-2] + '/' + path.split('/')[-1], meth))
            stmts = p.block()
            return "Definition %s : list (list N) * list pstmt :=\n  ([%s], [%s])." % (coq, '; '.join(coq_str(x) for x in ps), '; '.join(stmts))
        attempt(out, '%s:Slice::%s' % (path.split('/')[-2], meth), one, coq)
    return '\n'.join(out) + '\n'


# ----------------------------------------------------------------------------------------
# GenModifiers.v: the COBS and CRC modifier flavours (ser/flavors.rs, de/flavors.rs)

def mod_steps(text, what):
    """statements of a modifier method body -> step list; the last statement is the tail"""
    out = []
    stmts = split_stmts_keep(text)
    for k, (s, semi) in enumerate(stmts):
        last = (k == len(stmts) - 1)
        m = re.match(r'^self\.flav\[(\w+)\]=(\w+)$', s)
        if m:
            out.append("MSet %s %s" % (coq_str(m.group(1)), coq_str(m.group(2))))
            continue
        m = re.match(r'^self\.flav\.try_push\((\w+)\)(\?)?$', s)
        if m:
            arg = "(MByteConst %s)" % m.group(1) if m.group(1).isdigit() else "(MByteVar %s)" % coq_str(m.group(1))
            # a result that is neither propagated with `?` nor returned is dropped
            out.append("MPush %s %s" % (arg, 'true' if (m.group(2) or (last and not semi)) else 'false'))
            continue
        if s == 'self.flav.finalize()' and last and not semi:
            out.append("MInnerFinalize")
            continue
        m = re.match(r'^self\.digest\.update\(&\[(\w+)\]\)$', s)
        if m:
            out.append("MDigestUpdate1 %s" % coq_str(m.group(1)))
            continue
        m = re.match(r'^self\.digest\.update\((\w+)\)$', s)
        if m:
            out.append("MDigestUpdate %s" % coq_str(m.group(1)))
            continue
        m = re.match(r'^let(\w+)=self\.digest\.finalize\(\)$', s)
        if m:
            out.append("MLetCrc %s" % coq_str(m.group(1)))
            continue
        m = re.match(r'^for(\w+)in(\w+)\.to_le_bytes\(\)\{self\.flav\.try_push\((\w+)\)\?;\}$', s)
        if m and m.group(1) == m.group(3):
            out.append("MForLePush %s" % coq_str(m.group(2)))
            continue
        m = re.match(r'^let\((\w+),(\w+)\)=self\.cobs\.finalize\(\)$', s)
        if m:
            out.append("MLetCobsFinalize %s %s" % (coq_str(m.group(1)), coq_str(m.group(2))))
            continue
        if s == 'usePushResult::*':
            continue
        m = re.match(r'^matchself\.cobs\.push\((\w+)\)\{(.*)\}$', s)
        if m:
            arms = []
            for arm in split_arms(m.group(2)):
                am = re.match(r'^(?:PushResult::)?(\w+)\(\(?([\w,]+)\)?\)=>(.*)$', compact(arm), re.S)
                if not am:
                    raise Untranslatable("%s: arm `%s`" % (what, arm[:60]))
                body = am.group(3).strip()
                if body.startswith('{') and body.endswith('}'):
                    body = body[1:-1]
                binders = [b for b in am.group(2).split(',') if b]
                arms.append("(%s, [%s], [%s])" % (coq_str(am.group(1)), '; '.join(coq_str(b) for b in binders), '; '.join(mod_steps(body, what))))
            out.append("MMatchCobsPush %s [%s]" % (coq_str(m.group(1)), '; '.join(arms)))
            continue
        raise Untranslatable("%s: statement `%s`" % (what, s[:80]))
    return out


def split_stmts_keep(body):
    """[(statement, ended_with_semicolon)]"""
    out, depth, cur = [], 0, ''
    for ch in body:
        if ch in '([{':
            depth += 1
        elif ch in ')]}':
            depth -= 1
        if ch == ';' and depth == 0:
            if cur.strip():
                out.append((compact(cur), True))
            cur = ''
        else:
            cur += ch
            if ch == '}' and depth == 0 and cur.strip().startswith('for'):
                out.append((compact(cur), True))        # a `for` block is a statement of its own
                cur = ''
    if cur.strip():
        out.append((compact(cur), False))
    return out


DE_CRC_POP = r'^matchself\.flav\.pop\(\)\{Ok\((\w+)\)=>\{self\.digest\.update\(&\[(\w+)\]\);Ok\((\w+)\)\}(\w+)@Err\(_\)=>(\w+),\}$'
DE_CRC_TAKE = r'^matchself\.flav\.try_take_n\((\w+)\)\{Ok\((\w+)\)=>\{self\.digest\.update\((\w+)\);Ok\((\w+)\)\}(\w+)@Err\(_\)=>(\w+),\}$'
DE_CRC_FIN = (r'^matchself\.flav\.try_take_n\(core::mem::size_of::<\$int>\(\)\)\{Ok\((\w+)\)=>matchself\.flav\.finalize\(\)\{Ok\((\w+)\)=>\{'
              r'let(\w+)=self\.digest\.finalize\(\);let(\w+)=(\w+)\.try_into\(\)\.map_err\(\|_\|Error::(\w+)\)\?;let(\w+)=<\$int>::from_le_bytes\((\w+)\);'
              r'if(\w+)==(\w+)\{Ok\((\w+)\)\}else\{Err\(Error::(\w+)\)\}\}(\w+)@Err\(_\)=>(\w+),\},Err\((\w+)\)=>Err\((\w+)\),\}$')


def gen_modifiers(src, attempt):
    out = ["(* GENERATED by tools/translate.py from the Rust sources. Do not edit. *)",
           "From PV Require Import Base ModDecl.", "Open Scope N_scope.", "",
           "(* the COBS and CRC modifier flavours *)"]
    ser = src('source/postcard/src/ser/flavors.rs')
    de = src('source/postcard/src/de/flavors.rs')

    def cobs():
        m = re.search(r'impl<B>\s*Flavor\s+for\s+Cobs<B>', ser)
        if not m:
            raise Untranslatable("impl Flavor for Cobs<B> not found")
        rows = []
        for meth, coq in (('try_push', 'cobs_try_push'), ('finalize', 'cobs_finalize_steps')):
            sig, body = find_fn(ser[m.end():], meth)
            rows.append("Definition %s : list (list N) * list mstep :=\n  ([%s], [%s])." % (coq, '; '.join(coq_str(p) for p in params_of(sig)), '; '.join(mod_steps(body, 'ser/flavors.rs:Cobs::' + meth))))
        sig, body = find_fn(ser, 'try_new')
        if compact(body) != 'bee.try_push(0).map_err(|_|Error::SerializeBufferFull)?;Ok(Self{flav:bee,cobs:EncoderState::default(),})':
            raise Untranslatable("Cobs::try_new is `%s`" % compact(body)[:120])
        rows.append("Definition cobs_try_new_pushes_placeholder : bool := true.")
        # which methods the impl defines (anything else is the trait's default)
        blk = block_after(ser[m.start():], r'impl<B>\s*Flavor\s+for\s+Cobs<B>[^{]*')
        rows.append("Definition cobs_methods : list (list N) := [%s]." % '; '.join(coq_str(x) for x in re.findall(r'\bfn\s+(\w+)', blk)))
        return '\n'.join(rows)
    attempt(out, 'ser/flavors.rs:Cobs', cobs, 'cobs_try_push')

    def crc_ser():
        i = ser.index('pub mod crc')
        mac = ser[i:]
        m = re.search(r'impl<\'a,\s*B>\s*Flavor\s+for\s+CrcModifier<\'a,\s*B,\s*\$int>', mac)
        if not m:
            raise Untranslatable("ser CrcModifier impl not found")
        rows = []
        for meth, coq in (('try_push', 'crc_try_push'), ('finalize', 'crc_finalize_steps')):
            sig, body = find_fn(mac[m.end():], meth)
            rows.append("Definition %s : list (list N) * list mstep :=\n  ([%s], [%s])." % (coq, '; '.join(coq_str(p) for p in params_of(sig)), '; '.join(mod_steps(body, 'ser/flavors.rs:CrcModifier::' + meth))))
        widths = re.findall(r'impl_flavor!\((u\d+),', mac)
        rows.append("Definition crc_ser_widths : list (list N) := [%s]." % '; '.join(coq_str(w) for w in widths))
        blk = block_after(mac[m.start():], r"impl<'a,\s*B>\s*Flavor\s+for\s+CrcModifier<'a,\s*B,\s*\$int>[^{]*")
        rows.append("Definition crc_ser_methods : list (list N) := [%s]." % '; '.join(coq_str(x) for x in re.findall(r'\bfn\s+(\w+)', blk)))
        return '\n'.join(rows)
    attempt(out, 'ser/flavors.rs:CrcModifier', crc_ser, 'crc_try_push')

    def crc_de():
        i = de.index('macro_rules! impl_flavor')
        mac = de[i:]
        sig, body = find_fn(mac, 'pop')
        m = re.match(DE_CRC_POP, compact(body))
        if not m or len({m.group(1), m.group(2), m.group(3)}) != 1 or m.group(4) != m.group(5):
            raise Untranslatable("de CrcModifier::pop is `%s`" % compact(body)[:160])
        sig, body = find_fn(mac, 'try_take_n')
        m = re.match(DE_CRC_TAKE, compact(body))
        if not m or len({m.group(2), m.group(3), m.group(4)}) != 1 or m.group(5) != m.group(6):
            raise Untranslatable("de CrcModifier::try_take_n is `%s`" % compact(body)[:160])
        sig, body = find_fn(mac, 'size_hint')
        if compact(body) != 'self.flav.size_hint()':
            raise Untranslatable("de CrcModifier::size_hint is `%s`" % compact(body)[:100])
        sig, body = find_fn(mac, 'finalize')
        m = re.match(DE_CRC_FIN, compact(body))
        if not m:
            raise Untranslatable("de CrcModifier::finalize is `%s`" % compact(body)[:200])
        g = m.groups()
        prev, rem, crc, leb, prev2, errenc, prevcrc, leb2, c1, c2, rem2, errcrc, e1, e2, e3, e4 = g
        ok = (prev == prev2 and leb == leb2 and rem == rem2 and {c1, c2} == {crc, prevcrc} and e1 == e2 and e3 == e4)
        if not ok:
            raise Untranslatable("de CrcModifier::finalize: bindings do not line up")
        widths = re.findall(r'impl_flavor!\((u\d+),', mac)
        # the two entry points: decode through the modifier, then finalize (which checks the checksum
        # that follows the consumed bytes)
        sig, body = find_fn(mac, '$from_bytes')
        if compact(body) != 'letflav=CrcModifier::new(Slice::new(s),digest);letmutdeserializer=Deserializer::from_flavor(flav);letr=T::deserialize(&mutdeserializer)?;let_=deserializer.finalize()?;Ok(r)':
            raise Untranslatable("de crc $from_bytes is `%s`" % compact(body)[:160])
        sig, body = find_fn(mac, '$take_from_bytes')
        if compact(body) != 'letflav=CrcModifier::new(Slice::new(s),digest);letmutdeserializer=Deserializer::from_flavor(flav);lett=T::deserialize(&mutdeserializer)?;Ok((t,deserializer.finalize()?))':
            raise Untranslatable("de crc $take_from_bytes is `%s`" % compact(body)[:160])
        return ("Definition crc_de_pop_updates_digest_with_the_byte : bool := true.\n"
                "Definition crc_de_entry_points_finalize_through_the_modifier : bool := true.\n"
                "Definition crc_de_take_updates_digest_with_the_bytes : bool := true.\n"
                "Definition crc_de_finalize : error * error := (%s, %s).   (* checksum bytes missing / checksum mismatch *)\n"
                "Definition crc_de_widths : list (list N) := [%s]." % (errenc, errcrc, '; '.join(coq_str(w) for w in widths)))
    attempt(out, 'de/flavors.rs:CrcModifier', crc_de, 'crc_de_finalize')
    return '\n'.join(out) + '\n'


# ----------------------------------------------------------------------------------------
# GenEntryPoints.v: the slice / COBS entry points of de/mod.rs, by templates up to renaming

ENTRY_TEMPLATES = {
    'from_bytes': "let mut $d = Deserializer :: from_bytes ( $s ) ; let $t = T :: deserialize ( & mut $d ) ? ; Ok ( $t )",
    'take_from_bytes': "let mut $d = Deserializer :: from_bytes ( $s ) ; let $t = T :: deserialize ( & mut $d ) ? ; Ok ( ( $t , $d . finalize ( ) ? ) )",
    'from_bytes_cobs': "let $sz = decode_in_place ( $s ) . map_err ( | _ | Error :: DeserializeBadEncoding ) ? ; from_bytes :: < T > ( & $s [ .. $sz ] )",
    'take_from_bytes_cobs': ("let mut $report = decode_in_place_report ( $s ) . map_err ( | _ | Error :: DeserializeBadEncoding ) ? ; "
                             "if $s . get ( $report . src_used ) == Some ( & 0 ) { $report . src_used += 1 ; } "
                             "let ( $dst_used , $dst_unused ) = $s . split_at_mut ( $report . dst_used ) ; "
                             "let ( $unused , $src_unused ) = $dst_unused . split_at_mut ( $report . src_used - $report . dst_used ) ; "
                             "Ok ( ( from_bytes :: < T > ( $dst_used ) ? , $src_unused ) )"),
}


def gen_entry_points(src, attempt, match_template, tokenize):
    out = ["(* GENERATED by tools/translate.py from the Rust sources. Do not edit. *)",
           "From PV Require Import Base.", "Open Scope N_scope.", "",
           "(* source/postcard/src/de/mod.rs: the slice and COBS entry points match their templates (up to",
           "   renaming of locals): decode in place, deserialize the decoded prefix, hand back what follows *)"]
    text = src('source/postcard/src/de/mod.rs')

    def go():
        for name, tmpl in ENTRY_TEMPLATES.items():
            sig, body = find_fn(text, name)
            toks = [t[1] for t in tokenize(body)]
            cap = match_template(toks, tmpl.split(), 'de/mod.rs:' + name)
            pm = re.search(r'\(\s*(\w+)\s*:', sig)
            if not pm or cap.get('$s') != pm.group(1):
                raise Untranslatable("de/mod.rs:%s: `%s` is not the parameter" % (name, cap.get('$s')))
        return "Definition de_entry_points_standard : bool := true."
    attempt(out, 'de/mod.rs:entry points', go, 'de_entry_points_standard')
    return '\n'.join(out) + '\n'


# ----------------------------------------------------------------------------------------
# GenFixint.v: fixint.rs (the two wrapper types, the eight integer types, the two serde-with modules)

def gen_fixint(src, attempt):
    out = ["(* GENERATED by tools/translate.py from the Rust sources. Do not edit. *)",
           "From PV Require Import Base.", "Open Scope N_scope.", "",
           "(* source/postcard/src/fixint.rs *)"]
    text = src('source/postcard/src/fixint.rs')

    def go():
        mac = block_after(text, r'macro_rules!\s*impl_fixint\s*')
        rows = []
        for w in ('LE', 'BE'):
            ms = re.search(r'impl\s+Serialize\s+for\s+' + w + r'<\$int>\s*\{(.*?)\n            \}', mac, re.S)
            md = re.search(r"impl<'de>\s*Deserialize<'de>\s+for\s+" + w + r'<\$int>\s*\{(.*?)\n            \}', mac, re.S)
            if not ms or not md:
                raise Untranslatable("fixint.rs: impls for %s not found" % w)
            sig, sb = find_fn(ms.group(1), 'serialize')
            sig, db = find_fn(md.group(1), 'deserialize')
            m1 = re.match(r'^self\.0\.(\w+)\(\)\.serialize\(serializer\)$', compact(sb))
            m2 = re.match(r'^<_asDeserialize>::deserialize\(deserializer\)\.map\(<\$int>::(\w+)\)\.map\(Self\)$', compact(db))
            if not m1 or not m2:
                raise Untranslatable("fixint.rs: %s bodies are `%s` / `%s`" % (w, compact(sb)[:80], compact(db)[:80]))
            rows.append("(%s, (%s, %s))" % (coq_str(w), coq_str(m1.group(1)), coq_str(m2.group(1))))
        types = re.search(r'impl_fixint!\[(.*?)\]', text, re.S)
        if not types:
            raise Untranslatable("fixint.rs: impl_fixint! invocation not found")
        tys = [t.strip() for t in types.group(1).split(',') if t.strip()]
        mods = []
        for modname in ('le', 'be'):
            body = block_after(text, r'pub\s+mod\s+' + modname + r'\s*')
            sig, sb = find_fn(body, 'serialize')
            sig, db = find_fn(body, 'deserialize')
            m1 = re.match(r'^(\w+)\(\*val\)\.serialize\(serializer\)$', compact(sb))
            m2 = re.match(r'^(\w+)::<T>::deserialize\(deserializer\)\.map\(\|x\|x\.0\)$', compact(db))
            if not m1 or not m2 or m1.group(1) != m2.group(1):
                raise Untranslatable("fixint.rs: mod %s is `%s` / `%s`" % (modname, compact(sb)[:80], compact(db)[:80]))
            mods.append("(%s, %s)" % (coq_str(modname), coq_str(m1.group(1))))
        return ("Definition fixint_wrappers : list (list N * (list N * list N)) := [%s].\n"
                "Definition fixint_types : list (list N) := [%s].\n"
                "Definition fixint_modules : list (list N * list N) := [%s]." % ('; '.join(rows), '; '.join(coq_str(t) for t in tys), '; '.join(mods)))
    attempt(out, 'fixint.rs', go, 'fixint_wrappers')
    return '\n'.join(out) + '\n'


# ----------------------------------------------------------------------------------------
# GenDynArms.v: the scalar arms of postcard-dyn's ser_named_type

def dyn_ser_arm(kind, body, what):
    stmts = split_stmts(body)
    i = 0
    m = re.match(r'^letval=value\.(as_\w+)\(\)\.right\(\)\?$', stmts[i])
    if not m:
        raise Untranslatable("%s: first statement `%s`" % (what, stmts[i]))
    acc = m.group(1)
    i += 1
    conv = "CNone"
    narrow = False
    if i < len(stmts):
        m = re.match(r'^letval=(\w+)::try_from\(val\)\?$', stmts[i])
        if m:
            conv = "(CTryFrom %s)" % coq_str(m.group(1))
            i += 1
        else:
            m = re.match(r'^letval=(\w+)::from\(val\)$', stmts[i])
            if m:
                conv = "(CFrom %s)" % coq_str(m.group(1))
                i += 1
            elif stmts[i] == 'letval=valasf32':
                narrow = True
                i += 1
                if i < len(stmts) and stmts[i].startswith('if!val.is_finite(){returnErr(Error::SchemaMismatch);}'):
                    stmts[i] = stmts[i][len('if!val.is_finite(){returnErr(Error::SchemaMismatch);}'):]
                    if not stmts[i]:
                        i += 1
                    conv = "CNarrowFinite"
                else:
                    conv = "CNarrow"
    zz = "None"
    if i < len(stmts):
        m = re.match(r'^letval=zig_zag_i(\d+)\(val\)$', stmts[i])
        if m:
            zz = "(Some %s)" % m.group(1)
            i += 1
    rest = stmts[i:]
    if rest == ['out.push(ifval{0x01}else{0x00})']:
        emit = "EPushBool"
    elif rest == ['out.push(valasu8)']:
        emit = "EPushAsU8"
    elif rest == ['out.push(val)']:
        emit = "EPush"
    elif len(rest) == 3:
        m1 = re.match(r'^letmutbuf=\[0u8;varint_max::<(\w+)>\(\)\]$', rest[0])
        m2 = re.match(r'^letused=varint_(\w+)\(val,&mutbuf\)$', rest[1])
        if not (m1 and m2 and rest[2] == 'out.extend_from_slice(used)'):
            raise Untranslatable("%s: emission `%s`" % (what, ';'.join(rest)))
        emit = "(EVarint %s %s)" % (coq_str(m1.group(1)), coq_str(m2.group(1)))
    elif rest == ['letval=val.to_le_bytes()', 'out.extend_from_slice(&val)']:
        emit = "ELeBytes"
    else:
        raise Untranslatable("%s: emission `%s`" % (what, ';'.join(rest)[:120]))
    return "(%s, DA %s %s %s %s)" % (coq_str(kind), coq_str(acc), conv, zz, emit)


def dyn_de_arm(kind, body, what):
    stmts = split_stmts(body)
    if not stmts or stmts[-1] != 'Ok((val,rest))':
        raise Untranslatable("%s: last statement `%s`" % (what, stmts[-1] if stmts else ''))
    stmts = stmts[:-1]
    i = 0
    cur = None
    if stmts[0] == 'let(one,rest)=data.take_one()?':
        take = "TOne"
        cur = 'one'
    else:
        m = re.match(r'^let\(val,rest\)=try_take_varint_(\w+)\(data\)\?$', stmts[0])
        if m:
            take = "(TVarint %s)" % coq_str(m.group(1))
            cur = 'val'
        else:
            m = re.match(r'^let\(val,rest\)=data\.take_n\((\d+)\)\?$', stmts[0])
            if not m:
                raise Untranslatable("%s: first statement `%s`" % (what, stmts[0]))
            take = "(TTakeN %s)" % m.group(1)
            cur = 'val'
    i = 1
    steps = []
    final = None
    while i < len(stmts):
        st = stmts[i]
        if cur == 'one' and st == 'letval=matchone{0=>Value::Bool(false),1=>Value::Bool(true),_=>returnErr(Error::SchemaMismatch),}':
            steps.append("KMatchBool")
            final = "FVal"
            i += 1
            break
        if cur == 'one' and st == 'letval=Value::Number(Number::from(oneasi8))':
            steps.append("KAsI8")
            final = "FNumber"
            i += 1
            break
        if st == 'letval=Value::Number(Number::from(%s))' % cur:
            final = "FNumber"
            i += 1
            break
        m = re.match(r'^letval=de_zig_zag_i(\d+)\(val\)$', st)
        if m and cur == 'val':
            steps.append("(KZigZag %s)" % m.group(1))
            i += 1
            continue
        m = re.match(r'^letval=(\w+)::try_from\(val\)\.map_err\(\|_\|Error::(\w+)\)\?$', st)
        if m and cur == 'val':
            steps.append("(KTryFrom %s %s)" % (coq_str(m.group(1)), coq_str(m.group(2))))
            i += 1
            continue
        m = re.match(r'^letmutbuf=\[0u8;(\d+)\]$', st)
        if m and cur == 'val' and i + 2 < len(stmts) and stmts[i + 1] == 'buf.copy_from_slice(val)':
            m2 = re.match(r'^letf=(f32|f64)::from_le_bytes\(buf\)$', stmts[i + 2])
            if not m2:
                raise Untranslatable("%s: statement `%s`" % (what, stmts[i + 2]))
            steps.append("(KFromLe %s %s)" % (m.group(1), coq_str(m2.group(1))))
            cur = 'f'
            i += 3
            continue
        if cur == 'f' and st == 'letval=Value::Number(Number::from_f64(f.into()).right()?)':
            final = "(FFromF64 true)"
            i += 1
            break
        if cur == 'f' and st == 'letval=Value::Number(Number::from_f64(f).right()?)':
            final = "(FFromF64 false)"
            i += 1
            break
        raise Untranslatable("%s: statement `%s`" % (what, st[:120]))
    if final is None or i != len(stmts):
        raise Untranslatable("%s: statements after the value is built: `%s`" % (what, ';'.join(stmts[i:])[:120]))
    return "(%s, DDA %s [%s] %s)" % (coq_str(kind), take, '; '.join(steps), final)


def norm_arm_key(pat):
    """a `match ty` arm pattern, compacted, with the identifiers it binds replaced by their position
    (so that renaming a pattern binding does not change the key); returns (key, bound names)"""
    c = re.sub(r'\s+', '', pat)
    names = []

    def idx(n):
        if n not in names:
            names.append(n)
        return '#%d' % names.index(n)

    def walk(t):
        # alternatives
        parts = split_top(t, '|') if '|' in t else [t]
        if len(parts) > 1:
            return '|'.join(walk(x) for x in parts)
        m = re.match(r'^([A-Za-z_][\w:]*)\((.*)\)$', t)
        if m:
            return '%s(%s)' % (m.group(1), ','.join(walk(x) for x in split_top(m.group(2))))
        m = re.match(r'^([A-Za-z_][\w:]*)\{(.*)\}$', t)
        if m:
            items = []
            for it in split_top(m.group(2)):
                if ':' in it and not it.startswith('::'):
                    f, sub = it.split(':', 1)
                    items.append('%s:%s' % (f, walk(sub)))
                else:
                    items.append('%s:%s' % (it, idx(it)))       # shorthand `field` binds `field`
            return '%s{%s}' % (m.group(1), ','.join(items))
        if re.match(r'^[a-z][a-z0-9_]*$', t):
            return idx(t)
        return t
    return walk(c), names


DYN_SCALARS = ['Bool', 'I8', 'U8', 'I16', 'I32', 'I64', 'I128', 'U16', 'U32', 'U64', 'U128', 'Usize', 'F32', 'F64']


def gen_dyn_arms(src, attempt):
    out = ["(* GENERATED by tools/translate.py from the Rust sources. Do not edit. *)",
           "From PV Require Import Base DynArmDecl.", "Open Scope N_scope.", "",
           "(* source/postcard-dyn/src/ser.rs: the scalar arms of ser_named_type *)"]
    text = src('source/postcard-dyn/src/ser.rs')

    def go():
        sig, body = find_fn(text, 'ser_named_type')
        mbody = block_after(body, r'\bmatch\s+ty\s*')
        rows = []
        arms = {}
        for arm in split_arms(mbody):
            m = re.match(r'^OwnedDataModelType::(\w+)\s*=>\s*\{(.*)\}$', arm.strip(), re.S)
            if m:
                arms[m.group(1)] = m.group(2)
        for k in DYN_SCALARS:
            if k not in arms:
                raise Untranslatable("dyn ser.rs: no arm for %s" % k)
            rows.append(dyn_ser_arm(k, arms[k], 'dyn ser.rs:' + k))
        return "Definition dyn_ser_scalar_arms : list (list N * dser_arm) :=\n  [%s]." % ';\n   '.join(rows)
    attempt(out, 'postcard-dyn/ser.rs:scalar arms', go, 'dyn_ser_scalar_arms')
    out += ["", "(* source/postcard-dyn/src/de.rs: the scalar arms of deserialize *)"]
    dtext = src('source/postcard-dyn/src/de.rs')

    def god():
        sig, body = find_fn(dtext, 'deserialize')
        mbody = block_after(body, r'\bmatch\s+ty\s*')
        rows = []
        arms = {}
        for arm in split_arms(mbody):
            m = re.match(r'^OwnedDataModelType::(\w+)\s*=>\s*\{(.*)\}$', arm.strip(), re.S)
            if m:
                arms[m.group(1)] = m.group(2)
        for k in DYN_SCALARS:
            if k not in arms:
                raise Untranslatable("dyn de.rs: no arm for %s" % k)
            rows.append(dyn_de_arm(k, arms[k], 'dyn de.rs:' + k))
        return "Definition dyn_de_scalar_arms : list (list N * dde_arm) :=\n  [%s]." % ';\n   '.join(rows)
    attempt(out, 'postcard-dyn/de.rs:scalar arms', god, 'dyn_de_scalar_arms')
    return '\n'.join(out) + '\n'


# ----------------------------------------------------------------------------------------
# GenStorages.v: the storage flavours of ser/flavors.rs (HVec, AllocVec, ExtendFlavor, Size, the
# two WriteFlavors) and the trait's default try_extend, each method body as one storage operation
STORAGE_IMPLS = [
    ('HVec', r'impl<const\s+B:\s*usize>\s*Flavor\s+for\s+HVec<B>', None),
    ('AllocVec', r'impl\s+Flavor\s+for\s+AllocVec', None),
    ('ExtendFlavor', r'impl<T>\s*Flavor\s+for\s+ExtendFlavor<T>', None),
    ('Size', r'impl\s+Flavor\s+for\s+Size', None),
    ('eio::WriteFlavor', r'impl<T>\s*Flavor\s+for\s+WriteFlavor<T>', 'pub mod eio'),
    ('io::WriteFlavor', r'impl<T>\s*Flavor\s+for\s+WriteFlavor<T>', 'pub mod io'),
]
STORAGE_INDEX = [
    ('HVec', r'impl<const\s+B:\s*usize>\s*IndexMut<usize>\s+for\s+HVec<B>'),
    ('AllocVec', r'impl\s+IndexMut<usize>\s+for\s+AllocVec'),
]


def storage_op(body, params, what):
    c = compact(body)
    d = params[0] if params else None
    E = r'\.map_err\(\|_\|Error::(\w+)\)'
    forms = [
        (r'^self\.vec\.push\(%s\)%s$' % (d, E), lambda m: "OVecPush (Some %s)" % m.group(1)),
        (r'^self\.vec\.extend_from_slice\(%s\)%s$' % (d, E), lambda m: "OVecExtend (Some %s)" % m.group(1)),
        (r'^self\.vec\.push\(%s\);Ok\(\(\)\)$' % d, lambda m: "OVecPush None"),
        (r'^self\.vec\.extend_from_slice\(%s\);Ok\(\(\)\)$' % d, lambda m: "OVecExtend None"),
        (r'^self\.iter\.extend\(\[%s\]\);Ok\(\(\)\)$' % d, lambda m: "OIterExtendOne"),
        (r'^self\.iter\.extend\(%s\.iter\(\)\.copied\(\)\);Ok\(\(\)\)$' % d, lambda m: "OIterExtendAll"),
        (r'^self\.size\+=1;Ok\(\(\)\)$', lambda m: "OSizeAddOne"),
        (r'^self\.size\+=%s\.len\(\);Ok\(\(\)\)$' % d, lambda m: "OSizeAddLen"),
        (r'^self\.writer\.write_all\(&\[%s\]\)%s\?;Ok\(\(\)\)$' % (d, E), lambda m: "OWriteAllOne %s" % m.group(1)),
        (r'^self\.writer\.write_all\(%s\)%s\?;Ok\(\(\)\)$' % (d, E), lambda m: "OWriteAll %s" % m.group(1)),
        (r'^self\.writer\.flush\(\)%s\?;Ok\(self\.writer\)$' % E, lambda m: "OFlushReturn %s" % m.group(1)),
        (r'^Ok\(self\.(vec|iter|size)\)$', lambda m: "OReturnStore"),
        (r'^%s\.iter\(\)\.try_for_each\(\|(\w+)\|self\.try_push\(\*(\w+)\)\)$' % d,
         lambda m: "ODefaultExtend" if m.group(1) == m.group(2) else None),
        (r'^&mutself\.vec\[%s\]$' % d, lambda m: "OIndexVec"),
    ]
    for rx, mk in forms:
        m = re.match(rx, c)
        if m:
            r = mk(m)
            if r is not None:
                return r
    raise Untranslatable("%s: body `%s`" % (what, c[:140]))


def gen_storages(src, attempt):
    out = ["(* GENERATED by tools/translate.py from the Rust sources. Do not edit. *)",
           "From PV Require Import Base StorageDecl.", "Open Scope N_scope.", "",
           "(* source/postcard/src/ser/flavors.rs: the storage flavours *)"]
    ser = src('source/postcard/src/ser/flavors.rs')

    def go():
        rows = []
        # the trait's default try_extend
        i = ser.index('pub trait Flavor')
        sig, body = find_fn(ser[i:], 'try_extend')
        rows.append("(%s, [(%s, %s)])" % (coq_str('Flavor'), coq_str('try_extend'), storage_op(body, params_of(sig), 'ser/flavors.rs:Flavor::try_extend (default)')))
        for name, rx, mod in STORAGE_IMPLS:
            text = ser
            if mod is not None:
                k = ser.index(mod)
                text = ser[k:]
            m = re.search(rx, text)
            if not m:
                raise Untranslatable("impl Flavor for %s not found" % name)
            blk = block_after(text[m.start():], rx + r'[^{]*')
            meths = re.findall(r'\bfn\s+(\w+)', blk)
            ms = []
            for meth in sorted(meths):
                sig, body = find_fn(blk, meth)
                ms.append("(%s, %s)" % (coq_str(meth), storage_op(body, params_of(sig), 'ser/flavors.rs:%s::%s' % (name, meth))))
            rows.append("(%s, [%s])" % (coq_str(name), '; '.join(ms)))
        for name, rx in STORAGE_INDEX:
            m = re.search(rx, ser)
            if not m:
                raise Untranslatable("impl IndexMut for %s not found" % name)
            blk = block_after(ser[m.start():], rx + r'[^{]*')
            sig, body = find_fn(blk, 'index_mut')
            rows.append("(%s, [(%s, %s)])" % (coq_str(name + '/IndexMut'), coq_str('index_mut'), storage_op(body, params_of(sig), 'ser/flavors.rs:%s::index_mut' % name)))
        return "Definition storage_methods : list (list N * list (list N * sop)) :=\n  [%s]." % ';\n   '.join(rows)
    attempt(out, 'ser/flavors.rs:storages', go, 'storage_methods')
    return '\n'.join(out) + '\n'


# ----------------------------------------------------------------------------------------
# GenIoReaders.v: SlidingBuffer and the two reader flavours of de/flavors.rs, by templates up to
# renaming of locals; the holes (comparison, error kinds) become a record
SLIDING_T = {
    'new': "Self { cursor : $sli . as_mut_ptr ( ) , end : unsafe { $sli . as_ptr ( ) . add ( $sli . len ( ) ) } , _pl : PhantomData , }",
    'size': "( self . end as usize ) - ( self . cursor as usize )",
    'take_n': ("let $remain = ( self . end as usize ) - ( self . cursor as usize ) ; "
               "let $buff = if $remain ?CMP $ct { return Err ( Error :: ?ERR ) ; } else { "
               "unsafe { let $sli = core :: slice :: from_raw_parts_mut ( self . cursor , $ct ) ; "
               "self . cursor = self . cursor . add ( $ct ) ; $sli } } ; Ok ( $buff )"),
    'complete': ("let $remain = ( self . end as usize ) - ( self . cursor as usize ) ; "
                 "unsafe { Ok ( core :: slice :: from_raw_parts_mut ( self . cursor , $remain ) ) }"),
}
READER_T = {
    'new': "Self { $reader , buff : SlidingBuffer :: new ( $buff ) , }",
    'pop': ("let mut $val = [ 0 ; 1 ] ; self . reader . read_exact ( & mut $val ) . map_err ( | _ | Error :: ?POPERR ) ? ; "
            "Ok ( $val [ 0 ] )"),
    'size_hint': "Some ( self . buff . size ( ) )",
    'try_take_n': ("let $buff = self . buff . take_n ( $ct ) ? ; "
                   "self . reader . read_exact ( $buff ) . map_err ( | _ | Error :: ?TAKEERR ) ? ; Ok ( $buff )"),
    'finalize': "let $buf = self . buff . complete ( ) ? ; Ok ( ( self . reader , $buf ) )",
}
CMP_COQ = {'<': 'CLt', '<=': 'CLe', '>': 'CGt', '>=': 'CGe', '==': 'CEq', '!=': 'CNe'}


def gen_io_readers(src, attempt, match_template, tokenize):
    out = ["(* GENERATED by tools/translate.py from the Rust sources. Do not edit. *)",
           "From PV Require Import Base VarintParams IoReaderDecl.", "Open Scope N_scope.", "",
           "(* source/postcard/src/de/flavors.rs: SlidingBuffer, EIOReader, IOReader *)"]
    de = src('source/postcard/src/de/flavors.rs')

    def params_are(sig, cap, names, what):
        ps = params_of(sig)
        for hole, idx in names:
            if idx >= len(ps) or cap.get(hole) != ps[idx]:
                raise Untranslatable("%s: `%s` is not parameter %d" % (what, cap.get(hole), idx))

    def sliding():
        m = re.search(r"impl<'de>\s*SlidingBuffer<'de>", de)
        if not m:
            raise Untranslatable("impl SlidingBuffer not found")
        blk = block_after(de[m.start():], r"impl<'de>\s*SlidingBuffer<'de>[^{]*")
        caps = {}
        for name, tmpl in SLIDING_T.items():
            sig, body = find_fn(blk, name)
            toks = [t[1] for t in tokenize(body)]
            caps[name] = match_template(toks, tmpl.split(), 'de/flavors.rs:SlidingBuffer::' + name)
            if name == 'take_n':
                params_are(sig, caps[name], [('$ct', 0)], 'SlidingBuffer::take_n')
            if name == 'new':
                params_are(sig, caps[name], [('$sli', 0)], 'SlidingBuffer::new')
        meths = re.findall(r'\bfn\s+(\w+)', blk)
        if sorted(meths) != sorted(SLIDING_T):
            raise Untranslatable("SlidingBuffer defines %s" % meths)
        c = caps['take_n']['?CMP']
        if c not in CMP_COQ:
            raise Untranslatable("SlidingBuffer::take_n compares with `%s`" % c)
        return "Definition sliding_src : sliding_params := {| sl_cmp := %s; sl_err := %s |}." % (CMP_COQ[c], caps['take_n']['?ERR'])
    attempt(out, 'de/flavors.rs:SlidingBuffer', sliding, 'sliding_src')

    for coq, struct, modname in (('eioreader_src', 'EIOReader', 'pub mod eio'), ('ioreader_src', 'IOReader', 'pub mod io {\n        use super::super::Flavor')):
        def reader(struct=struct, modname=modname, coq=coq):
            k = de.find(modname)
            if k < 0:
                k = [m.start() for m in re.finditer(r'pub mod io\b', de)][-1]
            text = de[k:]
            m = re.search(r"impl<'de,\s*T>\s*Flavor<'de>\s+for\s+%s<'de,\s*T>" % struct, text)
            if not m:
                raise Untranslatable("impl Flavor for %s not found" % struct)
            blk = block_after(text[m.start():], r"impl<'de,\s*T>\s*Flavor<'de>\s+for\s+%s<'de,\s*T>[^{]*" % struct)
            caps = {}
            for name in ('pop', 'size_hint', 'try_take_n', 'finalize'):
                sig, body = find_fn(blk, name)
                toks = [t[1] for t in tokenize(body)]
                caps[name] = match_template(toks, READER_T[name].split(), 'de/flavors.rs:%s::%s' % (struct, name))
                if name == 'try_take_n':
                    params_are(sig, caps[name], [('$ct', 0)], struct + '::try_take_n')
            meths = re.findall(r'\bfn\s+(\w+)', blk)
            if sorted(meths) != ['finalize', 'pop', 'size_hint', 'try_take_n']:
                raise Untranslatable("%s defines %s" % (struct, meths))
            m2 = re.search(r"impl<'de,\s*T>\s*%s<'de,\s*T>" % struct, text)
            if not m2:
                raise Untranslatable("impl %s not found" % struct)
            blk2 = block_after(text[m2.start():], r"impl<'de,\s*T>\s*%s<'de,\s*T>[^{]*" % struct)
            sig, body = find_fn(blk2, 'new')
            toks = [t[1] for t in tokenize(body)]
            cap = match_template(toks, READER_T['new'].split(), 'de/flavors.rs:%s::new' % struct)
            params_are(sig, cap, [('$reader', 0), ('$buff', 1)], struct + '::new')
            return "Definition %s : reader_params := {| rp_pop_err := %s; rp_take_err := %s |}." % (coq, caps['pop']['?POPERR'], caps['try_take_n']['?TAKEERR'])
        attempt(out, 'de/flavors.rs:' + struct, reader, coq)
    return '\n'.join(out) + '\n'


# ----------------------------------------------------------------------------------------
# GenSerEntry.v: the entry points of ser/mod.rs (and the CRC ones of ser/flavors.rs): which flavour
# stack each hands to serialize_with_flavor; serialize_with_flavor itself by template
SER_ENTRIES = ['to_slice_cobs', 'to_slice', 'to_vec_cobs', 'to_vec', 'to_stdvec', 'to_stdvec_cobs', 'to_allocvec',
               'to_allocvec_cobs', 'to_extend', 'to_eio', 'to_io', 'to_slice_crc32', 'to_vec_crc32', 'to_stdvec_crc32',
               'to_allocvec_crc32', 'serialized_size']
SWF_T = ("let mut $ser = Serializer { output : $storage } ; $value . serialize ( & mut $ser ) ? ; "
         "$ser . output . finalize ( ) . map_err ( | _ | Error :: ?ERR )")
DE_IO_T = ("let $flavor = flavors :: io :: ?MOD :: ?READER :: new ( $val . 0 , $val . 1 ) ; "
           "let mut $d = Deserializer :: from_flavor ( $flavor ) ; let $t = T :: deserialize ( & mut $d ) ? ; "
           "Ok ( ( $t , $d . finalize ( ) ? ) )")


def stack_expr(e, params, what):
    e = e.strip().rstrip(',').strip()
    c = compact(e)
    stores = [(r'^Slice::new\((\w+)\)$', 'Slice', 1), (r'^HVec::default\(\)$', 'HVec', None), (r'^AllocVec::new\(\)$', 'AllocVec', None),
              (r'^flavors::ExtendFlavor::new\((\w+)\)$', 'ExtendFlavor', 1), (r'^flavors::eio::WriteFlavor::new\((\w+)\)$', 'eio::WriteFlavor', 1),
              (r'^flavors::io::WriteFlavor::new\((\w+)\)$', 'io::WriteFlavor', 1), (r'^flavors::Size::default\(\)$', 'Size', None)]
    for rx, name, argi in stores:
        m = re.match(rx, c)
        if m:
            if argi is not None and (len(params) < 2 or m.group(1) != params[1]):
                raise Untranslatable("%s: `%s` is built from `%s`, not from the second parameter" % (what, name, m.group(1)))
            return "(KStore %s)" % coq_str(name)
    m = re.match(r'^Cobs::try_new\((.*)\)\?$', c)
    if m:
        return "(KCobs %s)" % stack_expr(m.group(1), params, what)
    m = re.match(r'^CrcModifier::new\((.*),(\w+)\)$', c)
    if m:
        if m.group(2) != params[-1]:
            raise Untranslatable("%s: CrcModifier built with `%s`" % (what, m.group(2)))
        return "(KCrc %s)" % stack_expr(m.group(1), params, what)
    raise Untranslatable("%s: flavour expression `%s`" % (what, c[:100]))


def entry_row(name, sig, body, what):
    params = params_of(sig)
    c = compact(body)
    c = re.sub(r'^use\s*super::\w+;', '', c)
    c = re.sub(r'^usesuper::\w+;', '', c)
    m = re.match(r'^serialize_with_flavor(?:::<.*?>)?\((\w+),(.*)\)$', c)
    if m:
        # the turbofish, if any, ends at the `>` before `(value`
        m2 = re.match(r'^serialize_with_flavor(?:::<.*>)?\((%s),(.*)\)$' % re.escape(params[0]), c)
        if not m2:
            raise Untranslatable("%s: first argument is not the value" % what)
        return "(%s, %s)" % (coq_str(name), stack_expr(m2.group(2), params, what))
    m = re.match(r'^((?:\w+::)*\w+)\((.*)\)$', c)
    if m and m.group(2).split(',') == params:
        return "(%s, KAlias %s)" % (coq_str(name), coq_str(m.group(1)))
    raise Untranslatable("%s: body `%s`" % (what, c[:120]))


def gen_ser_entry(src, attempt, match_template, tokenize):
    out = ["(* GENERATED by tools/translate.py from the Rust sources. Do not edit. *)",
           "From PV Require Import Base SerEntryDecl.", "Open Scope N_scope.", "",
           "(* source/postcard/src/ser/mod.rs, ser/flavors.rs (crc), de/mod.rs: entry points *)"]
    ser = src('source/postcard/src/ser/mod.rs')
    fl = src('source/postcard/src/ser/flavors.rs')
    de = src('source/postcard/src/de/mod.rs')

    def stacks():
        rows = []
        for name in SER_ENTRIES:
            sig, body = find_fn(ser, name)
            rows.append(entry_row(name, sig, body, 'ser/mod.rs:' + name))
        i = fl.index('pub mod crc')
        mac = fl[i:]
        for name in ('$to_slice', '$to_vec', '$to_allocvec'):
            sig, body = find_fn(mac, name)
            rows.append(entry_row('crc::' + name[1:], sig, body, 'ser/flavors.rs:crc::' + name))
        inst = re.findall(r'impl_flavor!\((u\d+),\s*(\w+),\s*(\w+),\s*(\w+)\)', mac)
        irows = ["(%s, [%s])" % (coq_str(w), '; '.join(coq_str(x) for x in (a, b, c))) for w, a, b, c in inst]
        return ("Definition ser_entry_stacks : list (list N * sstack) :=\n  [%s].\n"
                "Definition crc_ser_instances : list (list N * list (list N)) :=\n  [%s]." % (';\n   '.join(rows), '; '.join(irows)))
    attempt(out, 'ser/mod.rs:entry points', stacks, 'ser_entry_stacks')

    def swf():
        sig, body = find_fn(ser, 'serialize_with_flavor')
        toks = [t[1] for t in tokenize(body)]
        cap = match_template(toks, SWF_T.split(), 'ser/mod.rs:serialize_with_flavor')
        ps = params_of(sig)
        if [cap['$value'], cap['$storage']] != ps:
            raise Untranslatable("serialize_with_flavor: parameters %s" % ps)
        return "Definition serialize_with_flavor_finalize_err : error := %s." % cap['?ERR']
    attempt(out, 'ser/mod.rs:serialize_with_flavor', swf, 'serialize_with_flavor_finalize_err')

    def deio():
        rows = []
        for name in ('from_eio', 'from_io'):
            sig, body = find_fn(de, name)
            toks = [t[1] for t in tokenize(body)]
            cap = match_template(toks, DE_IO_T.split(), 'de/mod.rs:' + name)
            if [cap['$val']] != params_of(sig):
                raise Untranslatable("de/mod.rs:%s: parameters" % name)
            rows.append("(%s, %s)" % (coq_str(name), coq_str(cap['?MOD'] + '::' + cap['?READER'])))
        for name in ('from_bytes_crc32', 'take_from_bytes_crc32'):
            sig, body = find_fn(de, name)
            m = re.match(r'^flavors::crc::(\w+)\((.*)\)$', compact(body))
            if not m or m.group(2).split(',') != params_of(sig):
                raise Untranslatable("de/mod.rs:%s: body `%s`" % (name, compact(body)[:100]))
            rows.append("(%s, %s)" % (coq_str(name), coq_str('crc::' + m.group(1))))
        return "Definition de_entry_readers : list (list N * list N) :=\n  [%s]." % ';\n   '.join(rows)
    attempt(out, 'de/mod.rs:io and crc entry points', deio, 'de_entry_readers')
    return '\n'.join(out) + '\n'


# ----------------------------------------------------------------------------------------
# GenDynComposite.v: the non-scalar arms of postcard-dyn's two walks, matched token for token (up to
# renaming of locals) against the templates of tools/dyn_arm_templates.json; the holes (error kinds,
# tag bytes) are emitted
def gen_dyn_composite(src, attempt, match_template, tokenize):
    import json
    import os
    out = ["(* GENERATED by tools/translate.py from the Rust sources. Do not edit. *)",
           "From PV Require Import Base.", "Open Scope N_scope.", "",
           "(* postcard-dyn: the non-scalar arms of ser_named_type / deserialize match their templates; the",
           "   error kinds and byte literals at the holes *)"]
    tpl = json.load(open(os.path.join(os.path.dirname(os.path.abspath(__file__)), 'dyn_arm_templates.json')))
    for tag, path, fname in (('ser', 'source/postcard-dyn/src/ser.rs', 'ser_named_type'),
                             ('de', 'source/postcard-dyn/src/de.rs', 'deserialize')):
        def go(tag=tag, path=path, fname=fname):
            text = src(path)
            sig, body = find_fn(text, fname)
            mbody = block_after(body, r'\bmatch\s+ty\s*')
            arms = {}
            for arm in split_arms(mbody):
                m = re.match(r'^(.*?)=>\s*(.*)$', arm.strip(), re.S)
                if not m:
                    raise Untranslatable("dyn %s: arm `%s`" % (fname, arm[:60]))
                key, b = norm_arm_key(m.group(1))[0], m.group(2).strip()
                if b.startswith('{') and b.endswith('}'):
                    b = b[1:-1]
                arms[key] = b
            scal = set('OwnedDataModelType::' + k for k in DYN_SCALARS)
            extra = sorted(set(arms) - scal - set(tpl[tag]))
            if extra:
                raise Untranslatable("dyn %s: unknown arm `%s`" % (fname, extra[0][:80]))
            rows = []
            for key in sorted(tpl[tag]):
                if key not in arms:
                    raise Untranslatable("dyn %s: no arm `%s`" % (fname, key[:80]))
                toks = [t[1] for t in tokenize(arms[key])]
                cap = match_template(toks, tpl[tag][key]['template'].split(), 'dyn %s: arm %s' % (fname, key[:50]))
                hs = sorted((h for h in tpl[tag][key]['holes']), key=lambda x: (x[1], int(x[2:])))
                rows.append("(%s, [%s])" % (coq_str(key), '; '.join(coq_str(cap[h]) for h in hs)))
            return "Definition dyn_%s_composite_holes : list (list N * list (list N)) :=\n  [%s]." % (tag, ';\n   '.join(rows))
        attempt(out, 'postcard-dyn:%s composite arms' % fname, go, 'dyn_%s_composite_holes' % tag)
    return '\n'.join(out) + '\n'


# ----------------------------------------------------------------------------------------
# GenFnTemplates.v: whole functions matched token for token (up to renaming of locals and parameters)
# against tools/fn_templates.json
def gen_fn_templates(src, attempt, match_template, tokenize, tags=None):
    import json
    import os
    out = ["(* GENERATED by tools/translate.py from the Rust sources. Do not edit. *)",
           "From PV Require Import Base.", "Open Scope N_scope.", "",
           "(* functions whose bodies match, token for token up to renaming of locals, the code the hand",
           "   model was written from *)"]
    tpl = json.load(open(os.path.join(os.path.dirname(os.path.abspath(__file__)), 'fn_templates.json')))
    for tag in sorted(tpl):
        if tags is not None and tag not in tags:
            continue

        def go(tag=tag):
            text = src(tpl[tag]['path'])
            names = sorted(tpl[tag]['fns'])
            for n in names:
                if n.startswith('@'):
                    k = text.find(n[1:])
                    if k < 0:
                        raise Untranslatable("%s: `%s` not found" % (tpl[tag]['path'], n[1:]))
                    body = text[k:]
                else:
                    sig, body = find_fn(text, n)
                toks = [t[1] for t in tokenize(body)]
                match_template(toks, tpl[tag]['fns'][n], '%s:%s' % (tpl[tag]['path'].split('/')[-1], n))
            return "Definition %s_fns_matched : list (list N) := [%s]." % (tag, '; '.join(coq_str(n) for n in names))
        attempt(out, '%s: function templates' % tpl[tag]['path'], go, '%s_fns_matched' % tag)
    return '\n'.join(out) + '\n'
