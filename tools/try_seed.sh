#!/bin/sh
# try_seed.sh <patch.diff> <Cxx> [Cyy ...]: apply a seeded change to /repo, run the named checks, undo it.
set -u
PATCH="$1"; shift
cd /repo || exit 2
git apply --check "$PATCH" || { echo "patch does not apply"; exit 2; }
git apply "$PATCH"
for p in "$@"; do
  ( cd /verif && python3 tools/check.py "$p" --tier quick 2>&1 | grep -v WARNING | tail -4 )
done
git -C /repo checkout -- . 
git -C /repo status --short | head -3
( cd /verif && python3 tools/translate.py >/dev/null )
