open Model
open Util

(* ---------- operations ---------- *)
let run_op (op : string) (args : string list) : string =
  match op, args with
  | "enc", [ v ] ->
    let v = value_of_sexp (parse_sexp v) in
    (match ser_err v with
     | None -> "ok " ^ hex_of_bytes (enc v)
     | Some e -> "err:" ^ string_of_error e)
  | "encops", [ v ] ->
    let v = value_of_sexp (parse_sexp v) in
    let ops, e = ser_ops v in
    String.concat " " (List.map string_of_op ops)
    ^ (match e with None -> "" | Some e -> "|err:" ^ string_of_error e)
  | "de", [ t; bs ] ->
    let t = ty_of_sexp (parse_sexp t) in
    string_of_res (fun (v, rest) -> string_of_value v ^ " " ^ hex_of_bytes rest) (de_slice t (bytes_of_hex bs))
  | "hastype", [ t; v ] ->
    if has_type (value_of_sexp (parse_sexp v)) (ty_of_sexp (parse_sexp t)) then "1" else "0"
  | "fixint", [ order; k; z ] ->
    let be = order = "be" in
    let k = ikind_of_string k in
    let z = z_of_hex z in
    let bs = fix_bytes be k z in
    let back =
      match de_slice (fix_ty k) bs with
      | Ok (v, []) -> (match fix_decode be k v with Some z' -> hex_of_z z' | None -> "nodecode")
      | _ -> "undecodable"
    in
    hex_of_bytes (enc (fix_value be k z)) ^ " " ^ back
  | _ -> failwith ("unknown op " ^ op)

