open Model
open Util

(* ---------- operations ---------- *)
let run_op (op : string) (args : string list) : string =
  match op, args with
  | "enc", [ v ] ->
    let v = value_of_sexp (parse_sexp v) in
    (match ser_err v with
     | None -> "ok " ^ hex_of_bytes (enc v)
     | Some e -> "err:" ^ string_of_error e)
  | "encops", [ v ] ->
    let v = value_of_sexp (parse_sexp v) in
    let ops, e = ser_ops v in
    String.concat " " (List.map string_of_op ops)
    ^ (match e with None -> "" | Some e -> "|err:" ^ string_of_error e)
  | "de", [ t; bs ] ->
    let t = ty_of_sexp (parse_sexp t) in
    string_of_res (fun (v, rest) -> string_of_value v ^ " " ^ hex_of_bytes rest) (de_slice t (bytes_of_hex bs))
  | "hastype", [ t; v ] ->
    if has_type (value_of_sexp (parse_sexp v)) (ty_of_sexp (parse_sexp t)) then "1" else "0"
  | "fixint", [ order; k; z ] ->
    let be = order = "be" in
    let k = ikind_of_string k in
    let z = z_of_hex z in
    let bs = fix_bytes be k z in
    let back =
      match de_slice (fix_ty k) bs with
      | Ok (v, []) -> (match fix_decode be k v with Some z' -> hex_of_z z' | None -> "nodecode")
      | _ -> "undecodable"
    in
    hex_of_bytes (enc (fix_value be k z)) ^ " " ^ back
  | "specenc", [ v ] -> hex_of_bytes (spec_enc (value_of_sexp (parse_sexp v)))
  | "specde", [ t; bs ] ->
    string_of_res (fun (v, rest) -> string_of_value v ^ " " ^ hex_of_bytes rest) (spec_de (ty_of_sexp (parse_sexp t)) (bytes_of_hex bs))
  (* ---- storage flavours ---- *)
  | "toslice", [ v; cap ] ->
    let buf = List.init (int_of_string cap) (fun _ -> canary) in
    string_of_res (fun (out, whole) -> hex_of_bytes out ^ " " ^ hex_of_bytes whole) (to_slice (value_of_sexp (parse_sexp v)) buf)
  | "tovec", [ v; cap ] -> string_of_res hex_of_bytes (to_vec (nat_of_int (int_of_string cap)) (value_of_sexp (parse_sexp v)))
  | "toallocvec", [ v ] -> string_of_res hex_of_bytes (to_allocvec (value_of_sexp (parse_sexp v)))
  | "toextend", [ v; pre ] -> string_of_res hex_of_bytes (to_extend (value_of_sexp (parse_sexp v)) (bytes_of_hex pre))
  | "toio", [ v; limit; flush ] ->
    let lim = if limit = "-" then None else Some (nat_of_int (int_of_string limit)) in
    string_of_res hex_of_bytes (to_io (value_of_sexp (parse_sexp v)) lim (flush = "1"))
  | "toioc", [ v; events; flush ] ->
    let ev e =
      if e = "i" then WrInterrupted else if e = "z" then WrZero else if e = "f" then WrFail
      else if String.length e > 1 && e.[0] = 't' then WrTake (nat_of_int (int_of_string (String.sub e 1 (String.length e - 1))))
      else failwith ("bad write event " ^ e) in
    let sched = if events = "-" then [] else List.map ev (String.split_on_char ',' events) in
    string_of_res hex_of_bytes (to_io_c (value_of_sexp (parse_sexp v)) sched (flush = "1"))
  | "size", [ v ] -> string_of_res (fun n -> string_of_int (int_of_n n)) (serialized_size (value_of_sexp (parse_sexp v)))
  | "toslice_cobs", [ v; cap ] ->
    let buf = List.init (int_of_string cap) (fun _ -> canary) in
    string_of_res (fun (out, whole) -> hex_of_bytes out ^ " " ^ hex_of_bytes whole) (to_slice_cobs (value_of_sexp (parse_sexp v)) buf)
  | "tovec_cobs", [ v; cap ] -> string_of_res hex_of_bytes (to_vec_cobs (nat_of_int (int_of_string cap)) (value_of_sexp (parse_sexp v)))
  | "toallocvec_cobs", [ v ] -> string_of_res hex_of_bytes (to_allocvec_cobs (value_of_sexp (parse_sexp v)))
  | "toslice_crc", [ alg; v; cap ] ->
    let a, nb = alg_of_string alg in
    let buf = List.init (int_of_string cap) (fun _ -> canary) in
    string_of_res (fun (out, whole) -> hex_of_bytes out ^ " " ^ hex_of_bytes whole) (to_slice_crc a nb (value_of_sexp (parse_sexp v)) buf)
  | "tovec_crc", [ alg; v; cap ] ->
    let a, nb = alg_of_string alg in
    string_of_res hex_of_bytes (to_vec_crc a nb (nat_of_int (int_of_string cap)) (value_of_sexp (parse_sexp v)))
  | "toallocvec_crc", [ alg; v ] ->
    let a, nb = alg_of_string alg in
    string_of_res hex_of_bytes (to_allocvec_crc a nb (value_of_sexp (parse_sexp v)))
  | "toslice_crc_cobs", [ alg; v; cap ] ->
    let a, nb = alg_of_string alg in
    let buf = List.init (int_of_string cap) (fun _ -> canary) in
    string_of_res (fun (out, whole) -> hex_of_bytes out ^ " " ^ hex_of_bytes whole) (to_slice_crc_cobs a nb (value_of_sexp (parse_sexp v)) buf)
  | "tovec_crc_cobs", [ alg; v; cap ] ->
    let a, nb = alg_of_string alg in
    string_of_res hex_of_bytes (to_vec_crc_cobs a nb (nat_of_int (int_of_string cap)) (value_of_sexp (parse_sexp v)))
  | "toallocvec_crc_cobs", [ alg; v ] ->
    let a, nb = alg_of_string alg in
    string_of_res hex_of_bytes (to_allocvec_crc_cobs a nb (value_of_sexp (parse_sexp v)))
  | "recorder", [ v; ov ] ->
    string_of_res
      (fun calls -> String.concat " " (List.map (function CPush b -> "p:" ^ String.sub (hex_of_bytes [ b ]) 1 2 | CExtend bs -> "e:" ^ hex_of_bytes bs) calls))
      (to_recorder (ov = "1") (value_of_sexp (parse_sexp v)))
  | "crcalg", [ alg ] ->
    let a, _ = alg_of_string alg in
    if alg_okb a then "1" else "0"
  | "crc", [ alg; bs ] ->
    let a, _ = alg_of_string alg in
    hex_of_n (crc a (bytes_of_hex bs))
  (* ---- decode side ---- *)
  | "deptr", [ t; bs ] ->
    string_of_res (fun (v, rest) -> string_of_value v ^ " " ^ hex_of_bytes rest) (take_from_bytes_ptr (ty_of_sexp (parse_sexp t)) (bytes_of_hex bs))
  | "fromio", [ t; bs; limit; scratch ] ->
    let lim = if limit = "-" then None else Some (nat_of_int (int_of_string limit)) in
    let sc = List.init (int_of_string scratch) (fun _ -> canary) in
    string_of_res
      (fun (v, ((rd, scr), cur)) -> Printf.sprintf "%s %s %d %s" (string_of_value v) (hex_of_bytes rd.rd_data) (int_of_nat cur) (hex_of_bytes scr))
      (from_io (ty_of_sexp (parse_sexp t)) { rd_data = bytes_of_hex bs; rd_limit = lim } sc)
  | "fromioc", [ t; bs; events; scratch ] ->
    (* the reader delivers its data in pieces: one event per call of read *)
    let ev e =
      if e = "i" then RdInterrupted else if e = "z" then RdZero else if e = "f" then RdFail
      else if String.length e > 1 && e.[0] = 'g' then RdGive (nat_of_int (int_of_string (String.sub e 1 (String.length e - 1))))
      else failwith ("bad read event " ^ e) in
    let sched = if events = "-" then [] else List.map ev (String.split_on_char ',' events) in
    let sc = List.init (int_of_string scratch) (fun _ -> canary) in
    string_of_res
      (fun (v, ((rd, scr), cur)) -> Printf.sprintf "%s %s %d %s" (string_of_value v) (hex_of_bytes rd.cr_data) (int_of_nat cur) (hex_of_bytes scr))
      (from_io_c (ty_of_sexp (parse_sexp t)) { cr_data = bytes_of_hex bs; cr_sched = sched } sc)
  | "decrc", [ alg; t; bs ] ->
    let a, nb = alg_of_string alg in
    string_of_res (fun (v, rest) -> string_of_value v ^ " " ^ hex_of_bytes rest) (take_from_bytes_crc a nb (ty_of_sexp (parse_sexp t)) (bytes_of_hex bs))
  | "cobsdec", [ bs ] ->
    (match decode_in_place_report (bytes_of_hex bs) with
     | Ok None -> "bad"
     | Ok (Some (buf, rep)) -> Printf.sprintf "ok %d %d %s" (int_of_nat rep.dst_used) (int_of_nat rep.src_used) (hex_of_bytes (firstn_int (int_of_nat rep.dst_used) buf))
     | Err e -> "err:" ^ string_of_error e | Panic -> "panic" | Fault -> "fault" | OutOfFuel -> "outoffuel")
  | "frombytescobs", [ t; bs ] ->
    string_of_res (fun (v, _) -> string_of_value v) (from_bytes_cobs (ty_of_sexp (parse_sexp t)) (bytes_of_hex bs))
  | "takecobs", [ t; bs ] ->
    string_of_res (fun (v, rest) -> string_of_value v ^ " " ^ hex_of_bytes rest) (take_from_bytes_cobs (ty_of_sexp (parse_sexp t)) (bytes_of_hex bs))
  (* ---- accumulator: a list of feed calls, comma separated; after each call the result
     and the buffered bytes ---- *)
  | "acc", [ t; cap; chunks ] ->
    let t = ty_of_sexp (parse_sexp t) in
    let st = ref (acc_new (nat_of_int (int_of_string cap))) in
    let out = Buffer.create 64 in
    let dead = ref false in
    List.iter
      (fun c ->
        if not !dead then
          match feed t !st (bytes_of_hex c) with
          | Ok (st', r) ->
            st := st';
            Buffer.add_string out (string_of_feed r);
            Buffer.add_string out ("[" ^ hex_of_bytes (firstn_int (int_of_nat st'.a_idx) st'.a_buf) ^ "];")
          | Panic -> Buffer.add_string out "panic;"; dead := true
          | Fault -> Buffer.add_string out "fault;"; dead := true
          | OutOfFuel -> Buffer.add_string out "outoffuel;"; dead := true
          | Err e -> Buffer.add_string out ("err:" ^ string_of_error e ^ ";"); dead := true)
      (String.split_on_char ',' chunks);
    Buffer.contents out
  | "drive", [ t; cap; chunks ] ->
    let t = ty_of_sexp (parse_sexp t) in
    let st = ref (acc_new (nat_of_int (int_of_string cap))) in
    let out = Buffer.create 64 in
    let dead = ref false in
    List.iter
      (fun c ->
        if not !dead then
          match drive_chunk t !st (bytes_of_hex c) with
          | Ok (st', evs) ->
            st := st';
            List.iter (fun r -> Buffer.add_string out (string_of_feed r)) evs;
            Buffer.add_string out ("[" ^ hex_of_bytes (firstn_int (int_of_nat st'.a_idx) st'.a_buf) ^ "];")
          | Panic -> Buffer.add_string out "panic;"; dead := true
          | Fault -> Buffer.add_string out "fault;"; dead := true
          | OutOfFuel -> Buffer.add_string out "outoffuel;"; dead := true
          | Err e -> Buffer.add_string out ("err:" ^ string_of_error e ^ ";"); dead := true)
      (String.split_on_char ',' chunks);
    Buffer.contents out
  (* ---- schemas ---- *)
  | "schemaser", [ t ] ->
    let s = schema_of_sexp (parse_sexp t) in
    (match conv s with
     | Some s' -> "ok " ^ hex_of_bytes (enc (b s)) ^ " " ^ hex_of_bytes (enc (o s')) ^ " " ^ string_of_schema s'
     | None -> "noconv")
  | "schemade", [ bs ] ->
    string_of_res (fun (s, rest) -> string_of_schema s ^ " " ^ hex_of_bytes rest) (schema_de (bytes_of_hex bs))
  | "key", [ path; t ] ->
    let s = schema_of_sexp (parse_sexp t) in
    let p = bytes_of_hex path in
    let show = function Some k -> hex_of_bytes k | None -> "noarm" in
    show (key_const p s) ^ " " ^ show (key_owned p s) ^ " " ^ hex_of_bytes (spec_key p s)
  | "pseudocode", [ t ] -> string_of_res hex_of_bytes (pseudocode (schema_of_sexp (parse_sexp t)))
  | "usedtypes", [ t ] ->
    string_of_res
      (fun l -> String.concat " | " (List.sort_uniq compare (List.map string_of_schema l)))
      (used_types (schema_of_sexp (parse_sexp t)))
  (* ---- MaxSize ---- *)
  | "maxsize", [ t ] ->
    (match max_size (mty_of_sexp (parse_sexp t)) with
     | Some n -> string_of_int (int_of_n n)
     | None -> "norow")
  | "msval", [ t; v ] ->
    let v = value_of_sexp (parse_sexp v) in
    (if mhas v (mty_of_sexp (parse_sexp t)) then "1 " else "0 ") ^ string_of_int (List.length (enc v))
  (* ---- schema conformance ---- *)
  | "conform", [ sch; nv; bs ] ->
    let s = schema_of_sexp (parse_sexp sch) in
    let v = nvalue_of_sexp (parse_sexp nv) in
    let bytes = bytes_of_hex bs in
    let d = nat_of_int (List.length bytes + 1) in
    (if conforms d v s then "1 " else "0 ") ^ string_of_res hex_of_bytes (schema_skip d s bytes)
  (* ---- postcard-dyn ---- *)
  | "dynser", [ sch; j ] ->
    string_of_dres string_of_dyn_ser_error hex_of_bytes
      (dyn_ser host_int_to_f64 host_narrow (schema_of_sexp (parse_sexp sch)) (json_of_sexp (parse_sexp j)))
  | "dynde", [ sch; bs ] ->
    string_of_dres string_of_dyn_de_error string_of_json
      (from_slice_dyn host_widen (schema_of_sexp (parse_sexp sch)) (bytes_of_hex bs))
  | "jsonof", [ nv ] -> string_of_json (json_of host_widen (nvalue_of_sexp (parse_sexp nv)))
  | "inscope", [ sch; nv ] ->
    let s = schema_of_sexp (parse_sexp sch) in
    let v = nvalue_of_sexp (parse_sexp nv) in
    (if in_scope s then "1" else "0") ^ (if unamb v then "1" else "0") ^ (if small_seqs v then "1" else "0")
  | "styschema", [ t ] ->
    let t = sty_of_sexp (parse_sexp t) in
    (if sty_ok t then "ok " else "outside ") ^ (match schema_of t with Some s -> string_of_schema s | None -> "none")
  | "styemit", [ t; nv ] ->
    if emit_ok (nat_of_int 64) (sty_of_sexp (parse_sexp t)) (nvalue_of_sexp (parse_sexp nv)) then "1" else "0"
  | "reencscope", [ sch; js ] ->
    let s = schema_of_sexp (parse_sexp sch) in
    let j = json_of_sexp (parse_sexp js) in
    "scope=" ^ (if reenc_scope s then "1" else "0") ^ " wf=" ^ (if json_wf j then "1" else "0")
  | "dynbound", [ sch; bs ] ->
    (* the F9 classification of the schema; the size of the decoded value; whether it is within
       dslope * (input length) + doffset (always, by C18_allocation_bounded, when nz=1) *)
    let s = schema_of_sexp (parse_sexp sch) in
    let l = bytes_of_hex bs in
    let nz = dno_zero s in
    (match dyn_de host_widen s l with
     | DOk (j, _) ->
       let sz = jsize j in
       let bound = N.add (N.mul (dslope s) (n_of_int (List.length l))) (doffset s) in
       let within = (match N.compare sz bound with Gt -> false | _ -> true) in
       "nz=" ^ (if nz then "1" else "0") ^ " size=" ^ string_of_int (int_of_n sz) ^ (if nz && not within then " OVER" else "")
     | _ -> "nz=" ^ (if nz then "1" else "0") ^ " size=-")
  | _ -> failwith ("unknown op " ^ op)

