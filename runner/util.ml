(* util.ml, part of pvrunner: evaluates the extracted Coq model on the cases the harness wrote and compares
   with what the implementation did.  One case per line: OP <TAB> ARGS.. <TAB> OBSERVED.
   Prints `MISMATCH <line> <op> model=<..> impl=<..> input=<..>` per disagreement and a
   final `DONE cases=<n> mismatches=<m>` line. *)
open Model

(* ---------- numbers ---------- *)
let pos_shift_in (acc : n) (bit : bool) : n =
  match acc with
  | N0 -> if bit then Npos XH else N0
  | Npos p -> Npos (if bit then XI p else XO p)

let hexval c =
  match c with
  | '0' .. '9' -> Char.code c - 48
  | 'a' .. 'f' -> Char.code c - 87
  | 'A' .. 'F' -> Char.code c - 55
  | _ -> failwith (Printf.sprintf "bad hex digit %c" c)

let n_of_hex (s : string) : n =
  let acc = ref N0 in
  String.iter
    (fun c ->
      let d = hexval c in
      acc := pos_shift_in !acc (d land 8 <> 0);
      acc := pos_shift_in !acc (d land 4 <> 0);
      acc := pos_shift_in !acc (d land 2 <> 0);
      acc := pos_shift_in !acc (d land 1 <> 0))
    s;
  !acc

let bits_of_pos (p : positive) : bool list =
  (* least significant first *)
  let rec go p acc = match p with XH -> List.rev (true :: acc) | XO q -> go q (false :: acc) | XI q -> go q (true :: acc) in
  go p []

let hex_of_n (x : n) : string =
  match x with
  | N0 -> "0"
  | Npos p ->
    let bits = Array.of_list (bits_of_pos p) in
    let nb = Array.length bits in
    let nd = (nb + 3) / 4 in
    let b = Buffer.create nd in
    for d = nd - 1 downto 0 do
      let v = ref 0 in
      for k = 3 downto 0 do
        let i = (d * 4) + k in
        v := (!v * 2) + if i < nb && bits.(i) then 1 else 0
      done;
      Buffer.add_char b "0123456789abcdef".[!v]
    done;
    Buffer.contents b

let z_of_hex (s : string) : z =
  if String.length s > 0 && s.[0] = '-' then
    match n_of_hex (String.sub s 1 (String.length s - 1)) with N0 -> Z0 | Npos p -> Zneg p
  else match n_of_hex s with N0 -> Z0 | Npos p -> Zpos p

let hex_of_z (x : z) : string =
  match x with Z0 -> "0" | Zpos p -> hex_of_n (Npos p) | Zneg p -> "-" ^ hex_of_n (Npos p)

let int_of_n (x : n) : int =
  match x with
  | N0 -> 0
  | Npos p ->
    let rec go p = match p with XH -> 1 | XO q -> 2 * go q | XI q -> (2 * go q) + 1 in
    go p

let n_of_int (i : int) : n =
  let rec go i = if i = 1 then XH else if i land 1 = 0 then XO (go (i lsr 1)) else XI (go (i lsr 1)) in
  if i = 0 then N0 else Npos (go i)

let rec nat_of_int i = if i <= 0 then O else S (nat_of_int (i - 1))

let byte_tab = Array.init 256 n_of_int

(* bytes: "x" followed by hex pairs *)
let bytes_of_hex (s : string) : n list =
  if String.length s = 0 || s.[0] <> 'x' then failwith ("bad byte string " ^ s);
  let l = (String.length s - 1) / 2 in
  List.init l (fun i -> byte_tab.((hexval s.[1 + (2 * i)] * 16) + hexval s.[2 + (2 * i)]))

let hex_of_bytes (l : n list) : string =
  let b = Buffer.create ((2 * List.length l) + 1) in
  Buffer.add_char b 'x';
  List.iter (fun x ->
      let i = int_of_n x in
      if i > 255 then Buffer.add_string b (Printf.sprintf "[%s]" (hex_of_n x))
      else Buffer.add_string b (Printf.sprintf "%02x" i)) l;
  Buffer.contents b

(* ---------- s-expressions ---------- *)
type sexp = A of string | L of sexp list

let parse_sexp (s : string) : sexp =
  let n = String.length s in
  let pos = ref 0 in
  let rec skip () = if !pos < n && s.[!pos] = ' ' then (incr pos; skip ()) in
  let rec one () =
    skip ();
    if !pos >= n then failwith "sexp: unexpected end";
    if s.[!pos] = '(' then begin
      incr pos;
      let items = ref [] in
      let rec loop () =
        skip ();
        if !pos >= n then failwith "sexp: missing )";
        if s.[!pos] = ')' then incr pos else (items := one () :: !items; loop ())
      in
      loop ();
      L (List.rev !items)
    end else begin
      let st = !pos in
      while !pos < n && s.[!pos] <> ' ' && s.[!pos] <> '(' && s.[!pos] <> ')' do incr pos done;
      A (String.sub s st (!pos - st))
    end
  in
  let r = one () in
  skip ();
  if !pos <> n then failwith ("sexp: trailing input in " ^ s);
  r

let ikind_of_string = function
  | "i8" -> I8 | "i16" -> I16 | "i32" -> I32 | "i64" -> I64 | "i128" -> I128
  | "u8" -> U8 | "u16" -> U16 | "u32" -> U32 | "u64" -> U64 | "u128" -> U128
  | s -> failwith ("bad int kind " ^ s)

let string_of_ikind = function
  | I8 -> "i8" | I16 -> "i16" | I32 -> "i32" | I64 -> "i64" | I128 -> "i128"
  | U8 -> "u8" | U16 -> "u16" | U32 -> "u32" | U64 -> "u64" | U128 -> "u128"

let rec ty_of_sexp (e : sexp) : ty =
  match e with
  | A "bool" -> TBool
  | A "f32" -> TF32 | A "f64" -> TF64 | A "char" -> TChar | A "str" -> TStr | A "bytes" -> TBytes
  | A "unit" -> TUnit | A "ustruct" -> TUnitStruct
  | A k -> TInt (ikind_of_string k)
  | L [A "opt"; t] -> TOption (ty_of_sexp t)
  | L [A "nt"; t] -> TNewtype (ty_of_sexp t)
  | L [A "seq"; t] -> TSeq (ty_of_sexp t)
  | L (A "tup" :: ts) -> TTuple (List.map ty_of_sexp ts)
  | L (A "ts" :: ts) -> TTupleStruct (List.map ty_of_sexp ts)
  | L [A "map"; k; v] -> TMap (ty_of_sexp k, ty_of_sexp v)
  | L (A "st" :: ts) -> TStruct (List.map ty_of_sexp ts)
  | L (A "enum" :: ts) -> TEnum (List.map ty_of_sexp ts)
  | _ -> failwith "bad type"

let rec pairs l = match l with [] -> [] | a :: b :: r -> (a, b) :: pairs r | _ -> failwith "odd map"

let rec value_of_sexp (e : sexp) : value =
  match e with
  | L [A "b"; A "0"] -> VBool false
  | L [A "b"; A "1"] -> VBool true
  | L [A "i"; A k; A z] -> VInt (ikind_of_string k, z_of_hex z)
  | L [A "f32"; A h] -> VF32 (n_of_hex h)
  | L [A "f64"; A h] -> VF64 (n_of_hex h)
  | L [A "c"; A h] -> VChar (n_of_hex h)
  | L [A "s"; A h] -> VStr (bytes_of_hex h)
  | L [A "y"; A h] -> VBytes (bytes_of_hex h)
  | A "none" -> VNone
  | L [A "some"; v] -> VSome (value_of_sexp v)
  | A "unit" -> VUnit
  | A "ustruct" -> VUnitStruct
  | L [A "nt"; v] -> VNewtype (value_of_sexp v)
  | L (A "seq" :: vs) -> VSeq (List.map value_of_sexp vs)
  | L (A "tup" :: vs) -> VTuple (List.map value_of_sexp vs)
  | L (A "ts" :: vs) -> VTupleStruct (List.map value_of_sexp vs)
  | L (A "map" :: kvs) -> VMap (pairs (List.map value_of_sexp kvs))
  | L (A "st" :: vs) -> VStruct (List.map value_of_sexp vs)
  | L [A "var"; A i; v] -> VVariant (n_of_hex i, value_of_sexp v)
  | L (A "seqnl" :: vs) -> VSeqNoLen (List.map value_of_sexp vs)
  | L (A "mapnl" :: kvs) -> VMapNoLen (pairs (List.map value_of_sexp kvs))
  | L (A "cstr" :: ps) -> VCollectStr (List.map (function A h -> bytes_of_hex h | _ -> failwith "bad cstr") ps)
  | _ -> failwith "bad value"

let rec string_of_value (v : value) : string =
  let many tag vs = "(" ^ String.concat " " (tag :: List.map string_of_value vs) ^ ")" in
  let flat kvs = List.concat_map (fun (k, v) -> [ k; v ]) kvs in
  match v with
  | VBool b -> if b then "(b 1)" else "(b 0)"
  | VInt (k, z) -> Printf.sprintf "(i %s %s)" (string_of_ikind k) (hex_of_z z)
  | VF32 b -> "(f32 " ^ hex_of_n b ^ ")"
  | VF64 b -> "(f64 " ^ hex_of_n b ^ ")"
  | VChar c -> "(c " ^ hex_of_n c ^ ")"
  | VStr bs -> "(s " ^ hex_of_bytes bs ^ ")"
  | VBytes bs -> "(y " ^ hex_of_bytes bs ^ ")"
  | VNone -> "none"
  | VSome x -> "(some " ^ string_of_value x ^ ")"
  | VUnit -> "unit"
  | VUnitStruct -> "ustruct"
  | VNewtype x -> "(nt " ^ string_of_value x ^ ")"
  | VSeq vs -> many "seq" vs
  | VTuple vs -> many "tup" vs
  | VTupleStruct vs -> many "ts" vs
  | VMap kvs -> many "map" (flat kvs)
  | VStruct vs -> many "st" vs
  | VVariant (i, p) -> "(var " ^ hex_of_n i ^ " " ^ string_of_value p ^ ")"
  | VSeqNoLen vs -> many "seqnl" vs
  | VMapNoLen kvs -> many "mapnl" (flat kvs)
  | VCollectStr ps -> "(" ^ String.concat " " ("cstr" :: List.map hex_of_bytes ps) ^ ")"

let string_of_error (e : error) : string =
  match e with
  | WontImplement -> "WontImplement" | NotYetImplemented -> "NotYetImplemented"
  | SerializeBufferFull -> "SerializeBufferFull"
  | SerializeSeqLengthUnknown -> "SerializeSeqLengthUnknown"
  | DeserializeUnexpectedEnd -> "DeserializeUnexpectedEnd"
  | DeserializeBadVarint -> "DeserializeBadVarint" | DeserializeBadBool -> "DeserializeBadBool"
  | DeserializeBadChar -> "DeserializeBadChar" | DeserializeBadUtf8 -> "DeserializeBadUtf8"
  | DeserializeBadOption -> "DeserializeBadOption" | DeserializeBadEnum -> "DeserializeBadEnum"
  | DeserializeBadEncoding -> "DeserializeBadEncoding" | DeserializeBadCrc -> "DeserializeBadCrc"
  | SerdeSerCustom -> "SerdeSerCustom" | SerdeDeCustom -> "SerdeDeCustom"
  | CollectStrError -> "CollectStrError"

let string_of_res (f : 'a -> string) (r : 'a res) : string =
  match r with
  | Ok a -> "ok " ^ f a
  | Err e -> "err:" ^ string_of_error e
  | Panic -> "panic"
  | Fault -> "fault"
  | OutOfFuel -> "outoffuel"

let string_of_op = function
  | Push b -> "p:" ^ String.sub (hex_of_bytes [ b ]) 1 2
  | Extend bs -> "e:" ^ hex_of_bytes bs
  | ExtendFmt bs -> "f:" ^ hex_of_bytes bs


let canary = byte_tab.(0xEE)

let rec int_of_nat = function O -> 0 | S n -> 1 + int_of_nat n

let rec firstn_int k l = if k <= 0 then [] else match l with [] -> [] | x :: r -> x :: firstn_int (k - 1) r

(* "width:poly:init:refin:refout:xorout" (hex numbers, 0/1 flags); checksum bytes = width/8
   rounded up to the integer type the crc crate uses for that width *)
let alg_of_string (s : string) : crc_alg * nat =
  match String.split_on_char ':' s with
  | [ w; poly; init; refin; refout; xorout ] ->
    let wi = int_of_string w in
    let nb = if wi <= 8 then 1 else if wi <= 16 then 2 else if wi <= 32 then 4 else if wi <= 64 then 8 else 16 in
    ( { c_width = n_of_int wi; c_poly = n_of_hex poly; c_init = n_of_hex init; c_refin = refin = "1";
        c_refout = refout = "1"; c_xorout = n_of_hex xorout },
      nat_of_int nb )
  | _ -> failwith ("bad crc algorithm " ^ s)

let string_of_feed (r : feed_result) : string =
  match r with
  | Consumed -> "C"
  | OverFull rem -> "O:" ^ hex_of_bytes rem
  | DeserError rem -> "D:" ^ hex_of_bytes rem
  | Success (v, rem) -> "S:" ^ string_of_value v ^ ":" ^ hex_of_bytes rem

(* ---------- schema trees (text form shared with harness/src/stree.rs) ---------- *)
let prim_of_string = function
  | "Bool" -> PBool | "I8" -> PI8 | "U8" -> PU8 | "I16" -> PI16 | "I32" -> PI32 | "I64" -> PI64 | "I128" -> PI128
  | "U16" -> PU16 | "U32" -> PU32 | "U64" -> PU64 | "U128" -> PU128 | "Usize" -> PUsize | "Isize" -> PIsize
  | "F32" -> PF32 | "F64" -> PF64 | "Char" -> PChar | "String" -> PString | "ByteArray" -> PByteArray
  | "Unit" -> PUnit | "Schema" -> PSchema
  | s -> failwith ("bad prim " ^ s)
let string_of_prim = function
  | PBool -> "Bool" | PI8 -> "I8" | PU8 -> "U8" | PI16 -> "I16" | PI32 -> "I32" | PI64 -> "I64" | PI128 -> "I128"
  | PU16 -> "U16" | PU32 -> "U32" | PU64 -> "U64" | PU128 -> "U128" | PUsize -> "Usize" | PIsize -> "Isize"
  | PF32 -> "F32" | PF64 -> "F64" | PChar -> "Char" | PString -> "String" | PByteArray -> "ByteArray"
  | PUnit -> "Unit" | PSchema -> "Schema"

let name_of_atom (s : string) : n list =
  if String.length s = 0 || s.[0] <> 'x' then failwith ("bad name " ^ s) else bytes_of_hex s

let rec schema_of_sexp (e : sexp) : schema =
  match e with
  | A p -> SPrim (prim_of_string p)
  | L [A "opt"; t] -> SOption (schema_of_sexp t)
  | L [A "seq"; t] -> SSeq (schema_of_sexp t)
  | L (A "tup" :: ts) -> STuple (List.map schema_of_sexp ts)
  | L [A "map"; k; v] -> SMap (schema_of_sexp k, schema_of_sexp v)
  | L [A "struct"; A n; d] -> let k, fs = data_of_sexp d in SStruct (name_of_atom n, k, fs)
  | L (A "enum" :: A n :: vs) ->
    SEnum (name_of_atom n,
           List.map (function
               | L [A vn; d] -> let k, fs = data_of_sexp d in ((name_of_atom vn, k), fs)
               | _ -> failwith "bad variant") vs)
  | _ -> failwith "bad schema"
and data_of_sexp (e : sexp) : dkind * (n list * schema) list =
  match e with
  | A "U" -> (DUnit, [])
  | L [A "N"; t] -> (DNewtype, [([], schema_of_sexp t)])
  | L (A "T" :: ts) -> (DTuple, List.map (fun t -> ([], schema_of_sexp t)) ts)
  | L (A "S" :: fs) ->
    (DStruct, List.map (function L [A n; t] -> (name_of_atom n, schema_of_sexp t) | _ -> failwith "bad field") fs)
  | _ -> failwith "bad data"

let rec string_of_schema (s : schema) : string =
  match s with
  | SPrim p -> string_of_prim p
  | SOption t -> "(opt " ^ string_of_schema t ^ ")"
  | SSeq t -> "(seq " ^ string_of_schema t ^ ")"
  | STuple ts -> "(tup" ^ String.concat "" (List.map (fun t -> " " ^ string_of_schema t) ts) ^ ")"
  | SMap (k, v) -> "(map " ^ string_of_schema k ^ " " ^ string_of_schema v ^ ")"
  | SStruct (n, k, fs) -> "(struct " ^ hex_of_bytes n ^ " " ^ string_of_data k fs ^ ")"
  | SEnum (n, vs) ->
    "(enum " ^ hex_of_bytes n
    ^ String.concat "" (List.map (fun ((vn, k), fs) -> " (" ^ hex_of_bytes vn ^ " " ^ string_of_data k fs ^ ")") vs)
    ^ ")"
and string_of_data k fs =
  match k, fs with
  | DUnit, _ -> "U"
  | DNewtype, [ (_, t) ] -> "(N " ^ string_of_schema t ^ ")"
  | DNewtype, _ -> "(N?)"
  | DTuple, _ -> "(T" ^ String.concat "" (List.map (fun (_, t) -> " " ^ string_of_schema t) fs) ^ ")"
  | DStruct, _ ->
    "(S" ^ String.concat "" (List.map (fun (n, t) -> " (" ^ hex_of_bytes n ^ " " ^ string_of_schema t ^ ")") fs) ^ ")"

(* ---------- MaxSize type expressions (text form shared with harness/src/corp.rs) ---------- *)
let rec mty_of_sexp (e : sexp) : mty =
  match e with
  | A "bool" -> MBool | A "usize" -> MUsize | A "isize" -> MIsize | A "f32" -> MF32 | A "f64" -> MF64
  | A "char" -> MChar | A "unit" -> MUnit | A "nzusize" -> MNonZeroUsize | A "nzisize" -> MNonZeroIsize
  | A "phantom" -> MPhantom
  | L [A "int"; A k] -> MInt (ikind_of_string k)
  | L [A "nz"; A k] -> MNonZero (ikind_of_string k)
  | L [A "opt"; t] -> MOption (mty_of_sexp t)
  | L [A "res"; t; e] -> MResult (mty_of_sexp t, mty_of_sexp e)
  | L [A "arr"; t; A n] -> MArray (mty_of_sexp t, n_of_int (int_of_string n))
  | L [A "ref"; t] -> MRef (mty_of_sexp t)
  | L [A "refmut"; t] -> MRefMut (mty_of_sexp t)
  | L [A "box"; t] -> MBox (mty_of_sexp t)
  | L [A "rc"; t] -> MRc (mty_of_sexp t)
  | L [A "arc"; t] -> MArc (mty_of_sexp t)
  | L (A "tup" :: ts) -> MTuple (List.map mty_of_sexp ts)
  | L [A "range"; t] -> MRange (mty_of_sexp t)
  | L [A "rangei"; t] -> MRangeInclusive (mty_of_sexp t)
  | L [A "rangefrom"; t] -> MRangeFrom (mty_of_sexp t)
  | L [A "rangeto"; t] -> MRangeTo (mty_of_sexp t)
  | L [A "hvec"; t; A n] -> MHVec (mty_of_sexp t, n_of_int (int_of_string n))
  | L [A "hstr"; A n] -> MHString (n_of_int (int_of_string n))
  | L (A "struct" :: ts) -> MStruct (List.map mty_of_sexp ts)
  | L (A "enum" :: vs) ->
    MEnum (List.map (function L ts -> List.map mty_of_sexp ts | A _ -> failwith "bad enum variant") vs)
  | _ -> failwith "bad mty"

(* ---------- Schema-impl type expressions (text form shared with harness/src/sty.rs) ---------- *)
let dkind_of_atom = function
  | "unit" -> DUnit | "newtype" -> DNewtype | "tuple" -> DTuple | "struct" -> DStruct
  | s -> failwith ("bad form " ^ s)
let rec sty_of_sexp (e : sexp) : sty =
  let nn n = n_of_int (int_of_string n) in
  match e with
  | A "bool" -> YBool | A "f32" -> YF32 | A "f64" -> YF64 | A "char" -> YChar | A "unit" -> YUnit
  | A "str" -> YStr | A "string" -> YString | A "pathbuf" -> YPathBuf
  | A "uuid" -> YUuid | A "datetime" -> YDateTime | A "key" -> YKey
  | A "ownedschema" -> YOwnedSchema | A "borrowedschema" -> YBorrowedSchema
  | L [A "int"; A k] -> YInt (ikind_of_string k)
  | L [A "nz"; A k] -> YNonZero (ikind_of_string k)
  | L [A "opt"; t] -> YOption (sty_of_sexp t)
  | L [A "res"; t; e] -> YResult (sty_of_sexp t, sty_of_sexp e)
  | L [A "ref"; t] -> YRef (sty_of_sexp t)
  | L [A "slice"; t] -> YSlice (sty_of_sexp t)
  | L [A "arr"; t; A n] -> YArray (sty_of_sexp t, nn n)
  | L (A "tup" :: ts) -> YTuple (List.map sty_of_sexp ts)
  | L [A "range"; t] -> YRange (sty_of_sexp t)
  | L [A "rangei"; t] -> YRangeInclusive (sty_of_sexp t)
  | L [A "rangefrom"; t] -> YRangeFrom (sty_of_sexp t)
  | L [A "rangeto"; t] -> YRangeTo (sty_of_sexp t)
  | L [A "vec"; t] -> YVec (sty_of_sexp t)
  | L [A "btreemap"; k; v] -> YBTreeMap (sty_of_sexp k, sty_of_sexp v)
  | L [A "hashmap"; k; v] -> YHashMap (sty_of_sexp k, sty_of_sexp v)
  | L [A "btreeset"; t] -> YBTreeSet (sty_of_sexp t)
  | L [A "hashset"; t] -> YHashSet (sty_of_sexp t)
  | L [A "hvec"; t; A n] -> YHVec (sty_of_sexp t, nn n)
  | L [A "hstr"; A n] -> YHString (nn n)
  | L (A "dstruct" :: A name :: A form :: fs) -> YDStruct (name_of_atom name, dkind_of_atom form, List.map sty_field fs)
  | L (A "denum" :: A name :: vs) ->
    YDEnum (name_of_atom name,
            List.map (function
                | L (A vn :: A form :: fs) -> ((name_of_atom vn, dkind_of_atom form), List.map sty_field fs)
                | _ -> failwith "bad sty variant") vs)
  | _ -> failwith "bad sty"
and sty_field = function
  | L [A n; t] -> ((if n = "_" then [] else name_of_atom n), sty_of_sexp t)
  | _ -> failwith "bad sty field"

(* ---------- named values (text form shared with harness/src/capture.rs) ---------- *)
let rec nvalue_of_sexp (e : sexp) : nvalue =
  match e with
  | L [A "b"; A "0"] -> NBool false
  | L [A "b"; A "1"] -> NBool true
  | L [A "i"; A k; A z] -> NInt (ikind_of_string k, z_of_hex z)
  | L [A "f32"; A h] -> NF32 (n_of_hex h)
  | L [A "f64"; A h] -> NF64 (n_of_hex h)
  | L [A "c"; A h] -> NChar (n_of_hex h)
  | L [A "s"; A h] -> NStr (bytes_of_hex h)
  | L [A "y"; A h] -> NBytes (bytes_of_hex h)
  | A "none" -> NNone
  | L [A "some"; v] -> NSome (nvalue_of_sexp v)
  | A "unit" -> NUnit
  | L [A "us"; A n] -> NUnitStruct (bytes_of_hex n)
  | L [A "ns"; A n; v] -> NNewtypeStruct (bytes_of_hex n, nvalue_of_sexp v)
  | L (A "seq" :: vs) -> NSeq (List.map nvalue_of_sexp vs)
  | L (A "tup" :: vs) -> NTuple (List.map nvalue_of_sexp vs)
  | L (A "ts" :: A n :: vs) -> NTupleStruct (bytes_of_hex n, List.map nvalue_of_sexp vs)
  | L (A "map" :: kvs) -> NMap (pairs (List.map nvalue_of_sexp kvs))
  | L (A "st" :: A n :: fs) ->
    NStruct (bytes_of_hex n, List.map (function L [A f; v] -> (bytes_of_hex f, nvalue_of_sexp v) | _ -> failwith "bad field") fs)
  | L [A "var"; A e; A i; A vn; p] -> NVariant (bytes_of_hex e, n_of_hex i, bytes_of_hex vn, nvalue_of_sexp p)
  | _ -> failwith "bad nvalue"

(* ---------- serde_json values (text form shared with harness/src/jsonv.rs) ---------- *)
let rec json_of_sexp (e : sexp) : json =
  match e with
  | A "null" -> JNull
  | L [A "b"; A "0"] -> JBool false
  | L [A "b"; A "1"] -> JBool true
  | L [A "n"; A z] -> JInt (z_of_hex z)
  | L [A "f"; A h] -> JFloat (n_of_hex h)
  | L [A "s"; A h] -> JStr (bytes_of_hex h)
  | L (A "a" :: l) -> JArr (List.map json_of_sexp l)
  | L (A "o" :: kvs) -> JObj (List.map (function L [A k; v] -> (bytes_of_hex k, json_of_sexp v) | _ -> failwith "bad member") kvs)
  | _ -> failwith "bad json"
let rec string_of_json (j : json) : string =
  match j with
  | JNull -> "null"
  | JBool b -> if b then "(b 1)" else "(b 0)"
  | JInt z -> "(n " ^ hex_of_z z ^ ")"
  | JFloat b -> "(f " ^ hex_of_n b ^ ")"
  | JStr s -> "(s " ^ hex_of_bytes s ^ ")"
  | JArr l -> "(a" ^ String.concat "" (List.map (fun x -> " " ^ string_of_json x) l) ^ ")"
  | JObj kvs -> "(o" ^ String.concat "" (List.map (fun (k, v) -> " (" ^ hex_of_bytes k ^ " " ^ string_of_json v ^ ")") kvs) ^ ")"

(* the host's float conversions (trusted: OCaml / IEEE 754) *)
let int64_of_n (x : n) : int64 = Int64.of_string ("0x" ^ hex_of_n x)
let n_of_int64 (x : int64) : n = n_of_hex (Printf.sprintf "%Lx" x)
let host_int_to_f64 (z : z) : n =
  let h = hex_of_z z in
  let f =
    if String.length h > 0 && h.[0] = '-' then Int64.to_float (Int64.of_string ("-0x" ^ String.sub h 1 (String.length h - 1)))
    else begin
      let u = Int64.of_string ("0x" ^ h) in
      if Int64.compare u 0L >= 0 then Int64.to_float u
      else Int64.to_float (Int64.logor (Int64.shift_right_logical u 1) (Int64.logand u 1L)) *. 2.0
    end
  in
  n_of_int64 (Int64.bits_of_float f)
let host_narrow (b : n) : n = n_of_hex (Printf.sprintf "%lx" (Int32.bits_of_float (Int64.float_of_bits (int64_of_n b))))
let host_widen (b : n) : n =
  n_of_int64 (Int64.bits_of_float (Int32.float_of_bits (Int32.of_string ("0x" ^ hex_of_n b))))
let string_of_dres (errs : 'e -> string) (f : 'a -> string) (r : ('e, 'a) dres) : string =
  match r with
  | DOk a -> "ok " ^ f a
  | DErr e -> "err:" ^ errs e
  | DPanic -> "panic"
  | DUnbounded -> "unbounded"
let string_of_dyn_ser_error = function
  | DynSerSchemaMismatch -> "SchemaMismatch" | DynSerShouldSupportButDont -> "ShouldSupportButDont" | DynSerUnsupported -> "Unsupported"
let string_of_dyn_de_error = function
  | DynUnexpectedEndOfData -> "UnexpectedEndOfData" | DynShouldSupportButDont -> "ShouldSupportButDont" | DynSchemaMismatch -> "SchemaMismatch"
