(* pvrunner main loop; see util.ml *)
open Ops

let () =
  let ic = if Array.length Sys.argv > 1 then open_in Sys.argv.(1) else stdin in
  let lineno = ref 0 and cases = ref 0 and bad = ref 0 in
  (try
     while true do
       let line = input_line ic in
       incr lineno;
       if String.length line > 0 && line.[0] <> '#' then begin
         match String.split_on_char '\t' line with
         | op :: rest when List.length rest >= 1 ->
           let rec split_last = function [ x ] -> ([], x) | x :: r -> let a, l = split_last r in (x :: a, l) | [] -> assert false in
           let args, observed = split_last rest in
           incr cases;
           let model = try run_op op args with Failure m -> "runner-failure:" ^ m | Stack_overflow -> "runner-failure:stack" in
           if model <> observed then begin
             incr bad;
             Printf.printf "MISMATCH %d %s model=%s impl=%s input=%s\n" !lineno op model observed (String.concat " | " args)
           end
         | _ -> Printf.printf "MALFORMED %d %s\n" !lineno line; incr bad
       end
     done
   with End_of_file -> ());
  Printf.printf "DONE cases=%d mismatches=%d\n" !cases !bad
