#!/bin/sh
# builds pvrunner from the freshly extracted model.ml; a failed build leaves no binary behind
set -e
cd "$(dirname "$0")"
rm -f pvrunner
ocamlfind ocamlopt -O3 -w -a -o pvrunner model.mli model.ml util.ml ops.ml main.ml 2>&1 | grep -v 'options -O3 is only relevant' || true
test -x pvrunner
