#!/bin/sh
# builds pvrunner from the freshly extracted model.ml
set -e
cd "$(dirname "$0")"
ocamlfind ocamlopt -O3 -w -a -o pvrunner model.mli model.ml util.ml ops.ml main.ml 2>&1 | grep -v 'options -O3 is only relevant' || true
test -x pvrunner
